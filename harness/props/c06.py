"""C06 — The CIF text layer returns every string table unchanged; containers are ordinary mappings.

Plugin interface: see harness/README.md.  Strings travel hex-encoded on the line protocol
(hex digits of the UTF-8 bytes, '-' = empty string); lists ',' ('_' = empty), columns
'key=v,v' joined by ';', categories 'name:cols' joined by '/', blocks 'name@cats' joined by '|'.
"""
import ast
import os

PROP = "C06"
PROPS_MODULE = "BiotiteModel.Props.C06"
DRIVER_MODULE = "BiotiteModel.Driver.C06"
EXT_MODULES = ["biotite.structure.io.pdbx.encoding"]
GEN_FILES = ["BiotiteModel/Gen/C06.lean"]
RULE = ("rectangular string tables (1-4 columns x 1-5 rows, 1-2 blocks, 1-3 categories) from a grammar biased to awkward "
        "values (every special first character / reserved word / quote combination / blank / '.' '?' mask state / line "
        "breaks) placed at every (row, column); serialised and parsed by the real code and by the Lean model "
        "(text compared byte for byte, parse result cell for cell); tokeniser and category/block/file readers on "
        "foreign and malformed CIF text; mapping-operation histories on the six container classes against the model "
        "and a dict (names with leading/inner/trailing/double underscores, alternative text layouts of the same element); == of two "
        "parsed files that lay out the same tables differently, before any access; == of tables differing only in row count at every level (data..file), fresh and parsed; one file object written, edited in place and written again (and parsed, edited, written) against a fresh object; less-used entry points (copy, str, lines, block, read/write, mixins), other spellings of data/mask/keys, non-default as_array arguments, prefix/empty names; explicitly masked columns read in every as_array flavour, "
        "serialised, and sharing their data with an unmasked column; set/delete/serialise/row_count histories on text and binary categories (cached row count).  non-trivial = a table with an awkward value or >= 2 rows, a reader text with >= 2 tokens, "
        "a history with >= 3 operations; distinct = different op lines")
TRUSTED = ["Python str.strip/split/splitlines/partition/ljust and dict order are modelled by their documented semantics "
           "(whitespace = str.isspace, only '\\n' as line boundary inside the hypotheses)",
           "numpy unicode arrays are modelled as lists of strings (itemsize = longest element)",
           "msgpack and the BinaryCIF column encodings are outside this property (C05)"]
ASSUMPTIONS = ["values are arbitrary Python strings (all of Unicode; line boundaries other than \\n are a known finding); names follow the CIF name grammar "
               "(no blank, no '.', no quote); container keys include leading/inner/trailing/double underscores"]
LEVEL_TEXT = ("Lean theorems, all for unbounded inputs. C06_file_roundtrip / C06_block_roundtrip: a file of blocks of categories of "
              "rectangular tables of single-line values (blanks, tabs, either quote character, every special first character / "
              "reserved word, empty strings, '.'/'?'; names without blank, '.', quote; distinct names) serialises to text that "
              "CIFFile.deserialize -> CIFBlock.deserialize -> CIFCategory.deserialize parse back to the same nested mapping; composed "
              "from C06_table_looped / C06_table_single (one statement per category), C06_written_lines_safe (no written line can be "
              "misread as a data_/loop_/category boundary, comment or blank - line-start safety lifted from tokens to lines, first "
              "loop column and single-row lines included), C06_token, C06_row, C06_row_written, C06_looped_lines; C06_table_masks adds "
              "the mask states. C06_gen_escape / C06_special_heads_quoted tie the quoting decision and every reader first-character "
              "test to tables regenerated from cif.py. Containers: C06_container_refines, C06_container_eq_refines, C06_get_parses "
              "(every history incl. == on lazily parsed containers refines a plain mapping), C06_lazy_file_refines / C06_lazy_get "
              "(the file held as text of blocks of text of categories means the fully parsed nested mapping; file[b][c] through two "
              "lazy steps is the nested look-up), C06_container_refines_prefixed / C06_binary_block_refines (BinaryCIFBlock '_' key "
              "prefix), C06_rowcount_not_stale, C06_reads_pure. Partial: multi-line values and single-line values with both quote "
              "characters under explicit line hypotheses (C06_multiline_partial, C06_both_quotes_partial; excluded classes have "
              "_defect witnesses and are known findings); rows mixing multi-line and ordinary values from the reader's cleaned lines "
              "on (C06_mixed_row_partial: _to_single + tokeniser; that the written text of such a row has those lines is "
              "correspondence only). Everything is also exercised against the real code op by op (text compared byte for byte) "
              "and by the round-trip / dict oracles.")
LEVEL_NOTE = "text model over List Char; Python string library and numpy modelled, not verified; BinaryCIF key prefix not modelled"
TECHNIQUE = "Lean 4 proof (induction over rows/tokens/histories, refinement) + Gen tables from ast + correspondence"

MAXC = 256


# ---------------------------------------------------------------- encoding helpers
def enc(s):
    return "-" if s == "" else s.encode("utf-8").hex()


def dec(h):
    return "" if h == "-" else bytes.fromhex(h).decode("utf-8")


def enc_list(xs):
    return "_" if not xs else ",".join(enc(x) for x in xs)


def dec_list(s):
    return [] if s == "_" else [dec(x) for x in s.split(",")]


def enc_cols(cols):
    return "_" if not cols else ";".join(enc(k) + "=" + enc_list(vs) for k, vs in cols)


def dec_cols(s):
    if s == "_":
        return []
    out = []
    for c in s.split(";"):
        k, vs = c.split("=")
        out.append((dec(k), dec_list(vs)))
    return out


def enc_cats(cats):
    return "_" if not cats else "/".join(enc(n) + ":" + enc_cols(cols) for n, cols in cats)


def dec_cats(s):
    if s == "_":
        return []
    out = []
    for c in s.split("/"):
        n, cols = c.split(":")
        out.append((dec(n), dec_cols(cols)))
    return out


def enc_blocks(blocks):
    return "_" if not blocks else "|".join(enc(n) + "@" + enc_cats(cats) for n, cats in blocks)


def dec_blocks(s):
    if s == "_":
        return []
    out = []
    for b in s.split("|"):
        n, cats = b.split("@")
        out.append((dec(n), dec_cats(cats)))
    return out


# ---------------------------------------------------------------- translator (Gen)
def _lean_char(c):
    if len(c) != 1:
        raise ValueError(f"expected a single character, got {c!r}")
    if c == '"':
        return "q2"
    if c == "'":
        return "q1"
    esc = {"\\": "\\\\", "\n": "\\n", "\t": "\\t", "\r": "\\r"}
    if c in esc:
        return "'" + esc[c] + "'"
    if not (32 <= ord(c) < 127):
        return f"(Char.ofNat {ord(c)})"
    return "'" + c + "'"


def _lean_str(s):
    out = '"'
    for c in s:
        if c == '"':
            out += '\\"'
        elif c == "\\":
            out += "\\\\"
        elif c == "\n":
            out += "\\n"
        elif c == "\t":
            out += "\\t"
        elif 32 <= ord(c) < 127:
            out += c
        else:
            raise ValueError(f"unsupported character {c!r}")
    return out + '"'


def _const_str(n):
    if isinstance(n, ast.Constant) and isinstance(n.value, str):
        return n.value
    return None


def _str_tuple(n):
    if isinstance(n, (ast.Tuple, ast.List)) and n.elts and all(_const_str(e) is not None for e in n.elts):
        return [_const_str(e) for e in n.elts]
    return None


def _is_sub0(n, var=None):
    """x[0], or the equivalent x[:1] (a one-character prefix)"""
    first = isinstance(n, ast.Subscript) and isinstance(n.slice, ast.Constant) and n.slice.value == 0
    prefix1 = (isinstance(n, ast.Subscript) and isinstance(n.slice, ast.Slice) and n.slice.lower is None and n.slice.step is None
               and isinstance(n.slice.upper, ast.Constant) and n.slice.upper.value == 1)
    if not (first or prefix1):
        return False
    if not isinstance(n.value, ast.Name):
        # e.g. line.lstrip()[0]: a first-character test on a derived string is not what the model has
        raise ValueError("first-character test on a derived string: " + ast.unparse(n))
    return var is None or n.value.id == var


_SUBST = {}
_ML_NAME = ["_multiline"]


def _cond(n, var):
    """Translate a test of `_escape` into a Lean `Cond` term; refuse anything unknown."""
    if isinstance(n, ast.Name) and n.id in _SUBST:
        return _cond(_SUBST[n.id], var)
    if isinstance(n, ast.BoolOp):
        parts = [_cond(v, var) for v in n.values]
        op = ".and" if isinstance(n.op, ast.And) else ".or"
        t = parts[0]
        for p in parts[1:]:
            t = f"({op} {t} {p})"
        return t
    if isinstance(n, ast.Compare) and len(n.ops) == 1:
        op, l, r = n.ops[0], n.left, n.comparators[0]
        if isinstance(op, ast.In) and _const_str(l) is not None and isinstance(r, ast.Name) and r.id == var:
            return f"(.hasChar {_lean_char(_const_str(l))})"
        if (isinstance(op, ast.Eq) and isinstance(l, ast.Call) and isinstance(l.func, ast.Name) and l.func.id == "len"
                and isinstance(l.args[0], ast.Name) and l.args[0].id == var
                and isinstance(r, ast.Constant) and r.value == 0):
            return ".isEmpty"
        if isinstance(op, ast.Eq) and _is_sub0(l, var) and _const_str(r) is not None:
            return f"(.firstIs {_lean_char(_const_str(r))})"
        if isinstance(op, ast.In) and _is_sub0(l, var) and _str_tuple(r):
            return "(.firstIn [" + ", ".join(_lean_char(c) for c in _str_tuple(r)) + "])"
    if (isinstance(n, ast.Call) and isinstance(n.func, ast.Attribute) and n.func.attr == "startswith"
            and isinstance(n.func.value, ast.Name) and n.func.value.id == var and len(n.args) == 1):
        a = n.args[0]
        if _const_str(a) is not None:
            return f"(.startsWith {_lean_str(_const_str(a))})"
        if _str_tuple(a):
            return "(.startsWithAny [" + ", ".join(_lean_str(s) for s in _str_tuple(a)) + "])"
    if (isinstance(n, ast.Call) and isinstance(n.func, ast.Name) and n.func.id == "any" and len(n.args) == 1
            and isinstance(n.args[0], ast.GeneratorExp) and len(n.args[0].generators) == 1):
        g = n.args[0]
        comp = g.generators[0]
        if (isinstance(comp.iter, ast.Name) and comp.iter.id == var and not comp.ifs and isinstance(comp.target, ast.Name)
                and isinstance(g.elt, ast.Call) and isinstance(g.elt.func, ast.Attribute) and g.elt.func.attr == "isspace"
                and isinstance(g.elt.func.value, ast.Name) and g.elt.func.value.id == comp.target.id and not g.elt.args):
            return ".hasWs"
    raise ValueError("unrecognised test in _escape: " + ast.unparse(n))


def _act(n, var):
    if isinstance(n, ast.Name) and n.id == var:
        return ".asIs"
    if (isinstance(n, ast.Call) and isinstance(n.func, ast.Name) and n.func.id == _ML_NAME[0]
            and len(n.args) == 1 and isinstance(n.args[0], ast.Name) and n.args[0].id == var):
        return ".multiline"
    if _const_str(n) is not None:
        return f"(.literal {_lean_str(_const_str(n))})"
    # q + value + q
    if (isinstance(n, ast.BinOp) and isinstance(n.op, ast.Add) and isinstance(n.left, ast.BinOp)
            and isinstance(n.left.op, ast.Add)):
        a, b, c = n.left.left, n.left.right, n.right
        if (_const_str(a) is not None and _const_str(a) == _const_str(c) and len(_const_str(a)) == 1
                and isinstance(b, ast.Name) and b.id == var):
            return f"(.quote {_lean_char(_const_str(a))})"
    raise ValueError("unrecognised return in _escape: " + ast.unparse(n))


def _single_return(body):
    stmts = [s for s in body if not (isinstance(s, ast.Expr) and isinstance(s.value, ast.Constant))]
    if len(stmts) != 1 or not isinstance(stmts[0], ast.Return):
        raise ValueError("branch of _escape is not a single return")
    return stmts[0].value


def _reader_tests(tree, escape_name, canon):
    """Every test of the first character / a prefix of a line or word in cif.py outside the quoting decision;
    functions are reported under their canonical (structural) names."""
    tests = []

    class _Named:
        def __init__(self, fn):
            self.fn, self.name = fn, canon.get(fn.name, fn.name)

    def visit_fn(fn):
        return _visit(fn, _Named(fn))

    def _visit(fn_ast, fn):
        for n in ast.walk(fn_ast):
            if isinstance(n, ast.Compare) and len(n.ops) == 1 and _is_sub0(n.left):
                r = n.comparators[0]
                if isinstance(n.ops[0], (ast.Eq, ast.NotEq)) and _const_str(r) is not None:
                    tests.append((fn.name, f"(.firstIs {_lean_char(_const_str(r))})"))
                elif isinstance(n.ops[0], (ast.In, ast.NotIn)) and _str_tuple(r):
                    tests.append((fn.name, "(.firstIn [" + ", ".join(_lean_char(c) for c in _str_tuple(r)) + "])"))
                else:
                    raise ValueError(f"unrecognised first-character test in {fn.name}: {ast.unparse(n)}")
            if (isinstance(n, ast.Call) and isinstance(n.func, ast.Attribute) and n.func.attr == "startswith"
                    and len(n.args) == 1):
                a = n.args[0]
                if _const_str(a) is not None:
                    s = _const_str(a)
                    tests.append((fn.name, f"(.firstIs {_lean_char(s)})" if len(s) == 1 else f"(.startsWith {_lean_str(s)})"))
                elif _str_tuple(a):
                    ss = _str_tuple(a)
                    if all(len(s) == 1 for s in ss):
                        tests.append((fn.name, "(.firstIn [" + ", ".join(_lean_char(c) for c in ss) + "])"))
                    else:
                        tests.append((fn.name, "(.startsWithAny [" + ", ".join(_lean_str(s) for s in ss) + "])"))
                else:
                    raise ValueError(f"unrecognised startswith test in {fn.name}: {ast.unparse(n)}")

    for node in ast.walk(tree):
        if isinstance(node, ast.FunctionDef) and node.name != escape_name:
            # only the function's own statements (nested defs are visited on their own)
            visit_fn(node)
    # dedupe, keep order
    seen, out = set(), []
    for t in tests:
        if t not in seen:
            seen.add(t)
            out.append(t)
    return out


def gen_lean():
    from common import paths
    path = os.path.join(paths.SRC, "biotite/structure/io/pdbx/cif.py")
    tree = ast.parse(open(path).read())
    from props import c06_gen
    roles = c06_gen.cif_roles(tree)        # private helpers are found by their structure, not by their names
    fn, mlfn = roles["_escape"], roles["_multiline"]
    var = fn.args.args[0].arg
    _SUBST.clear()
    _ML_NAME[0] = mlfn.name

    def chain(stmts):
        """if/elif chains and guard clauses with early returns alike: [(test, result)], default"""
        branches = []
        for st in stmts:
            if isinstance(st, ast.Expr) and isinstance(st.value, ast.Constant):
                continue
            if (isinstance(st, ast.Assign) and len(st.targets) == 1 and isinstance(st.targets[0], ast.Name)
                    and st.targets[0].id != var):
                _SUBST[st.targets[0].id] = st.value          # a hoisted test
                continue
            if isinstance(st, ast.Return):
                return branches, _act(st.value, var)
            if isinstance(st, ast.If):
                branches.append((_cond(st.test, var), _act(_single_return(st.body), var)))
                if st.orelse:
                    more, default = chain(st.orelse)
                    return branches + more, default
                continue
            raise ValueError("unrecognised statement in the quoting decision: " + ast.unparse(st))
        raise ValueError("the quoting decision does not end with a return")
    branches, default = chain(fn.body)
    mret = _single_return(mlfn.body)
    mvar = mlfn.args.args[0].arg
    if not (isinstance(mret, ast.BinOp) and isinstance(mret.left, ast.BinOp) and _const_str(mret.left.left) is not None
            and isinstance(mret.left.right, ast.Name) and mret.left.right.id == mvar and _const_str(mret.right) is not None):
        raise ValueError("the multi-line helper is not prefix + value + suffix")
    canon = {f.name: role.split(".")[-1] for role, f in roles.items()}
    tests = _reader_tests(tree, fn.name, canon)
    if not tests:
        raise ValueError("no reader first-character tests found in cif.py")
    body = [
        "/- REGENERATED on every run by harness/props/c06.py from structure/io/pdbx/cif.py (Python ast). Do not edit. -/",
        "import BiotiteModel.Model.C06",
        "namespace BiotiteModel.Gen.C06",
        "open BiotiteModel.C06",
        "/-- The if/elif chain of `_escape`: (test, returned expression), in source order. -/",
        "def escapeBranches : List (Cond × Act) := [",
        ",\n".join(f"  ({c}, {a})" for c, a in branches),
        "]",
        "/-- The final `else` of `_escape`. -/",
        f"def escapeDefault : Act := {default}",
        "/-- `_multiline`: prefix and suffix around the value. -/",
        f"def multilinePrefix : String := {_lean_str(_const_str(mret.left.left))}",
        f"def multilineSuffix : String := {_lean_str(_const_str(mret.right))}",
        "/-- Every test of a first character / prefix that the reader functions of cif.py perform: (function, test). -/",
        "def readerHeadTests : List (String × Cond) := [",
        ",\n".join(f"  ({_lean_str(f)}, {c})" for f, c in tests),
        "]",
        "/-! Fingerprints of every anchored function and the literals the model hard-codes (props/c06_gen.py). -/"]
    from props import c06_gen
    fps = c06_gen.fingerprints(paths.SRC)
    body += c06_gen.lean_defs(fps, c06_gen.named_constants(paths.SRC, fps), "Gen")
    body += ["end BiotiteModel.Gen.C06", ""]
    return {"BiotiteModel/Gen/C06.lean": "\n".join(body)}


# ---------------------------------------------------------------- value grammar
SPECIAL_HEADS = ["#", ";", "_", "$", "[", "]", "'", '"', " ", "\t", ".", "?", "data_", "loop_", "save_", "global_", "stop_",
                 "DATA_", "Loop_"]
PLAIN = ["a", "B", "x1", "1.5", "-3", "foo", "N", "CA", "ALA", "abc_def", "x.y", "a-b", "x#y", "p;q", "m$n", "k[0]"]
INSIDE = [" ", "\t", "'", '"', "#", ";", "_", "$", "[", "]", "  ", "' ", " '", '" ', ' "', "'\"", "\"'", "' \"", ".", "?"]


def simple_value(rng):
    """A single-line value inside the hypotheses of C06_token / C06_row (no both-quotes+trailing-blank)."""
    r = rng.random()
    if r < 0.18:
        v = rng.choice(PLAIN)
    elif r < 0.22:
        v = ""
    elif r < 0.28:
        v = rng.choice([".", "?", "..", "??", ".?", "'.'", "a.", "?b"])
    elif r < 0.55:
        v = rng.choice(SPECIAL_HEADS) + rng.choice(["", "", "x", "abc", "x y", "1", "_", "#", ";"])
    elif r < 0.85:
        v = rng.choice(PLAIN + [""]) + rng.choice(INSIDE) + rng.choice(PLAIN + ["", ""])
        if rng.random() < 0.3:
            v += rng.choice(INSIDE) + rng.choice(["", "z"])
    elif r < 0.93:
        n = rng.randint(1, 6)
        v = "".join(rng.choice("ab_#;$[]'\" \t.?dlo-:,/\\=@|~") for _ in range(n))
    else:
        # other whitespace that is not a line boundary, control and non-ASCII characters
        pool = OTHER_WS[:2] + "\x7f\x01\xe9\xdf" if rng.random() < 0.7 else OTHER_WS + "\u03bb\U0001F600\xe9"
        v = rng.choice(["", "a", "x y"]) + rng.choice(pool) + rng.choice(["", "b", "'", "#"]) + rng.choice(["", rng.choice(pool)])
    if "'" in v and '"' in v:
        v = v.rstrip(" \t" + OTHER_WS)
        if v == "":
            v = "'\""
    return v


def good_multiline(rng):
    """A value with line breaks inside the hypotheses of C06_multiline_partial."""
    def inner(first):
        w = rng.choice(["x", "abc", "a b", "it's", 'say "hi"', "p#q", "1;2", "a'\"b", "x_y", "$", "[z]", "ldata_", "xloop_"])
        if first and rng.random() < 0.5:
            w = rng.choice(["", " lead", "#c", "_u", ";s", "data_d", "loop_", "\tt"]) if rng.random() < 0.6 else w
        return w
    n = rng.randint(2, 4)
    lines = [inner(True)] + [inner(False) for _ in range(n - 1)]
    return "\n".join(lines)


DEFECT_VALUES = {
    # key suffix -> example values (all outside the hypotheses of the partial theorems)
    "multiline/blank-line": ["x\n\ny", "x\n", "\n\nx", "a\n \nb"],
    "multiline/hash-line": ["x\n#y", "a\nb\n#"],
    "multiline/semicolon-line": ["x\n;y", "a\n;"],
    "multiline/indented-line": ["x\n y", "a\n\tb"],
    "multiline/trailing-blank": ["x\ny ", "x \ny", "a\nb\t"],
    "multiline/underscore-line": ["x\n_y.z", "a\n_b"],
    "multiline/data-line": ["x\ndata_y"],
    "multiline/loop-line": ["x\nloop_", "x\nloop_y"],
    "both-quotes/trailing-blank": ["a'\" ", "'\"\t", "it's \"x\" ", "a'\"\xa0"],
    # line boundaries of str.splitlines() other than \n: the written line is cut there
    "value/other-line-break": ["a\rb", "a\x85b", "x\x0c", "\x1cy", "p\x0bq r", "a\u2028b", "it's\x1e"],
}

BREAKS = "\r\x0b\x0c\x1c\x1d\x1e\x85\u2028\u2029"
OTHER_WS = "\x1f\xa0\u2003\u3000"          # whitespace that is not a line boundary (quoted since fix 4a0502c6)


def classify(v):
    """The defect class of a value, None if it lies inside the hypotheses of the theorems."""
    if any(c in BREAKS for c in v):
        return "value/other-line-break"
    ws = " \t" + OTHER_WS
    if "\n" not in v:
        if "'" in v and '"' in v and v and v[-1] in ws:
            return "both-quotes/trailing-blank"
        return None
    lines = v.split("\n")
    for i, l in enumerate(lines):
        if i >= 1 and l.strip(ws) == "":
            return "multiline/blank-line"
    for i, l in enumerate(lines):
        if i >= 1 and l.startswith("#"):
            return "multiline/hash-line"
    for i, l in enumerate(lines):
        if i >= 1 and l.startswith(";"):
            return "multiline/semicolon-line"
    for i, l in enumerate(lines):
        if i >= 1 and l[0] in ws:
            return "multiline/indented-line"
    for i, l in enumerate(lines):
        if l and l[-1] in ws:
            return "multiline/trailing-blank"
    for i, l in enumerate(lines):
        if i >= 1 and l.startswith("_"):
            return "multiline/underscore-line"
    for i, l in enumerate(lines):
        if i >= 1 and l.startswith("data_"):
            return "multiline/data-line"
    for i, l in enumerate(lines):
        if i >= 1 and l.startswith("loop_"):
            return "multiline/loop-line"
    return None


def in_alphabet(v):
    """Every Python string is a value (audit 6: the former restriction to printable ASCII hid the other
    whitespace characters); what cannot be represented is classified by classify()."""
    return True


NAME_CHARS = "abcdefghijklmnopqrstuvwxyzABCXYZ0123456789_-[]"


def name(rng, used=()):
    while True:
        if used and rng.random() < 0.25:
            # a name that extends or shortens one already in use (boundaries are found by comparing names)
            base = rng.choice(list(used))
            n = base + rng.choice(["_", "1", "_x", "x"]) if rng.random() < 0.7 or len(base) < 2 else base[:-1]
        else:
            n = rng.choice("abcdefghxyzABC") + "".join(rng.choice(NAME_CHARS) for _ in range(rng.randint(0, 7)))
        if n not in used:
            return n


def cell_of(v):
    """CIFColumn reads the strings '.' and '?' as mask states, so they are not PRESENT values."""
    return ["i"] if v == "." else ["m"] if v == "?" else ["p", v]


def render_cell(c):
    return c[1] if c[0] == "p" else "." if c[0] == "i" else "?"


def table_to_blocks(table):
    return [(b, [(c, [(k, [render_cell(x) for x in cells]) for k, cells in cols]) for c, cols in cats]) for b, cats in table]


def make_table(rng, awkward=None, pos=None, n_rows=None, n_cols=None, multi_ok=True):
    """table = [(block, [(category, [(key, [cell...])...])...])...], cell = ['p', v] | ['i'] | ['m']."""
    blocks = []
    bnames = []
    target_done = False
    for _ in range(rng.choice([1, 1, 1, 2])):
        bn = name(rng, bnames)
        if rng.random() < 0.12:
            # leading / inner / trailing blanks and tabs in a block name; and the stripped twin next to it
            bn2 = rng.choice([bn + " ", bn + "\t", bn + "  ", " " + bn, bn + " x", bn + "\xa0"])
            if bn2 not in bnames:
                bn = bn2
        bnames.append(bn)
        cats = []
        cnames = []
        for _ in range(rng.choice([1, 1, 2, 3])):
            cn = name(rng, cnames)
            cnames.append(cn)
            k = n_cols or rng.randint(1, 4)
            r = n_rows or rng.choice([1, 1, 2, 2, 3, 5])
            keys = []
            for _ in range(k):
                keys.append(name(rng, keys))
            cols = []
            for j in range(k):
                cells = []
                for i in range(r):
                    x = rng.random()
                    if x < 0.06:
                        cells.append(["i"])
                    elif x < 0.12:
                        cells.append(["m"])
                    elif x < 0.2 and multi_ok:
                        cells.append(["p", good_multiline(rng)])
                    else:
                        v = simple_value(rng)
                        cells.append(cell_of(v))
                cols.append([keys[j], cells])
            if awkward is not None and not target_done:
                i, j = pos if pos is not None else (rng.randrange(r), rng.randrange(k))
                cols[j % k][1][i % r] = cell_of(awkward)
                target_done = True
            cats.append([cn, cols])
        blocks.append([bn, cats])
    return blocks


def table_case(table, kind="table", **extra):
    try:
        spec = enc_blocks(table_to_blocks(table))
    except UnicodeEncodeError:
        # characters beyond latin-1 do not travel on the line protocol: oracle only
        return dict({"kind": kind, "table": table}, **extra)
    return dict({"kind": kind, "ops": [f"serfile {spec}", f"rt {spec}"], "table": table}, **extra)


# ---------------------------------------------------------------- reader texts
def foreign_text(rng, header=True, max_cats=3):
    """CIF text as other writers produce it (rows split over lines, comments, blank lines, quoting styles)
    plus random damage: exercises the reader functions outside the image of the writer."""
    lines = []
    if header and rng.random() < 0.7:
        lines.append("data_" + name(rng))
        lines.append("#")
    for _ in range(rng.randint(1, max_cats)):
        cn = name(rng)
        k = rng.randint(1, 3)
        keys = []
        for _ in range(k):
            keys.append(name(rng, keys))

        def tok():
            v = rng.choice(PLAIN + [".", "?", "a b", "it's", 'q"r', "", "_u", "#h", ";s", "data_x", "loop_", "x\ty"])
            r = rng.random()
            if " " in v or "\t" in v or v == "" or r < 0.3:
                q = '"' if "'" in v else "'"
                return q + v + q
            return v
        if rng.random() < 0.5:
            lines.append(rng.choice(["loop_", "loop_", "loop_ ", " loop_"]))
            lkeys = list(keys)
            if rng.random() < 0.08:
                lkeys.insert(rng.randrange(len(lkeys) + 1), rng.choice(keys))    # a repeated column name
            for key in lkeys:
                lines.append("_" + cn + "." + key + rng.choice(["", " ", "  "]))
            toks = [tok() for _ in range(len(lkeys) * rng.randint(0, 3) + (1 if rng.random() < 0.1 else 0))]
            while toks:
                n = rng.randint(1, max(1, k + 1))
                row, toks = toks[:n], toks[n:]
                if rng.random() < 0.15:
                    lines.append(";" + rng.choice(["multi", "", " x"]))
                    lines.append(rng.choice(["line two", "y", "#no comment", ""]))
                    lines.append(";")
                lines.append(rng.choice(["", "", " ", "\t"]) + rng.choice([" ", "  ", "   "]).join(row))
        else:
            for key in keys:
                r = rng.random()
                if r < 0.75:
                    lines.append("_" + cn + "." + key + rng.choice([" ", "   ", "\t"]) + tok())
                elif r < 0.9:
                    lines.append("_" + cn + "." + key)
                    lines.append(";" + rng.choice(["first", "", "a b"]))
                    if rng.random() < 0.6:
                        lines.append(rng.choice(["second", " indented", "x y"]))
                    lines.append(";")
                else:
                    lines.append("_" + cn + "." + key + " " + tok() + " " + tok())
        lines.append(rng.choice(["#", "#", "", "# comment", "  "]))
    # damage
    for _ in range(rng.choice([0, 0, 0, 1, 2])):
        if not lines:
            break
        i = rng.randrange(len(lines))
        r = rng.random()
        if r < 0.3:
            del lines[i]
        elif r < 0.5:
            lines.insert(i, rng.choice(["loop_", ";", "data_zz", "_q.r 1", "#", "", "stray", "'unterminated", "_nodot", "_"]))
        elif r < 0.7:
            lines[i] = lines[i][: rng.randrange(len(lines[i]) + 1)]
        elif r < 0.85:
            lines[i] = rng.choice([" ", "'", '"', ";", "_", "#"]) + lines[i]
        else:
            lines.insert(i, rng.choice([" ", "  ", "\t"]) + rng.choice(["#c", "# x y", ";x", "_a.b 1", "data_x", "loop_", "'q' r"]))
    return "\n".join(lines) + ("\n" if rng.random() < 0.9 else "")


def split_line(rng):
    toks = []
    for _ in range(rng.randint(1, 5)):
        v = rng.choice(PLAIN + ["a b", "it's", 'q"r', "", "_u", "#h", ";s", "x\ty", "'", '"', "a' b", 'c" d', "' ", ' "'])
        r = rng.random()
        if r < 0.45:
            toks.append(v if v else "''")
        elif r < 0.7:
            toks.append("'" + v + "'")
        elif r < 0.9:
            toks.append('"' + v + '"')
        else:
            toks.append(v + rng.choice(["'", '"', "'x", ""]))
    line = ""
    for t in toks:
        line += t + " " * rng.choice([1, 1, 2, 4])
    if rng.random() < 0.8:
        line = line.strip()
    if rng.random() < 0.1:
        line = ";" + line
    if rng.random() < 0.1:
        line = rng.choice([" ", "\t"]) + line
    return line


# ---------------------------------------------------------------- container histories
KINDS = ["tfile", "tblock", "tcat", "bfile", "bblock", "bcat"]
# names with inner / trailing / double / leading underscores: BinaryCIFBlock adds and removes a "_" key prefix
CKEYS = ["a", "b", "c", "d", "e1", "f_2", "t_", "u__", "m__n", "_p", "__q_"]


def entries(rng, kind, n=None):
    n = rng.randint(0, 4) if n is None else n
    keys = rng.sample(CKEYS, n)
    out = []
    for k in keys:
        r = rng.random()
        if kind == "tcat" or r < 0.5:
            out.append(f"{k}=P{rng.randint(0, 9)}")
        elif r < 0.85:
            # Q: the same element serialised in another text layout (text files/blocks only)
            lay = "Q" if kind in ("tfile", "tblock") and rng.random() < 0.4 else "R"
            out.append(f"{k}={lay}{rng.randint(0, 9)}")
        else:
            out.append(f"{k}=B")
    return "_" if not out else ",".join(out)


def history(rng, kind=None):
    kind = kind or rng.choice(KINDS)
    ops = [f"cnew {kind} {entries(rng, kind)}"]
    for _ in range(rng.randint(3, 10)):
        k = rng.choice(CKEYS)
        r = rng.random()
        if r < 0.22:
            ops.append(f"cget {k}")
        elif r < 0.4:
            ops.append(f"cset {k} {rng.randint(0, 9)}")
        elif r < 0.5 and kind != "tcat":
            ops.append(f"csetraw {k} " + (f"R{rng.randint(0, 9)}" if rng.random() < 0.7 else "B"))
        elif r < 0.64:
            ops.append(f"cdel {k}")
        elif r < 0.72:
            ops.append(f"chas {k}")
        elif r < 0.8:
            ops.append("citer")
        elif r < 0.85:
            ops.append("clen")
        elif r < 0.93:
            ops.append("creparse")
        else:
            ops.append(f"ceq {entries(rng, kind)}")
    ops.append("citer")
    ops.append(f"ceq {entries(rng, kind)}")
    return {"kind": "container/" + kind, "ops": ops}


def _foreign_tok(rng, v, quote_all):
    special = (v == "" or any(c in v for c in "'\"") or any(c.isspace() for c in v) or v[0] in "_#;$[]"
               or v.lower().startswith(("data_", "loop_", "save_", "global_", "stop_")))
    if not special and not quote_all and rng.random() < 0.8:
        return v
    q = '"' if "'" in v else "'" if '"' in v else rng.choice("'\"")
    return q + v + q


def render_foreign(table, rng):
    """The table as some other CIF writer would lay it out: own padding, quoting style, column and category
    order, comment/blank lines (only single-line values without both quote characters)."""
    out = []
    for bn, cats in table:
        out.append("data_" + bn)
        out.append(rng.choice(["#", "# " + bn, ""]))
        cats = list(cats)
        rng.shuffle(cats)
        for cn, cols in cats:
            cols = list(cols)
            rng.shuffle(cols)
            quote_all = rng.random() < 0.2
            vals = [[render_cell(c) for c in cells] for _, cells in cols]
            nrows = len(vals[0])
            if nrows == 1 and rng.random() < 0.8:
                width = max(len(k) for k, _ in cols) + rng.randint(1, 4)
                for (k, _), v in zip(cols, vals):
                    out.append(("_" + cn + "." + k).ljust(width + len(cn) + 2) + " " + _foreign_tok(rng, v[0], quote_all))
            else:
                out.append("loop_")
                for k, _ in cols:
                    out.append("_" + cn + "." + k + rng.choice(["", " "]))
                for i in range(nrows):
                    toks = [_foreign_tok(rng, v[i], quote_all) for v in vals]
                    if rng.random() < 0.2 and len(toks) > 1:
                        out.extend(toks)                      # one value per line
                    else:
                        out.append((" " * rng.randint(1, 3)).join(toks))
            out.append(rng.choice(["#", "#", "", "# --"]))
    return "\n".join(out) + "\n"


def eqfiles_case(rng):
    """Two texts of the same tables (or of tables differing in one cell), parsed and compared before any access."""
    table = make_table(rng, multi_ok=False)
    for _, cats in table:
        for _, cols in cats:
            for _, cells in cols:
                for c in cells:
                    if c[0] == "p" and "'" in c[1] and '"' in c[1]:
                        c[1] = c[1].replace('"', "")
                        if c[1] in (".", "?"):
                            c[1] = "x"
    import copy
    other = copy.deepcopy(table)
    equal = rng.random() < 0.75
    if not equal:
        b = rng.choice(other)
        c = rng.choice(b[1])
        col = rng.choice(c[1])
        i = rng.randrange(len(col[1]))
        old = render_cell(col[1][i])
        col[1][i] = ["p", old + "x" if old not in (".", "?") else "y"]
    ta, tb = render_foreign(table, rng), render_foreign(other, rng)
    return {"kind": "eqfiles", "ops": [f"eqfiles {enc(ta)} {enc(tb)}", f"eqfiles {enc(tb)} {enc(ta)}"],
            "texts": [ta, tb], "expect_equal": equal}


def column_case(rng):
    """A column built in memory with an explicit mask over real values, read in every flavour, serialised,
    and its data shared with an unmasked column."""
    flav = rng.choice(["t", "t", "b"])
    n = rng.choice([1, 2, 2, 3, 4])
    vals = []
    for _ in range(n):
        v = rng.choice(PLAIN + ["a b", "it's", "x#y", "_u", "#h", "data_1", "v w x"])
        vals.append(v)
    mask = [rng.choice([0, 0, 1, 2]) for _ in range(n)]
    if rng.random() < 0.15:
        mask = [0] * n                       # an explicit all-PRESENT mask (the mask was "lifted")
    ops = [f"colnew {flav} {enc_list(vals)} {''.join(map(str, mask))}"]
    reads = ["colarr default", "colarr str", "colarr " + enc(rng.choice(["-", "0", "N"])), "coldata", "colplain", "colser"]
    for _ in range(rng.randint(2, 6)):
        ops.append(rng.choice(reads))
    ops += ["coldata", "colplain", "colser", "colarr default"]
    return {"kind": "column/" + flav, "ops": ops, "values": vals, "mask": mask}


EQ_LEVELS = ["data", "column", "category", "block", "file"]


def eqrows_case(rng):
    """Two one-column tables that differ (at most) in their row count, compared with == at every level of the
    hierarchy, built in memory or read back (lazily parsed, nothing accessed before the comparison)."""
    flav = rng.choice(["t", "b"])
    x = rng.choice(PLAIN)
    if rng.random() < 0.35:
        # identical (or nearly identical) data, masks that are absent / explicit / different: the masks count
        n = rng.randint(1, 4)
        a = [rng.choice(PLAIN) for _ in range(n)]
        b = list(a)
        if rng.random() < 0.15:
            b[rng.randrange(n)] += "x"

        def some_mask():
            m = [rng.choice([0, 0, 1, 2]) for _ in range(n)]
            if not any(m):
                m[rng.randrange(n)] = rng.choice([1, 2])
            return "".join(map(str, m))
        ma = rng.choice(["-", some_mask()])
        mb = rng.choice(["-", ma, some_mask()])
        if rng.random() < 0.5:
            ma, mb = mb, ma
        ops = [f"eqrows {flav} {level} f f {enc_list(a)} {enc_list(b)} {ma} {mb}" for level in EQ_LEVELS[1:]]
        return {"kind": "eqrows/" + flav, "ops": ops}
    r = rng.random()
    if r < 0.3:
        a, b = [x], [x] * rng.randint(2, 4)                  # one row vs n copies of that row
    elif r < 0.5:
        n = rng.randint(2, 4)
        a = [rng.choice(PLAIN) for _ in range(n)]
        b = a + [rng.choice(PLAIN + [a[-1]]) for _ in range(rng.randint(1, 2))]   # common prefix, n vs m rows
    elif r < 0.65:
        a = [x] * rng.randint(2, 4)
        b = [x] * rng.randint(2, 4)                          # columns of equal strings of (possibly) different length
    elif r < 0.85:
        a = [rng.choice(PLAIN) for _ in range(rng.randint(1, 4))]
        b = list(a)                                          # equal tables
        if rng.random() < 0.4:
            b[rng.randrange(len(b))] += "x"
    else:
        a, b = [], [x]                                       # 0 rows vs 1 (binary data/column only)
    if rng.random() < 0.5:
        a, b = b, a
    ops = []
    for level in EQ_LEVELS:
        # "w": built in memory from a NumPy string array whose item size is wider than the longest value
        # (an annotation array such as 'U5', a slice of a longer table); text flavour
        pairs = [("f", "f"), ("p", "p"), ("f", "p")] + ([("w", "p"), ("p", "w"), ("w", "f")] if flav == "t" and a and b else [])
        for sa, sb in pairs:
            if not a or not b:
                if flav != "b" or level not in ("data", "column") or (sa, sb) != ("f", "f"):
                    continue
            ops.append(f"eqrows {flav} {level} {sa} {sb} {enc_list(a)} {enc_list(b)}")
    if not ops:
        ops.append(f"eqrows b data f f {enc_list(a)} {enc_list(b)}")
    return {"kind": "eqrows/" + flav, "ops": ops}


def rowcount_history(rng):
    """Columns of a category replaced by longer/shorter ones between serialisations (cached _row_count)."""
    flav = rng.choice(["t", "b"])
    keys = rng.sample(CKEYS, rng.randint(1, 3))
    n = rng.randint(1, 3)
    ops = [f"rcnew {flav} " + ",".join(f"{k}={n if rng.random() < 0.85 else rng.randint(1, 3)}" for k in keys)]
    for _ in range(rng.randint(3, 9)):
        r = rng.random()
        if r < 0.3:
            ops.append("rcser")
        elif r < 0.4:
            ops.append("rccount")
        elif r < 0.85:
            ops.append(f"rcset {rng.choice(CKEYS[:4])} {rng.randint(1, 4)}")
        else:
            ops.append(f"rcdel {rng.choice(CKEYS[:4])}")
    ops.append("rcser")
    return {"kind": "rowcount/" + flav, "ops": ops}


# ---------------------------------------------------------------- cases
def corpus():
    out = []
    # every special head / reserved word at every position of a 2x2 and a 1x2 table (the old defect rows 13)
    for v in ["#x", ";x", "data_x", "loop_", "loop_x", "data_", "_a' b", "_a'b", "_x", "save_x", "global_", "stop_", "$x", "[x]",
              "'", '"', "''", " ", "\t", ".", "?", "", "a'\"b", "x\ny", "\nx", "it's", "#", ";"]:
        for pos, (r, k) in [((0, 0), (2, 2)), ((1, 0), (2, 2)), ((0, 1), (2, 2)), ((0, 0), (1, 2)), ((0, 1), (1, 2))]:
            cols = [["k%d" % j, [["p", "v%d%d" % (i, j)] for i in range(r)]] for j in range(k)]
            cols[pos[1]][1][pos[0]] = cell_of(v)
            out.append(table_case([["blk", [["cat", cols]]]], kind="table/corpus"))
    out.append({"kind": "container/bblock", "ops": ["cnew bblock a=P1,b=R2", "cdel a", "citer", "cdel a", "cdel zz", "clen"]})
    # block names that end in white space, alone and next to their stripped twin (two different keys)
    for names in (["x "], ["tab\t"], ["x", "x "], ["x ", "x"], ["x  ", "x ", "x"], [" lead", "lead"], ["in ner"], ["nb\xa0", "nb"]):
        t = [[bn, [["cat", [["k", [["p", "of " + repr(bn)], ["p", "v"]]]]]]] for bn in names]
        out.append(table_case(t, kind="table/block-name-blank"))
    out.append({"kind": "eqrows/t", "ops": [f"eqrows t {lv} {sa} {sb} {enc_list(['HOH', 'NA', 'ALA'])} {enc_list(['HOH', 'NA', 'ALA'])}"
                                            for lv in EQ_LEVELS for sa, sb in (("w", "p"), ("p", "w"), ("w", "f"), ("w", "w"))]})
    for flav in "tb":
        out.append({"kind": "rowcount/" + flav, "ops": [f"rcnew {flav} a=2", "rcser", "rcset a 3", "rcser", "rccount"]})
        out.append({"kind": "rowcount/" + flav, "ops": [f"rcnew {flav} a=2,b=2", "rccount", "rcset a 3", "rcset b 3", "rccount", "rcser"]})
    return out


def cases(rng, tier):
    quick = tier == "quick"
    # 1. awkward value at every (row, column) position
    n_aw = 60 if quick else 1500
    for _ in range(n_aw):
        v = simple_value(rng) if rng.random() < 0.8 else good_multiline(rng)
        r, k = rng.choice([(1, 1), (1, 2), (1, 3), (2, 1), (2, 2), (2, 3), (3, 2), (3, 4), (5, 3)])
        for i in range(r):
            for j in range(k):
                if quick and rng.random() < 0.5 and (i, j) != (0, 0):
                    continue
                yield table_case(make_table(rng, awkward=v, pos=(i, j), n_rows=r, n_cols=k), kind="table/awkward")
    # 2. random tables
    for _ in range(250 if quick else 6000):
        yield table_case(make_table(rng), kind="table/random")
    # 3. values outside the hypotheses (known defect classes): oracle-only plus correspondence
    for cls, vals in DEFECT_VALUES.items():
        for v in vals:
            for (r, k) in ([(2, 2)] if quick else [(1, 1), (1, 2), (2, 2), (3, 3)]):
                pos = (rng.randrange(r), rng.randrange(k))
                yield table_case(make_table(rng, awkward=v, pos=pos, n_rows=r, n_cols=k, multi_ok=False), kind="table/outside")
    # 4. tokeniser + escape
    for _ in range(200 if quick else 5000):
        yield {"kind": "token", "ops": [f"split {enc(split_line(rng))}", f"esc {enc(simple_value(rng))}",
                                        f"esc {enc(good_multiline(rng))}"]}
    # 5. readers on foreign / damaged text
    for _ in range(400 if quick else 8000):
        t = foreign_text(rng)
        tc = foreign_text(rng, header=False, max_cats=1)
        ops = [f"parsefile {enc(t)}", f"parseblock {enc(t)}", f"parsecat {enc(tc)}", f"parseblock {enc(tc)}"]
        # file[b][c] through the two lazy steps, for names that occur in the text and names that do not
        bnames = [ln[5:] for ln in t.split("\n") if ln.startswith("data_")] + ["zz"]
        cnames = [ln[1:ln.find(".")] for ln in t.split("\n") if ln.startswith("_") and "." in ln] + ["nope"]
        for _ in range(2):
            b, c = rng.choice(bnames), rng.choice(cnames)
            ops.append(f"lazyget {enc(t)} {enc(b)} {enc(c)}")
        yield {"kind": "reader", "ops": ops}
    # 5b. category writer alone (error branches: ragged columns)
    for _ in range(40 if quick else 800):
        k = rng.randint(0, 3)
        keys = []
        for _ in range(k):
            keys.append(name(rng, keys))       # a dict has no duplicate keys
        cols = [(key, [simple_value(rng) for _ in range(rng.choice([1, 2, 2, 3]))]) for key in keys]
        yield {"kind": "sercat", "ops": [f"sercat {enc(name(rng))} {enc_cols(cols)}"]}
    # 6. container histories
    for _ in range(240 if quick else 6000):
        yield history(rng)
    # 6b. equality of two parsed files with different layouts of the same tables, before any access
    for _ in range(120 if quick else 3000):
        yield eqfiles_case(rng)
    # 6b2. == of tables that differ only in their row count, at every level, fresh and parsed
    for _ in range(60 if quick else 1500):
        yield eqrows_case(rng)
    # 6c. explicitly masked columns: reads must not change them
    for _ in range(120 if quick else 3000):
        yield column_case(rng)
    # 6d. one object written, edited in place, written again (and parsed, edited, written): state across calls
    from props import c06_api
    import sys as _sys
    me = _sys.modules[__name__]
    for _ in range(70 if quick else 1500):
        yield c06_api.reuse_case(rng, me)
    # 6e. less-used entry points / spellings / defaults (oracle level)
    for sub in c06_api.SUBS:
        for _ in range(10 if quick else 150):
            yield c06_api.api_case(rng, me, sub)
    # 7. cached row count across edits
    for _ in range(80 if quick else 2000):
        yield rowcount_history(rng)


# ---------------------------------------------------------------- implementation adapter
def _mask_str(col):
    return "-" if col.mask is None else "".join(str(int(m)) for m in col.mask.array)


def _show_cols(cat):
    items = [(k, cat[k]) for k in cat]
    if not items:
        return "_"
    return ";".join(enc(k) + "=" + enc_list([str(x) for x in c.as_array()]) + "~" + _mask_str(c) for k, c in items)


def _show_cat(cat):
    return enc(cat.name) + ":" + _show_cols(cat)


def _optname(n):
    return "~" if n is None else enc(n)


def _build_file(blocks):
    import biotite.structure.io.pdbx as pdbx
    f = pdbx.CIFFile()
    for bn, cats in blocks:
        b = pdbx.CIFBlock()
        for cn, cols in cats:
            b[cn] = pdbx.CIFCategory({k: pdbx.CIFColumn(vs) for k, vs in cols})
        f[bn] = b
    return f


# --- containers: element number n at each level
def _elem(kind, n):
    import biotite.structure.io.pdbx as pdbx
    if kind == "tfile":
        return pdbx.CIFBlock({"c": pdbx.CIFCategory({"v": [str(n)]})})
    if kind == "tblock":
        return pdbx.CIFCategory({"v": [str(n)]})
    if kind == "tcat":
        return pdbx.CIFColumn([str(n)])
    if kind == "bfile":
        return pdbx.BinaryCIFBlock({"c": pdbx.BinaryCIFCategory({"v": [n]})})
    if kind == "bblock":
        return pdbx.BinaryCIFCategory({"v": [n]})
    if kind == "bcat":
        return pdbx.BinaryCIFColumn([n])
    raise ValueError(kind)


def _ident(kind, e):
    if kind in ("tfile", "bfile"):
        return int(e["c"]["v"].as_item())
    if kind in ("tblock", "bblock"):
        return int(e["v"].as_item())
    return int(e.as_item())


def _raw(kind, key, n, alt=False):
    """Serialised form of element n (n None: something that cannot be deserialised); alt: another layout."""
    if kind == "tfile":
        if n is None:
            return f"data_{key}\n#\nloop_\n"
        return f"data_{key}\n#\n_c.v '{n}'\n# other writer\n" if alt else f"data_{key}\n#\n_c.v   {n}\n#\n"
    if kind == "tblock":
        if n is None:
            return f"_{key}.v 1 2 3\n#\n"
        return f"_{key}.v \"{n}\"\n\n#\n" if alt else f"_{key}.v   {n}\n#\n"
    if n is None:
        return {"bad": 1}
    return _elem(kind, n).serialize()


def _container(kind, ents):
    import biotite.structure.io.pdbx as pdbx
    d = {}
    for k, e in ents:
        if e[0] == "P":
            d[k] = _elem(kind, int(e[1:]))
        else:
            d[k] = _raw(kind, k, int(e[1:]) if e[0] in "RQ" else None, alt=e[0] == "Q")
    cls = {"tfile": pdbx.CIFFile, "tblock": pdbx.CIFBlock, "tcat": pdbx.CIFCategory,
           "bfile": pdbx.BinaryCIFFile, "bblock": pdbx.BinaryCIFBlock, "bcat": pdbx.BinaryCIFCategory}[kind]
    return cls(d)


def _parse_entries(s):
    return [] if s == "_" else [tuple(x.split("=")) for x in s.split(",")]


def _reparse(kind, cont):
    """Serialise the container inside a whole file and read it back (everything becomes lazy again)."""
    import msgpack
    import biotite.structure.io.pdbx as pdbx
    if kind[0] == "t":
        f = cont if kind == "tfile" else pdbx.CIFFile(
            {"b": cont if kind == "tblock" else pdbx.CIFBlock({"c": cont})})
        g = pdbx.CIFFile.deserialize(f.serialize())
        return g if kind == "tfile" else g["b"] if kind == "tblock" else g["b"]["c"]
    f = cont if kind == "bfile" else pdbx.BinaryCIFFile(
        {"b": cont if kind == "bblock" else pdbx.BinaryCIFBlock({"c": cont})})
    packed = msgpack.packb(f.serialize(), use_bin_type=True, default=pdbx.bcif._encode_numpy)
    g = pdbx.BinaryCIFFile.deserialize(msgpack.unpackb(packed, use_list=True, raw=False))
    return g if kind == "bfile" else g["b"] if kind == "bblock" else g["b"]["c"]


def _err(e):
    return "ERR:" + type(e).__name__


def _lazy_dict(container):
    """the dict in which a text container keeps its (still unparsed) elements — found by type, not by its private name"""
    ds = [v for v in vars(container).values() if isinstance(v, dict)]
    if len(ds) != 1:
        raise RuntimeError(f"{type(container).__name__}: expected one dict attribute, found {len(ds)}")
    return ds[0]


_PRIVATE = {}


def _private(role):
    """actual name of a module-private helper of cif.py, as the extractor found it by structure"""
    if not _PRIVATE:
        from common import paths
        from props import c06_gen
        _PRIVATE.update(c06_gen.private_names(paths.SRC))
    return _PRIVATE[role]


def _mk_col(flav, vals, mask):
    """(masked column, its data object) built in memory."""
    import numpy as np
    import biotite.structure.io.pdbx as pdbx
    if flav == "t":
        data = pdbx.CIFData(list(vals))
        return pdbx.CIFColumn(data, np.array(mask, dtype=np.uint8)), data
    data = pdbx.BinaryCIFData(np.array(list(vals)))
    return pdbx.BinaryCIFColumn(data, pdbx.BinaryCIFData(np.array(mask, dtype=np.uint8))), data


def _col_arr(flav, col, how):
    if how == "default":
        a = col.as_array()
    elif how == "str":
        a = col.as_array(str)
    else:
        a = col.as_array(str, masked_value=how) if flav == "t" else col.as_array(str, how)
    return [str(x) for x in a]


def _col_roundtrip(flav, col, data):
    """Category {m: the masked column, p: an unmasked column on the same data} written and read back:
    [(key, values, mask string)]"""
    import msgpack
    import biotite.structure.io.pdbx as pdbx
    if flav == "t":
        cat = pdbx.CIFCategory({"m": col, "p": pdbx.CIFColumn(data)}, name="c")
        back = pdbx.CIFCategory.deserialize(cat.serialize())
        return [(k, [str(x) for x in back[k].as_array()], _mask_str(back[k])) for k in back]
    cat = pdbx.BinaryCIFCategory({"m": col, "p": pdbx.BinaryCIFColumn(data)})
    f = pdbx.BinaryCIFFile({"b": pdbx.BinaryCIFBlock({"c": cat})})
    packed = msgpack.packb(f.serialize(), use_bin_type=True, default=pdbx.bcif._encode_numpy)
    back = pdbx.BinaryCIFFile.deserialize(msgpack.unpackb(packed, use_list=True, raw=False))["b"]["c"]
    return [(k, [str(x) for x in back[k].as_array(str)], _mask_str(back[k])) for k in back]


def _eqrows_obj(flav, level, state, vals, mask="-"):
    import msgpack
    import numpy as np
    import biotite.structure.io.pdbx as pdbx
    if mask != "-":
        m = np.array([int(c) for c in mask], dtype=np.uint8)
        col = (pdbx.CIFColumn(pdbx.CIFData(list(vals)), m) if flav == "t"
               else pdbx.BinaryCIFColumn(np.array(list(vals)), m))
        if flav == "t":
            f = pdbx.CIFFile({"b": pdbx.CIFBlock({"c": pdbx.CIFCategory({"v": col})})})
        else:
            f = pdbx.BinaryCIFFile({"b": pdbx.BinaryCIFBlock({"c": pdbx.BinaryCIFCategory({"v": col})})})
        return {"file": f, "block": f["b"], "category": f["b"]["c"], "column": f["b"]["c"]["v"]}[level]
    if flav == "t":
        data = list(vals)
        if state == "w":
            data = np.array(list(vals), dtype="U" + str(max(len(v) for v in vals) + 5))
        f = pdbx.CIFFile({"b": pdbx.CIFBlock({"c": pdbx.CIFCategory({"v": pdbx.CIFColumn(data)})})})
        if state == "p":
            f = pdbx.CIFFile.deserialize(f.serialize())
    else:
        if not vals:
            data = pdbx.BinaryCIFData(np.array([], dtype="U1"))
            return data if level == "data" else pdbx.BinaryCIFColumn(data)
        f = pdbx.BinaryCIFFile({"b": pdbx.BinaryCIFBlock({"c": pdbx.BinaryCIFCategory({"v": np.array(list(vals))})})})
        if state == "p":
            packed = msgpack.packb(f.serialize(), use_bin_type=True, default=pdbx.bcif._encode_numpy)
            f = pdbx.BinaryCIFFile.deserialize(msgpack.unpackb(packed, use_list=True, raw=False))
    if level == "file":
        return f
    if level == "block":
        return f["b"]
    if level == "category":
        return f["b"]["c"]
    if level == "column":
        return f["b"]["c"]["v"]
    return f["b"]["c"]["v"].data


def _eqrows_eval(w):
    ma, mb = (w[7], w[8]) if len(w) > 7 else ("-", "-")
    a = _eqrows_obj(w[1], w[2], w[3], dec_list(w[5]), ma)
    b = _eqrows_obj(w[1], w[2], w[4], dec_list(w[6]), mb)
    r = a == b
    if not isinstance(r, (bool,)) and type(r).__name__ != "bool_":
        return "NOT-A-BOOL:" + type(r).__name__
    return bool(r)


def _rc_col(flav, n):
    import biotite.structure.io.pdbx as pdbx
    return pdbx.CIFColumn([str(i) for i in range(n)]) if flav == "t" else pdbx.BinaryCIFColumn(list(range(n)))


def _rc_rows(flav, ser):
    """Number of rows in a serialised category (text: parse it back; binary: the rowCount field)."""
    import biotite.structure.io.pdbx as pdbx
    if flav == "b":
        return int(ser["rowCount"])
    cat = pdbx.CIFCategory.deserialize(ser)
    return len(next(iter(cat.values())))


BINARY_KINDS = ("container/b", "rowcount/b", "column/b", "eqrows/b", "reuse/b")


def _uses_extension(case):
    k = case.get("kind", "")
    return k.startswith(BINARY_KINDS) or (k.startswith("api/") and case.get("flav") == "b")


def run_impl(case):
    """Cases that reach the compiled BinaryCIF encodings run in a forked child: a dead process is a verdict."""
    if _uses_extension(case) and case.get("ops"):
        from common import sandbox
        r = sandbox.run_forked(_run_impl, case, timeout=120)
        if r[0] == "ok":
            return r[1]
        return [("CRASH" if r[0] == "crash" else "TIMEOUT" if r[0] == "timeout" else "UNCAUGHT:" + r[1])] * len(case["ops"])
    return _run_impl(case)


def _run_impl(case):
    import biotite.structure.io.pdbx as pdbx
    from biotite.structure.io.pdbx import cif as C

    out = []
    kind, cont = None, None
    rc, rcflav = None, None
    col, coldata, colflav = None, None, None
    for op in case["ops"]:
        w = op.split()
        try:
            if w[0] == "esc":
                out.append("ok " + enc(getattr(C, _private("_escape"))(dec(w[1]))))
            elif w[0] == "split":
                out.append("ok " + enc_list(list(getattr(C, _private("_split_one_line"))(dec(w[1])))))
            elif w[0] == "sercat":
                cols = dec_cols(w[2])
                cat = pdbx.CIFCategory({k: pdbx.CIFColumn(vs) for k, vs in cols}, name=dec(w[1]))
                out.append("ok " + enc(cat.serialize()))
            elif w[0] == "parsecat":
                try:
                    cat = pdbx.CIFCategory.deserialize(dec(w[1]))
                    out.append("ok " + _show_cat(cat))
                except Exception:
                    out.append("ERR")
            elif w[0] == "parseblock":
                try:
                    b = pdbx.CIFBlock.deserialize(dec(w[1]))
                    items = list(_lazy_dict(b).items())
                    out.append("ok " + ("_" if not items else "/".join(_optname(k) + ":" + enc(v) for k, v in items)))
                except Exception:
                    out.append("ERR")
            elif w[0] == "parsefile":
                f = pdbx.CIFFile.deserialize(dec(w[1]))
                items = list(_lazy_dict(f).items())
                out.append("ok " + ("_" if not items else "|".join(enc(k) + "@" + enc(v) for k, v in items)))
            elif w[0] == "serfile":
                out.append("ok " + enc(_build_file(dec_blocks(w[1])).serialize()))
            elif w[0] == "rt":
                text = _build_file(dec_blocks(w[1])).serialize()
                f = pdbx.CIFFile.deserialize(text)
                bs = []
                for bn in f:
                    try:
                        b = f[bn]
                    except Exception:
                        bs.append(enc(bn) + "@!")
                        continue
                    cs = []
                    for cn in b:
                        try:
                            cs.append(_optname(cn) + ":" + _show_cat(b[cn]))
                        except Exception:
                            cs.append(_optname(cn) + ":!")
                    bs.append(enc(bn) + "@" + ("_" if not cs else "/".join(cs)))
                out.append("ok " + ("_" if not bs else "|".join(bs)))
            elif w[0] == "eqrows":
                out.append("ok " + str(_eqrows_eval(w)))
            elif w[0] == "reuse":
                from props import c06_api
                import sys as _sys
                out.append(c06_api.reuse_impl(_sys.modules[__name__], w[1], w[2]))
            elif w[0] == "lazyget":
                f = pdbx.CIFFile.deserialize(dec(w[1]))
                cat = f[dec(w[2])][None if w[3] == "~" else dec(w[3])]
                out.append("ok " + _show_cat(cat))
            elif w[0] == "colnew":
                colflav = w[1]
                col, coldata = _mk_col(colflav, dec_list(w[2]), [int(c) for c in w[3]])
                out.append("ok")
            elif w[0] == "colarr":
                how = w[1] if w[1] in ("default", "str") else dec(w[1])
                out.append("ok " + enc_list(_col_arr(colflav, col, how)))
            elif w[0] == "coldata":
                out.append("ok " + enc_list([str(x) for x in col.data.array]))
            elif w[0] == "colplain":
                import biotite.structure.io.pdbx as _p
                plain = _p.CIFColumn(coldata) if colflav == "t" else _p.BinaryCIFColumn(coldata)
                out.append("ok " + enc_list([str(x) for x in (plain.as_array() if colflav == "t" else plain.as_array(str))]))
            elif w[0] == "colser":
                out.append("ok " + ";".join(enc(k) + "=" + enc_list(v) + "~" + m for k, v, m in _col_roundtrip(colflav, col, coldata)))
            elif w[0] == "eqfiles":
                try:
                    fa, fb = pdbx.CIFFile.deserialize(dec(w[1])), pdbx.CIFFile.deserialize(dec(w[2]))
                    out.append("ok " + str(bool(fa == fb)))
                except Exception:
                    out.append("ERR")
            elif w[0] == "rcnew":
                cols = {k: _rc_col(w[1], int(n)) for k, n in _parse_entries(w[2])}
                rc = pdbx.CIFCategory(cols, name="c") if w[1] == "t" else pdbx.BinaryCIFCategory(cols)
                rcflav = w[1]
                out.append("ok")
            elif w[0] == "rcset":
                rc[w[1]] = _rc_col(rcflav, int(w[2]))
                out.append("ok")
            elif w[0] == "rcdel":
                del rc[w[1]]
                out.append("ok")
            elif w[0] == "rcser":
                ser = rc.serialize()
                out.append(f"ok {_rc_rows(rcflav, ser)}")
            elif w[0] == "rccount":
                out.append(f"ok {rc.row_count}")
            elif w[0] == "cnew":
                kind = w[1]
                cont = _container(kind, _parse_entries(w[2]))
                out.append("ok")
            elif w[0] == "cget":
                out.append(f"ok {_ident(kind, cont[w[1]])}")
            elif w[0] == "cset":
                cont[w[1]] = _elem(kind, int(w[2]))
                out.append("ok")
            elif w[0] == "csetraw":
                if kind == "tcat":
                    out.append("unmodelled")
                else:
                    cont[w[1]] = _raw(kind, w[1], int(w[2][1:]) if w[2][0] == "R" else None)
                    out.append("ok")
            elif w[0] == "cdel":
                del cont[w[1]]
                out.append("ok")
            elif w[0] == "chas":
                out.append("ok " + str(w[1] in cont))
            elif w[0] == "citer":
                ks = list(cont)
                out.append("ok " + ("_" if not ks else ",".join(ks)))
            elif w[0] == "clen":
                out.append(f"ok {len(cont)}")
            elif w[0] == "ceq":
                other = _container(kind, _parse_entries(w[1]))
                out.append("ok " + str(bool(cont == other)))
            elif w[0] == "creparse":
                cont = _reparse(kind, cont)
                out.append("ok")
            else:
                out.append("bad-op")
        except Exception as e:  # noqa: BLE001
            out.append(_err(e))
    return out


# ---------------------------------------------------------------- property oracle (independent of the model)
def _expected_mask(cells):
    m = [0 if c[0] == "p" else 1 if c[0] == "i" else 2 for c in cells]
    return None if all(x == 0 for x in m) else m


def _table_oracle(table):
    """serialise -> parse on the real code returns the same rows, order and masks."""
    import numpy as np
    import biotite.structure.io.pdbx as pdbx

    values = [c[1] for _, cats in table for _, cols in cats for _, cells in cols for c in cells if c[0] == "p"]
    if not all(in_alphabet(v) for v in values):
        return []
    f = pdbx.CIFFile()
    for bn, cats in table:
        b = pdbx.CIFBlock()
        for cn, cols in cats:
            cd = {}
            for k, cells in cols:
                m = _expected_mask(cells)
                # data under a masked cell is arbitrary: it must not leak into the file
                data = [c[1] if c[0] == "p" else "JUNK junk" for c in cells]
                cd[k] = pdbx.CIFColumn(data) if m is None else pdbx.CIFColumn(data, np.array(m, dtype=np.uint8))
            b[cn] = pdbx.CIFCategory(cd)
        f[bn] = b
    bad = None
    try:
        text = f.serialize()
        g = pdbx.CIFFile.deserialize(text)
        if list(g) != [bn for bn, _ in table]:
            bad = f"block names {list(g)}"
        for bn, cats in table:
            if bad:
                break
            gb = g[bn]
            if list(gb) != [cn for cn, _ in cats]:
                bad = f"category names of {bn}: {list(gb)}"
                break
            for cn, cols in cats:
                gc = gb[cn]
                if list(gc) != [k for k, _ in cols]:
                    bad = f"column names of {bn}.{cn}: {list(gc)}"
                    break
                for k, cells in cols:
                    got = [str(x) for x in gc[k].as_array()]
                    exp = [render_cell(c) for c in cells]
                    gm = None if gc[k].mask is None else [int(x) for x in gc[k].mask.array]
                    if got != exp:
                        bad = f"{bn}.{cn}.{k}: wrote {exp!r}, read {got!r}"
                        break
                    if gm != _expected_mask(cells):
                        bad = f"{bn}.{cn}.{k}: mask {_expected_mask(cells)} read as {gm}"
                        break
                if bad:
                    break
    except Exception as e:  # noqa: BLE001
        bad = f"{type(e).__name__}: {e}"
    if not bad:
        return []
    classes = [c for c in (classify(v) for v in values) if c]
    if classes:
        return [("C06/" + classes[0], f"value class {classes[0]}: {bad}")]
    return [("C06/roundtrip/single-line-table" if not any("\n" in v for v in values) else "C06/roundtrip/multiline-table", bad)]


def _container_oracle(case):
    """The real containers against a Python dict (raw/parsed distinction invisible)."""
    kind = case["kind"].split("/")[1]
    BAD = object()

    def val(e):
        return int(e[1:]) if e[0] in "PRQ" else BAD

    binary = kind[0] == "b"
    fresh = set()          # keys of the container under test whose element was built in memory and never serialised

    def eq_expect(ref, oref, ofresh, quirk):
        """dict semantics of ==; quirk=True adds the known BinaryCIF behaviour (fresh != read back)."""
        if set(ref) != set(oref):
            return False
        for k in ref:
            if ref[k] is BAD or oref[k] is BAD:
                return "DeserializationError"
            if ref[k] != oref[k] or (quirk and binary and ((k in fresh) != (k in ofresh))):
                return False
        return True

    cont, ref = None, None
    for op in case["ops"]:
        w = op.split()
        exp = got = None
        try:
            if w[0] == "cnew":
                ents = _parse_entries(w[2])
                cont, ref = _container(kind, ents), {k: val(e) for k, e in ents}
                fresh = {k for k, e in ents if e[0] == "P"}
                continue
            elif w[0] == "cget":
                try:
                    got = _ident(kind, cont[w[1]])
                except Exception as e:  # noqa: BLE001
                    got = type(e).__name__
                exp = "KeyError" if w[1] not in ref else "DeserializationError" if ref[w[1]] is BAD else ref[w[1]]
            elif w[0] == "cset":
                cont[w[1]] = _elem(kind, int(w[2]))
                ref[w[1]] = int(w[2])
                fresh.add(w[1])
                continue
            elif w[0] == "csetraw":
                if kind[0] == "t":
                    # a str is not an element of a text container: exactly TypeError, and nothing changes
                    try:
                        cont[w[1]] = _raw(kind, w[1], 1)
                        got = "ok"
                    except Exception as e:  # noqa: BLE001
                        got = type(e).__name__
                    exp = "TypeError" if kind != "tcat" else got
                    if got != exp:
                        return [(f"C06/container/{kind}/csetraw", f"{op} gave {got!r}, expected TypeError")]
                    if kind == "tcat":
                        return []
                    continue
                v = val(w[2])
                try:
                    cont[w[1]] = _raw(kind, w[1], None if v is BAD else v)
                    got = "ok"
                except Exception as e:  # noqa: BLE001
                    got = type(e).__name__
                exp = "DeserializationError" if v is BAD else "ok"
                if v is not BAD:
                    ref[w[1]] = v
                    fresh.discard(w[1])
            elif w[0] == "cdel":
                try:
                    del cont[w[1]]
                    got = "ok"
                except Exception as e:  # noqa: BLE001
                    got = type(e).__name__
                if kind == "tcat" and len(ref) == 1:
                    exp = "ValueError"     # documented: at least one column must remain
                elif w[1] in ref:
                    del ref[w[1]]
                    fresh.discard(w[1])
                    exp = "ok"
                else:
                    exp = "KeyError"
            elif w[0] == "chas":
                got, exp = w[1] in cont, w[1] in ref
            elif w[0] == "citer":
                got, exp = list(cont), list(ref)
                for k in got:
                    if k not in cont:
                        return [(f"C06/container/{kind}/iterated-key-not-contained",
                                 f"{op}: iteration yields {k!r}, but {k!r} in container is False (keys set: {list(ref)})")]
            elif w[0] == "clen":
                got, exp = len(cont), len(ref)
            elif w[0] == "ceq":
                ents = _parse_entries(w[1])
                other, oref = _container(kind, ents), {k: val(e) for k, e in ents}
                try:
                    got = bool(cont == other)
                except Exception as e:  # noqa: BLE001
                    got = type(e).__name__
                exp = eq_expect(ref, oref, set(), False)
                if got != exp and binary and got == eq_expect(ref, oref, {k for k, e in ents if e[0] == "P"}, True):
                    # equal content, but one side was built in memory and never serialised (encoding.pyx)
                    return [("C06/container/binary/eq-unserialised-encoding",
                             f"{op} after {case['ops'][:case['ops'].index(op)]!r}: gave {got!r}, a dict gives {exp!r}")]
            elif w[0] == "creparse":
                try:
                    cont = _reparse(kind, cont)
                    fresh = set()
                except Exception as e:  # noqa: BLE001
                    if type(e).__name__ == "SerializationError" and (
                            (kind in ("tcat", "bcat") and len(ref) == 0) or (kind == "bcat" and any(v is BAD for v in ref.values()))):
                        continue       # an empty category / an undecodable column cannot be written: rejected, state kept
                    return [(f"C06/container/{kind}/reparse", f"{op}: {type(e).__name__}: {e}")]
                continue
        except Exception as e:  # noqa: BLE001
            return [(f"C06/container/{kind}/{w[0]}", f"{op}: unexpected {type(e).__name__}: {e}")]
        if isinstance(got, str) and got.endswith("Error") and cont is not None and list(cont) != list(ref):
            return [(f"C06/container/{kind}/refused-call-changed-state",
                     f"{op} raised {got}, and the keys changed from {list(ref)} to {list(cont)}")]
        if got != exp:
            return [(f"C06/container/{kind}/{w[0]}", f"after {case['ops'][:case['ops'].index(op)]!r}: {op} gave {got!r}, a dict gives {exp!r}")]
    # finally: every iterated key is retrievable and holds what was set
    if cont is not None:
        for k in list(cont):
            try:
                got = _ident(kind, cont[k])
            except Exception as e:  # noqa: BLE001
                got = type(e).__name__
            exp = "KeyError" if k not in ref else "DeserializationError" if ref[k] is BAD else ref[k]
            if got != exp:
                return [(f"C06/container/{kind}/iterated-key-not-retrievable",
                         f"after {case['ops']!r}: container[{k!r}] gave {got!r}, a dict gives {exp!r}")]
    return []


def _rowcount_oracle(case):
    """A category whose current columns all have n rows serialises (to n rows) whatever happened before."""
    import biotite.structure.io.pdbx as pdbx
    flav, rc, ref = None, None, None
    for i, op in enumerate(case["ops"]):
        w = op.split()
        if w[0] == "rcnew":
            flav = w[1]
            ref = {k: int(n) for k, n in _parse_entries(w[2])}
            cols = {k: _rc_col(flav, n) for k, n in ref.items()}
            rc = pdbx.CIFCategory(cols, name="c") if flav == "t" else pdbx.BinaryCIFCategory(cols)
        elif w[0] == "rcset":
            rc[w[1]] = _rc_col(flav, int(w[2]))
            ref[w[1]] = int(w[2])
        elif w[0] == "rcdel":
            try:
                del rc[w[1]]
                got = "ok"
            except Exception as e:  # noqa: BLE001
                got = type(e).__name__
            exp = ("ValueError" if flav == "t" and len(ref) == 1 else "ok" if w[1] in ref else "KeyError")
            if got != exp:
                kind = "text" if flav == "t" else "binary"
                return [(f"C06/container/{kind}-category/delete", f"after {case['ops'][:i]!r}: {op} gave {got!r}, expected {exp!r}")]
            if got == "ok":
                ref.pop(w[1])
        elif w[0] in ("rcser", "rccount") and ref:
            lens = list(ref.values())
            try:
                got = _rc_rows(flav, rc.serialize()) if w[0] == "rcser" else rc.row_count
            except Exception as e:  # noqa: BLE001
                got = type(e).__name__
            if w[0] == "rcser":
                exp = lens[0] if len(set(lens)) == 1 else "SerializationError"
            else:
                exp = lens[0]
            if got != exp:
                kind = "text" if flav == "t" else "binary"
                return [(f"C06/container/{kind}-category/stale-row-count",
                         f"after {case['ops'][:i]!r}: columns have lengths {lens}, {w[0]} gave {got!r}, expected {exp!r}")]
    return []


def _eqfiles_oracle(case):
    """Same tables => equal, whatever the text layout and whatever has been parsed so far."""
    import biotite.structure.io.pdbx as pdbx
    ta, tb = case["texts"]
    exp = case["expect_equal"]
    for label, (x, y) in (("a==b", (ta, tb)), ("b==a", (tb, ta))):
        try:
            got = bool(pdbx.CIFFile.deserialize(x) == pdbx.CIFFile.deserialize(y))
        except Exception as e:  # noqa: BLE001
            got = type(e).__name__
        if got != exp:
            return [("C06/container/text/eq-of-parsed-files",
                     f"{label} directly after parsing gave {got!r}, the tables are {'equal' if exp else 'different'}")]
    # and the answer does not change once everything has been accessed
    fa, fb = pdbx.CIFFile.deserialize(ta), pdbx.CIFFile.deserialize(tb)
    for f in (fa, fb):
        for b in f.values():
            for c in b.values():
                list(c.keys())
    if bool(fa == fb) != exp:
        return [("C06/container/text/eq-of-parsed-files", f"after access: {fa == fb}, expected {exp}")]
    return []


def _column_oracle(case):
    """Reading a column (as_array in every flavour, serialising it) never changes it."""
    flav = case["kind"].split("/")[1]
    vals, mask = case["values"], case["mask"]
    shown = [v if m == 0 else "." if m == 1 else "?" for v, m in zip(vals, mask)]
    key = "C06/column/" + ("text" if flav == "t" else "binary")
    col, data = _mk_col(flav, vals, mask)
    for how in ("default", "str", "-", "default"):
        got = _col_arr(flav, col, how)
        exp = shown if how in ("default", "str") else [v if m == 0 else how for v, m in zip(vals, mask)]
        if got != exp:
            return [(key + "/as_array", f"as_array({how}) of data {vals} mask {mask} gave {got}, expected {exp}")]
        if [str(x) for x in col.data.array] != vals:
            return [(key + "/read-changes-data", f"after as_array({how}) the stored data {vals} (mask {mask}) became {[str(x) for x in col.data.array]}")]
    back = _col_roundtrip(flav, col, data)
    if [str(x) for x in col.data.array] != vals:
        return [(key + "/read-changes-data", f"after serialising, the stored data {vals} (mask {mask}) became {[str(x) for x in col.data.array]}")]
    mexp = "".join(map(str, mask)) if (flav == "b" or any(mask)) else "-"
    exp = [("m", shown, mexp), ("p", vals, "-")]
    if back != exp:
        return [(key + "/roundtrip-shared-data", f"category {{m: masked {vals}/{mask}, p: same data unmasked}} read back as {back}, expected {exp}")]
    # the mask can be lifted afterwards
    col2, _ = _mk_col(flav, vals, mask)
    _col_arr(flav, col2, "default")
    import biotite.structure.io.pdbx as pdbx
    lifted = pdbx.CIFColumn(col2.data) if flav == "t" else pdbx.BinaryCIFColumn(col2.data)
    got = [str(x) for x in (lifted.as_array() if flav == "t" else lifted.as_array(str))]
    if got != vals:
        return [(key + "/read-changes-data", f"after reading the masked column, an unmasked column on its data shows {got} instead of {vals}")]
    return []


def _eqrows_oracle(case):
    """== returns a bool and equals the comparison of the stored tables (here: of the two value lists)."""
    for op in case["ops"]:
        w = op.split()
        exp = dec_list(w[5]) == dec_list(w[6])
        try:
            got = _eqrows_eval(w)
        except Exception as e:  # noqa: BLE001
            got = type(e).__name__
        if len(w) > 7:
            # with masks: the tables are what as_array() shows
            def shown(vals, mask):
                return vals if mask == "-" else [v if c == "0" else "." if c == "1" else "?" for v, c in zip(vals, mask)]
            ta, tb = shown(dec_list(w[5]), w[7]), shown(dec_list(w[6]), w[8])
            flav = "text" if w[1] == "t" else "binary"
            if ta != tb and got is not False:
                return [(f"C06/container/{flav}/eq-mask",
                         f"{w[2]} level: data {dec_list(w[5])} mask {w[7]} == data {dec_list(w[6])} mask {w[8]} gave {got!r}, "
                         f"but the tables are {ta} and {tb}")]
            if exp and w[7] == w[8] and got is not True:
                return [(f"C06/container/{flav}/eq-mask",
                         f"{w[2]} level: identical data {dec_list(w[5])} and identical masks {w[7]} gave {got!r}")]
            continue     # same table but different hidden data / explicit all-present mask: the property is silent
        if got != exp:
            if w[1] == "b" and w[3] != w[4] and got is False and exp is True:
                return [("C06/container/binary/eq-unserialised-encoding",
                         f"{op}: equal tables, one built in memory and one read back, compare unequal")]
            flav = "text" if w[1] == "t" else "binary"
            if "w" in (w[3], w[4]):
                return [(f"C06/container/{flav}/eq-item-size",
                         f"{w[2]} level, {w[3]} vs {w[4]} (w = NumPy string array wider than its longest value): "
                         f"{dec_list(w[5])} == {dec_list(w[6])} gave {got!r}, the tables are {'equal' if exp else 'different'}")]
            return [(f"C06/container/{flav}/eq-row-count",
                     f"{w[2]} level, {w[3]} vs {w[4]}: {dec_list(w[5])} == {dec_list(w[6])} gave {got!r}, the tables are "
                     f"{'equal' if exp else 'different'}")]
    return []


def oracle(case):
    if _uses_extension(case):
        from common import sandbox
        r = sandbox.run_forked(_oracle, case, timeout=120)
        if r[0] == "ok":
            return r[1]
        if r[0] == "err":
            raise RuntimeError(f"oracle raised {r[1]}: {r[2]}")
        return [("C06/crash/" + case.get("kind", "?"), f"the process died ({r}) while running this case on the real code")]
    return _oracle(case)


def _oracle(case):
    import sys as _sys
    if case.get("kind", "").startswith("reuse/"):
        from props import c06_api
        return c06_api.reuse_oracle(case, _sys.modules[__name__])
    if case.get("kind", "").startswith("api/"):
        from props import c06_api
        return c06_api.api_oracle(case, _sys.modules[__name__])
    if case.get("kind", "").startswith("eqrows/"):
        return _eqrows_oracle(case)
    if case.get("kind", "").startswith("column/"):
        return _column_oracle(case)
    if case.get("kind") == "eqfiles":
        return _eqfiles_oracle(case)
    if case.get("kind", "").startswith("rowcount/"):
        return _rowcount_oracle(case)
    if case.get("table") is not None:
        return _table_oracle(case["table"])
    if case.get("kind", "").startswith("container/"):
        return _container_oracle(case)
    return []


def nontrivial(case, impl_out):
    k = case.get("kind", "")
    if k.startswith("table"):
        cells = [c for _, cats in case["table"] for _, cols in cats for _, cs in cols for c in cs]
        return len(cells) >= 2 or any(c[0] != "p" or not c[1].isalnum() for c in cells)
    if k.startswith("container"):
        return len(case["ops"]) >= 3
    return True


def util_jdump(x):
    import json
    return json.dumps(x, sort_keys=True, default=str)


def signature(case):
    if case.get("ops"):
        return "|".join(case["ops"])
    return util_jdump({k: v for k, v in case.items() if not k.startswith("_")})


def distribution(cases_, impl_outs):
    outcomes, classes = {}, {}
    for c, o in zip(cases_, impl_outs):
        for line in o or []:
            k = line.split(" ")[0]
            outcomes[k] = outcomes.get(k, 0) + 1
        if c.get("table") is not None:
            for _, cats in c["table"]:
                for _, cols in cats:
                    for _, cells in cols:
                        for cell in cells:
                            if cell[0] != "p":
                                cl = "mask"
                            else:
                                v = cell[1]
                                cl = ("multiline" if "\n" in v else "both-quotes" if "'" in v and '"' in v else "empty" if v == "" else
                                      "quote" if "'" in v or '"' in v else "blank" if " " in v or "\t" in v else
                                      "special-head" if v[0] in "#;_$[" or v.startswith(("data_", "loop_", "save_", "global_", "stop_")) else "plain")
                            classes[cl] = classes.get(cl, 0) + 1
    return {"outcomes": outcomes, "cell_classes": classes}


def search(rng, problems, tier):
    """Failing-input search: every special head at every position of small tables, then the generator again."""
    heads = SPECIAL_HEADS + ["#", ";", "data_", "loop_", "_", "'", '"', "_a' ", "_b\" "]
    for h in heads:
        for tail in ["", "x", "x y", "'", '"']:
            for (r, k) in [(1, 1), (1, 2), (2, 1), (2, 2), (3, 2)]:
                for i in range(r):
                    for j in range(k):
                        yield table_case(make_table(rng, awkward=h + tail, pos=(i, j), n_rows=r, n_cols=k, multi_ok=False),
                                         kind="table/search")
    for _ in range(300):
        yield history(rng)
    yield from cases(rng, "quick")


def shrink(case, key):
    """Reduce a failing table to the single block/category that still fails, then blank out harmless cells."""
    if case.get("table") is None:
        return case
    table = case["table"]

    def fails(t):
        try:
            return any(k == key for k, _ in _table_oracle(t))
        except Exception:
            return False
    for b in table:
        for c in b[1]:
            t = [[b[0], [c]]]
            if fails(t):
                table = t
                break
    for _, cats in table:
        for _, cols in cats:
            for col in cols:
                for i, cell in enumerate(col[1]):
                    if cell != ["p", "x"]:
                        old = col[1][i]
                        col[1][i] = ["p", "x"]
                        if not fails(table):
                            col[1][i] = old
    return table_case(table, kind=case["kind"])

"""C20 — Application wrappers follow their life cycle and always clean up.

The real wrappers (Application / LocalApp / MSAApp / ClustalOmegaApp / MuscleApp / Muscle5App / MafftApp) are driven
with small fake executables from fixtures/C20/bin (passed through `bin_path`).  Every protocol line is one call of
the wrapper API (or an environment event); every output line is the call's canonical result followed by an
observation of the resources the property speaks about:

    <result> | st=<_state> cwd=<same|changed> files=<#temp files> child=<none|alive|dead> cl=<#clean_up calls>

Protocol (first line of a case is always `new`):
    new <wrapper> <tool> <nseq> <seqkind>     wrapper: base local clustalo muscle3 muscle5 mafft
                                              tool: ok reorder garbage_empty garbage_ragged garbage_missing
                                                    garbage_length garbage_tree exit3 sigkill hang
                                                    missing isdir nulbyte
    start | join - | join t | join 5 | join 0 | join 0.0 | cancel | state | tick | call <method>
    chdir                 environment: the *caller* changes its working directory (cwd= is relative to where the caller is now)
    setgap <a> [<b>]      MuscleApp.set_gap_penalty(a) / set_gap_penalty((a, b))
    callbad <method>      a setter called with arguments it must reject (wrong matrix shape / wrong number of leaves)
    (`join t` = join(timeout=0.05); `join 0` / `join 0.0` = the boundary "do not wait")
`tick` is the environment event "the external program is allowed to finish now" (the fake tools block on a gate
file so that *when* the child exits is decided by the history, not by the scheduler).
"""
import ast
import json
import os
import shutil
import tempfile
import threading
import time

PROP = "C20"
PROPS_MODULE = "BiotiteModel.Props.C20"
DRIVER_MODULE = "BiotiteModel.Driver.C20"
EXT_MODULES = []
GEN_FILES = ["BiotiteModel/Gen/C20.lean"]
# (the web model lives in Model/C20Web.lean, Proofs/C20Web.lean; its theorems are in Props/C20.lean)
RULE = ("histories (<= 6 calls quick, <= 8 thorough) of start/join/join(timeout incl. 0)/cancel/get_app_state/setters/getters "
        "+ the environment event `tick`, over 7 wrapper kinds (Application stub, LocalApp, ClustalO, MUSCLE3, MUSCLE5, "
        "MAFFT, tantan) x 15 scripted behaviours of the external program (ok, reordered, 5 kinds of garbage, exit 3, killed by a "
        "signal after writing valid output, hang, and three launch failures: missing binary, bin_path is a directory "
        "[PermissionError], NUL byte in the command [ValueError, not an OSError]) x protein/nucleotide/custom-alphabet inputs; half template-based (every way a run can end), "
        "half random; the bare Application stub additionally gets all histories up to length 3 (thorough: 4), MafftApp all "
        "histories up to length 3 containing a start x every tool (thorough). "
        "non-trivial = the history contains a start; distinct = different (new line, op list)")
TRUSTED = ["the operating system (process creation/kill, files, cwd) and subprocess.Popen are observed, not modelled beyond "
           "'launch fails | child alive | child exited'",
           "fake external tools in fixtures/C20/bin stand in for ClustalO/MUSCLE/MAFFT (command-line shape only)",
           "FastaFile.read / Alignment.trace_from_strings / Tree.from_newick are modelled only as 'accepts | raises'"]
ASSUMPTIONS = ["evaluate() never raises AppStateError (the wrappers' own `except AppStateError: raise` branch is not reachable "
               "through the modelled environment)",
               "join(None) on a program that never exits diverges; such histories are not generated",
               "temp files are created in __init__, so a wrapper that is never started keeps them (no run, outside the property)"]
LEVEL_TEXT = ("proof (partial): Lean 4 theorems over executable state-machine models of (a) Application/LocalApp/MSAApp, the four MSA "
              "wrappers and TantanApp and (b) WebApp/BlastWebApp (rule bookkeeping with a scripted clock and server on top of the "
              "generic Application.join), for all histories and all scripted environments: allowed-call table (tied to every "
              "@requires_state decorator, _state assignment and life-cycle call skeleton of all 18 Application subclasses in "
              "biotite.application by regenerated tables), refusal purity, results only after join, order restoration, clean-up "
              "exactly once with no resources left at every terminal state, unreachability of join's `except AppStateError` branch, "
              "web rule: refused exactly when obey_rules and < 3 s / < 60 s since the last accepted contact / request, refusals "
              "change nothing; models tied to the code by an op-by-op correspondence run with fake external programs / a fake "
              "server. Partial: the OS side (process really dead, file really gone) and the network are observed or scripted, not "
              "proved; DSSP, ViennaRNA, Vina, SRA are tied by the regenerated tables (SRA also by a regression case) but not driven; "
              "result parsing of the non-MSA wrappers is out of scope.")
LEVEL_NOTE = ("trusted: OS/subprocess/tempfile, fake tools, FASTA/Newick parsers as accept/reject; modelled-not-verified: "
              "timing (the `tick` gate makes the child's exit an explicit event)")
TECHNIQUE = "Lean 4 proof (invariant over all histories of a state machine) + regenerated guard table + correspondence"

WRAPPERS = ["base", "local", "clustalo", "muscle3", "muscle5", "mafft", "tantan"]
TOOLS = ["ok", "reorder", "dup_records", "garbage_empty", "garbage_ragged", "garbage_missing", "garbage_length", "garbage_short", "garbage_swap",
         "garbage_extra", "garbage_header", "garbage_tree",
         "bigout", "exit3",
         "sigkill", "hang", "hang_ignore_term", "missing", "isdir", "nulbyte"]
HANGS = ("hang", "hang_ignore_term")      # never exit on their own; the second one also ignores SIGTERM
# tools that cannot even be launched: the exception Popen raises (only `missing`/`isdir` are OSErrors)
LAUNCH_FAILURE = {"missing": "FileNotFoundError", "isdir": "PermissionError", "nulbyte": "ValueError"}
FAILING_EXIT = ("exit3", "sigkill")
SEQKINDS = ["prot", "nuc", "generic"]
TIMEOUT = 0.05

ANCHOR_FILES = ["application.py", "localapp.py", "msaapp.py", "webapp.py", "clustalo/app.py", "muscle/app3.py",
                "muscle/app5.py", "mafft/app.py",
                # the other wrappers of biotite.application share the life cycle / clean-up contract: tied, not all driven
                "autodock/app.py", "blast/webapp.py", "dssp/app.py", "sra/app.py", "tantan/app.py", "viennarna/rnafold.py",
                "viennarna/rnaalifold.py", "viennarna/rnaplot.py"]
STATES = ["CREATED", "RUNNING", "FINISHED", "JOINED", "CANCELLED"]

# method resolution order of the wrapper kinds (class names as in the source)
MRO = {
    "base": ["Application"],
    "local": ["LocalApp", "Application"],
    "clustalo": ["ClustalOmegaApp", "MSAApp", "LocalApp", "Application"],
    "muscle3": ["MuscleApp", "MSAApp", "LocalApp", "Application"],
    "muscle5": ["Muscle5App", "MSAApp", "LocalApp", "Application"],
    "mafft": ["MafftApp", "MSAApp", "LocalApp", "Application"],
    "tantan": ["TantanApp", "LocalApp", "Application"],
}

# ---------------------------------------------------------------- the documented life cycle (oracle's own table)
# Written from the docstrings of the public methods ("raises AppStateError unless ..."), NOT from the decorators.
_C, _R, _F, _J, _X = "CREATED", "RUNNING", "FINISHED", "JOINED", "CANCELLED"
_ALL = [_C, _R, _F, _J, _X]
DOC_ALLOWED = {
    "start": [_C], "join": [_R, _F], "cancel": [_R, _F], "get_app_state": _ALL,
    # LocalApp
    "set_arguments": [_C], "set_stdin": [_C], "add_additional_options": [_C], "set_exec_dir": [_C],
    "get_command": [_R, _F, _J, _X], "get_process": [_R, _F], "get_exit_code": [_F, _J], "get_stdout": [_F, _J],
    "get_stderr": [_F, _J],
    # MSAApp
    "get_alignment": [_J], "get_alignment_order": [_J], "get_input_file_path": _ALL, "get_output_file_path": _ALL,
    "get_matrix_file_path": _ALL, "get_seqtype": _ALL,
    # wrappers
    "full_matrix_calculation": [_C], "set_distance_matrix": [_C], "set_guide_tree": [_C], "get_distance_matrix": [_J],
    "get_guide_tree": [_J], "get_mask": [_J], "set_gap_penalty": [_C], "set_iterations": [_C], "set_thread_number": [_C], "use_super5": [_C],
}
RESULT_GETTERS = ["get_alignment", "get_alignment_order", "get_guide_tree", "get_distance_matrix", "get_mask"]

METHODS = {
    "base": [],
    "local": ["set_arguments", "set_stdin", "add_additional_options", "set_exec_dir", "get_command", "get_process",
              "get_exit_code", "get_stdout", "get_stderr"],
}
_MSA = METHODS["local"] + ["get_alignment", "get_alignment_order", "get_input_file_path", "get_output_file_path",
                            "get_matrix_file_path", "get_seqtype"]
METHODS["clustalo"] = _MSA + ["full_matrix_calculation", "set_distance_matrix", "set_guide_tree", "get_distance_matrix",
                              "get_guide_tree"]
METHODS["muscle3"] = _MSA + ["set_gap_penalty", "get_guide_tree"]
METHODS["muscle5"] = _MSA + ["set_iterations", "set_thread_number", "use_super5"]
METHODS["mafft"] = _MSA + ["get_guide_tree"]
METHODS["tantan"] = METHODS["local"] + ["get_mask"]


def _bin_dir():
    from common import paths
    return os.path.join(paths.FIXTURES, "C20", "bin")


# ---------------------------------------------------------------- translator (Gen)
def _state_names(node):
    """AppState.A | AppState.B  ->  ['A', 'B'] (refuses anything else)."""
    if isinstance(node, ast.BinOp) and isinstance(node.op, ast.BitOr):
        return _state_names(node.left) + _state_names(node.right)
    if isinstance(node, ast.Attribute) and isinstance(node.value, ast.Name) and node.value.id == "AppState":
        if node.attr not in STATES:
            raise ValueError(f"unknown AppState member {node.attr}")
        return [node.attr]
    raise ValueError("unsupported requires_state argument: " + ast.dump(node))


def _events(fn, state_attr="_state", process_attr="_process"):
    """Linearised life-cycle skeleton of a method body in source order:
    try{ ... }  handler:<Exc|*>{ ... }  else{ ... }  assign:<STATE>  call:<self method>  raise  raise:<Exc>.
    Normal form: an `else:` of a `try` whose handlers all end in `raise` is the same as the statements after the `try`;
    `if a: if b: X` (no else branches) is the same as `if a and b: X`."""
    out = []
    interesting_calls = {"clean_up", "cancel", "evaluate", "run", "kill", "is_finished", "get_app_state"}

    def expr_calls(node):
        for sub in ast.walk(node):
            if isinstance(sub, ast.Call):
                f = sub.func
                if isinstance(f, ast.Attribute) and f.attr in interesting_calls:
                    base = f.value
                    if isinstance(base, ast.Name) and base.id == "self":
                        out.append("call:" + f.attr)
                    elif (isinstance(base, ast.Call) and isinstance(base.func, ast.Name) and base.func.id == "super"):
                        out.append("super:" + f.attr)
                    elif isinstance(base, ast.Attribute) and base.attr == process_attr:
                        out.append("proc:" + f.attr)
                if isinstance(f, ast.Name) and f.id in ("Popen", "chdir", "cleanup_tempfile"):
                    out.append("call:" + f.id)
                if isinstance(f, ast.Attribute) and f.attr == "communicate":
                    out.append("proc:communicate")
                if isinstance(f, ast.Attribute) and f.attr == "remove":
                    out.append("call:remove")

    def event_free(stmts):
        n = len(out)
        walk(stmts)
        free = len(out) == n
        del out[n:]
        return free

    def walk(stmts):
        for k, st in enumerate(stmts):
            if (isinstance(st, ast.If) and not st.orelse and _exits(st.body) and not isinstance(st.body[-1], ast.Raise)
                    and event_free(st.body) and k + 1 < len(stmts)):
                # guard clause `if c: return|continue|break` = `if not c: <rest of the block>`
                mark = len(out)
                out.append("if{")
                expr_calls(st.test)
                n_test = len(out)
                walk(stmts[k + 1:])
                if len(out) == n_test:
                    test_events = out[mark + 1:n_test]
                    del out[mark:]
                    out.extend(test_events)
                else:
                    out.append("}")
                return
            if isinstance(st, ast.If) and st.orelse and _exits(st.body) and event_free(st.body) and not event_free(st.orelse):
                # `if c: return X  else: B` = guard clause + B
                out.append("if{")
                expr_calls(st.test)
                walk(st.orelse)
                out.append("}")
                continue
            if isinstance(st, ast.For) and isinstance(st.iter, (ast.Tuple, ast.List)) and not st.orelse:
                for _ in st.iter.elts:                 # a loop over a literal sequence = its body once per element
                    walk(st.body)
                continue
            if isinstance(st, ast.With) and len(st.items) == 1 and isinstance(st.items[0].context_expr, ast.Call) \
                    and ast.unparse(st.items[0].context_expr.func) == "suppress":
                out.append("try{")                     # `with suppress(E): B` = `try: B except E: pass`
                walk(st.body)
                out.append("}")
                for a in st.items[0].context_expr.args:
                    out.append("handler:" + ast.unparse(a) + "{")
                    out.append("}")
                continue
            if isinstance(st, ast.While) and isinstance(st.test, ast.Constant) and st.test.value is True and not st.orelse:
                # `while True: …; if c: break; rest` = `while not c: rest` (the part before the break test has no events)
                j = next((i for i, b in enumerate(st.body) if isinstance(b, ast.If) and not b.orelse and len(b.body) == 1
                          and isinstance(b.body[0], ast.Break)), None)
                if j is not None and event_free(st.body[:j]):
                    mark = len(out)
                    out.append("while{")
                    expr_calls(st.body[j].test)
                    n_test = len(out)
                    walk(st.body[j + 1:])
                    if len(out) == n_test:
                        test_events = out[mark + 1:n_test]
                        del out[mark:]
                        out.extend(test_events)
                    else:
                        out.append("}")
                    continue
            if isinstance(st, ast.Try):
                out.append("try{")
                walk(st.body)
                out.append("}")
                for h in st.handlers:
                    out.append("handler:" + (ast.unparse(h.type) if h.type is not None else "*") + "{")
                    walk(h.body)
                    out.append("}")
                if st.orelse and st.handlers and all(h.body and isinstance(h.body[-1], ast.Raise) for h in st.handlers) and not st.finalbody:
                    walk(st.orelse)                    # every handler re-raises: the else block simply follows
                elif st.orelse:
                    out.append("else{")
                    walk(st.orelse)
                    out.append("}")
                if st.finalbody:
                    out.append("finally{")
                    walk(st.finalbody)
                    out.append("}")
            elif isinstance(st, (ast.If, ast.While)):
                mark = len(out)
                out.append(("if" if isinstance(st, ast.If) else "while") + "{")
                expr_calls(st.test)
                while (isinstance(st, ast.If) and not st.orelse and len(st.body) == 1 and isinstance(st.body[0], ast.If)
                       and not st.body[0].orelse):
                    st = st.body[0]                    # nested ifs without else = one conjunction
                    expr_calls(st.test)
                n_test = len(out)
                walk(st.body)
                body_empty = len(out) == n_test
                out.append("}")
                n_else = len(out)
                if st.orelse:
                    out.append("else{")
                    walk(st.orelse)
                    out.append("}")
                if body_empty and len(out) <= n_else + (2 if st.orelse else 0):
                    # only the test has life-cycle events (`if self.get_app_state() == FINISHED: break`): no block, just the events
                    test_events = out[mark + 1:n_test]
                    del out[mark:]
                    out.extend(test_events)
            elif isinstance(st, ast.With):
                walk(st.body)
            elif isinstance(st, ast.Raise):
                if st.exc is None:
                    out.append("raise")
                else:
                    f = st.exc.func if isinstance(st.exc, ast.Call) else st.exc
                    out.append("raise:" + ast.unparse(f))
            elif (isinstance(st, ast.Assign) and len(st.targets) == 1 and isinstance(st.targets[0], ast.Attribute)
                  and st.targets[0].attr == state_attr):
                out.append("assign:" + _state_names(st.value)[0])
            else:
                expr_calls(st)

    walk(fn.body)
    # `if{ T1 if{ T2 B } }` (the inner block closes the outer one, no else) = `if{ T1 T2 B }`
    changed = True
    while changed:
        changed = False
        depth_open = []
        for i, tok in enumerate(out):
            if tok.endswith("{"):
                depth_open.append(i)
            elif tok == "}":
                j = depth_open.pop()
                if (out[j] == "if{" and i + 1 < len(out) and out[i + 1] == "}" and depth_open and out[depth_open[-1]] == "if{"
                        and all(not t.endswith("{") and t != "}" for t in out[depth_open[-1] + 1:j])
                        and not (i + 2 < len(out) and out[i + 2] == "else{")):
                    del out[i]
                    del out[j]
                    changed = True
                    break
    # drop blocks without any life-cycle event inside (`if{ }`, `else{ }`), repeatedly
    changed = True
    while changed:
        changed = False
        for i in range(len(out) - 1):
            if out[i].endswith("{") and out[i + 1] == "}" and not out[i].startswith(("try", "handler")):
                del out[i:i + 2]
                changed = True
                break
    return out


def extract_tables(src_root):
    """{class: {"bases": [...], "methods": {name: guard-or-None}, "assigns": {name: [...]}, "skeleton": {name: [...]}}}"""
    classes = {}
    inv_roles = {v: k for k, v in discover_roles(src_root).items()}
    # every class that (transitively) derives from Application, in any file of the package named above
    nodes = []
    for rel in ANCHOR_FILES:
        path = os.path.join(src_root, "biotite", "application", rel)
        tree = ast.parse(open(path).read())
        nodes += [n for n in tree.body if isinstance(n, ast.ClassDef)]
    family = {"Application"}
    grew = True
    while grew:
        grew = False
        for n in nodes:
            if n.name not in family and any(isinstance(b, ast.Name) and b.id in family for b in n.bases):
                family.add(n.name)
                grew = True
    # a file of the package that defines an Application subclass but is not listed would escape the tie: refuse
    app_dir = os.path.join(src_root, "biotite", "application")
    for root, _dirs, files in os.walk(app_dir):
        for fn in files:
            if fn.endswith(".py"):
                rel = os.path.relpath(os.path.join(root, fn), app_dir)
                if rel in ANCHOR_FILES:
                    continue
                for n in ast.parse(open(os.path.join(root, fn)).read()).body:
                    if isinstance(n, ast.ClassDef) and any(isinstance(b, ast.Name) and b.id in family for b in n.bases):
                        raise ValueError(f"Application subclass {n.name} in unlisted file {rel}")
    if True:
        for node in nodes:
            bases = [b.id for b in node.bases if isinstance(b, ast.Name)]
            if node.name not in family:
                continue
            info = {"bases": bases, "methods": {}, "assigns": {}, "skeleton": {}, "tempfiles": 0, "calls": {}}
            for fn in node.body:
                if not isinstance(fn, ast.FunctionDef):
                    continue
                guard = None
                for dec in fn.decorator_list:
                    if isinstance(dec, ast.Call) and isinstance(dec.func, ast.Name) and dec.func.id == "requires_state":
                        if len(dec.args) != 1:
                            raise ValueError(f"requires_state with {len(dec.args)} args at {node.name}.{fn.name}")
                        guard = sorted(set(_state_names(dec.args[0])), key=STATES.index)   # canonical order
                    elif "requires_state" in ast.dump(dec):
                        raise ValueError(f"unrecognised use of requires_state at {node.name}.{fn.name}")
                body = [b for b in fn.body if not (isinstance(b, ast.Expr) and isinstance(b.value, ast.Constant))]
                if (guard is None and not fn.decorator_list and len(body) == 1 and isinstance(body[0], (ast.Expr, ast.Return))
                        and isinstance(body[0].value, ast.Call)
                        and ast.unparse(body[0].value.func) == f"super().{fn.name}"):
                    continue          # a purely delegating override is the same as no override
                info["methods"][fn.name] = guard
                if fn.name == "__init__":
                    info["tempfiles"] = sum(1 for n in ast.walk(fn) if isinstance(n, ast.Call) and (
                        (isinstance(n.func, ast.Name) and n.func.id == "NamedTemporaryFile")
                        or (isinstance(n.func, ast.Attribute) and n.func.attr == "NamedTemporaryFile")))
                ev = _events(fn, inv_roles.get("STATE", "_state"), inv_roles.get("PROCESS", "_process"))
                asg = [e[7:] for e in ev if e.startswith("assign:")]
                if asg:
                    info["assigns"][fn.name] = asg
                if fn.name in ("start", "join", "cancel", "get_app_state", "run", "clean_up", "evaluate", "is_finished"):
                    info["skeleton"][fn.name] = ev
                if fn.name in ("run", "evaluate", "clean_up", "is_finished"):
                    # public methods the wrapper calls on itself while the life cycle is in a known state
                    called = sorted({n.func.attr for n in ast.walk(fn) if isinstance(n, ast.Call)
                                     and isinstance(n.func, ast.Attribute) and isinstance(n.func.value, ast.Name)
                                     and n.func.value.id == "self" and not n.func.attr.startswith("_")})
                    if called:
                        info["calls"][fn.name] = called
            classes[node.name] = info
    for need in ("Application", "LocalApp", "MSAApp", "ClustalOmegaApp", "MuscleApp", "Muscle5App", "MafftApp", "WebApp"):
        if need not in classes:
            raise ValueError(f"class {need} not found in the anchored files")
    for cls, m in (("Application", "start"), ("Application", "join"), ("Application", "cancel"),
                   ("Application", "get_app_state"), ("LocalApp", "join"), ("LocalApp", "run"), ("LocalApp", "clean_up"),
                   ("MSAApp", "clean_up")):
        if m not in classes[cls]["methods"]:
            raise ValueError(f"{cls}.{m} not found")
    # the decorator itself: does the refusal branch poll the application?
    tree = ast.parse(open(os.path.join(src_root, "biotite", "application", "application.py")).read())
    dec = next((n for n in tree.body if isinstance(n, ast.FunctionDef) and n.name == "requires_state"), None)
    if dec is None:
        raise ValueError("requires_state not found")
    wrapper = next((n for n in ast.walk(dec) if isinstance(n, ast.FunctionDef) and n is not dec
                    and any(isinstance(r, ast.Raise) for r in n.body + [x for st in n.body for x in ast.walk(st)])
                    and not any(isinstance(x, ast.FunctionDef) for st in n.body for x in ast.walk(st))), None)
    if wrapper is None:
        raise ValueError("requires_state: the innermost wrapper function (the one that raises) not found")
    polls = any(isinstance(n, ast.Call) and isinstance(n.func, ast.Attribute) and n.func.attr in ("get_app_state", "is_finished")
                for n in ast.walk(wrapper))
    # (the condition under which it refuses is pinned structurally by the fact `requires_state.refuses-when`)
    return classes, polls


def extract_web_rules(src_root):
    """BlastWebApp rule layer: the two delays (class attributes) and, for `_contact` / `_request`, the comparison used
    (`now - last < delay`) and that `violate_rule()` is called before the time stamp is overwritten."""
    tree = ast.parse(open(os.path.join(src_root, "biotite", "application", "blast", "webapp.py")).read())
    cls = next((n for n in tree.body if isinstance(n, ast.ClassDef) and n.name == "BlastWebApp"), None)
    if cls is None:
        raise ValueError("BlastWebApp not found")
    consts = {}
    for st in cls.body:
        if isinstance(st, ast.Assign) and len(st.targets) == 1 and isinstance(st.targets[0], ast.Name) \
                and isinstance(st.value, ast.Constant) and isinstance(st.value.value, int):
            consts[st.targets[0].id] = st.value.value
    for need in ("_contact_delay", "_request_delay", "_last_contact", "_last_request"):
        if need not in consts:
            raise ValueError(f"BlastWebApp.{need} not found as an integer class attribute")
    rules = []
    for fname, stamp, delay in (("_contact", "_last_contact", "_contact_delay"), ("_request", "_last_request", "_request_delay")):
        fn = next((n for n in cls.body if isinstance(n, ast.FunctionDef) and n.name == fname), None)
        if fn is None:
            raise ValueError(f"BlastWebApp.{fname} not found")
        ifs = [n for n in fn.body if isinstance(n, ast.If)]
        if len(ifs) != 1 or not isinstance(ifs[0].test, ast.Compare) or len(ifs[0].test.ops) != 1:
            raise ValueError(f"BlastWebApp.{fname}: expected exactly one `if <a> <op> <b>:`")
        test = ifs[0].test
        left, right = ast.unparse(test.left), ast.unparse(test.comparators[0])
        if stamp not in left or "-" not in left or delay not in right:
            raise ValueError(f"BlastWebApp.{fname}: test is not `now - {stamp} <op> {delay}`: {ast.unparse(test)}")
        calls_violate = any(isinstance(n, ast.Call) and isinstance(n.func, ast.Attribute) and n.func.attr == "violate_rule"
                            for n in ast.walk(ifs[0]))
        idx_if = fn.body.index(ifs[0])
        assigns_after = any(isinstance(n, ast.Assign) and stamp in ast.unparse(n.targets[0]) for n in fn.body[idx_if + 1:])
        assigns_before = any(isinstance(n, ast.Assign) and stamp in ast.unparse(n.targets[0]) for n in fn.body[:idx_if])
        rules.append((fname, type(test.ops[0]).__name__, calls_violate and assigns_after and not assigns_before))
    wtree = ast.parse(open(os.path.join(src_root, "biotite", "application", "webapp.py")).read())
    wcls = next((n for n in wtree.body if isinstance(n, ast.ClassDef) and n.name == "WebApp"), None)
    vr = next((n for n in wcls.body if isinstance(n, ast.FunctionDef) and n.name == "violate_rule"), None) if wcls else None
    if vr is None:
        raise ValueError("WebApp.violate_rule not found")
    # every `raise` of violate_rule is reached only under `self.<the attribute that stores obey_rules>` (path conditions:
    # nested ifs, guard clauses and if/else are all the same to this test)
    winit = next((n for n in wcls.body if isinstance(n, ast.FunctionDef) and n.name == "__init__"), None)
    obey = next((ast.unparse(n.targets[0]) for n in ast.walk(winit) if isinstance(n, ast.Assign) and isinstance(n.value, ast.Name)
                 and n.value.id == "obey_rules"), None) if winit else None
    raises = [n for n in ast.walk(vr) if isinstance(n, ast.Raise)]
    guarded = obey is not None and bool(raises)
    for r in raises:
        c = _path_conditions(vr.body, lambda st, r=r: st is r)
        if c is None or obey not in [ast.unparse(x) for x in c]:
            guarded = False
    return consts, rules, guarded


def extract_mapping(src_root):
    """ProteinSequence.alphabet (the symbols exotic sequences are mapped onto) and the size test of map_sequence."""
    tree = ast.parse(open(os.path.join(src_root, "biotite", "sequence", "seqtypes.py")).read())
    cls = next((n for n in tree.body if isinstance(n, ast.ClassDef) and n.name == "ProteinSequence"), None)
    letters = None
    for st in (cls.body if cls else []):
        if isinstance(st, ast.Assign) and len(st.targets) == 1 and isinstance(st.targets[0], ast.Name) and st.targets[0].id == "alphabet" \
                and isinstance(st.value, ast.Call) and st.value.args and isinstance(st.value.args[0], ast.List):
            letters = [e.value for e in st.value.args[0].elts if isinstance(e, ast.Constant) and isinstance(e.value, str)]
            if len(letters) != len(st.value.args[0].elts) or any(len(x) != 1 for x in letters):
                raise ValueError("ProteinSequence.alphabet is not a list of one-letter string constants")
    if not letters:
        raise ValueError("ProteinSequence.alphabet = LetterAlphabet([...]) not found")
    utree = ast.parse(open(os.path.join(src_root, "biotite", "application", "util.py")).read())
    fn = next((n for n in utree.body if isinstance(n, ast.FunctionDef) and n.name == "map_sequence"), None)
    if fn is None:
        raise ValueError("map_sequence not found")
    tests = [n.test for n in fn.body if isinstance(n, ast.If) and isinstance(n.test, ast.Compare)]
    if len(tests) != 1 or len(tests[0].ops) != 1:
        raise ValueError("map_sequence: expected exactly one `if len(...) <op> len(...)`")
    # module-level constants and locals with one assignment are looked through (`_SIZE = len(ProteinSequence.alphabet)`)
    env = {}
    for st in list(utree.body) + [x for x in fn.body]:
        if isinstance(st, ast.Assign) and len(st.targets) == 1 and isinstance(st.targets[0], ast.Name):
            env[st.targets[0].id] = ast.unparse(st.value)
    param = fn.args.args[0].arg if fn.args.args else "sequence"

    def resolved(node):
        import copy

        class Subst(ast.NodeTransformer):
            def visit_Name(self, n):
                return ast.parse(env[n.id], mode="eval").body if (n.id in env and n.id != param) else n
        node = copy.deepcopy(node)
        for _ in range(3):
            node = Subst().visit(node)
        return ast.unparse(node)
    left, right = resolved(tests[0].left), resolved(tests[0].comparators[0])
    if f"{param}.alphabet" not in left or "ProteinSequence.alphabet" not in right:
        raise ValueError("map_sequence: size test has an unexpected shape: " + ast.unparse(tests[0]))
    code_taken_over = any(isinstance(n, ast.Assign) and ast.unparse(n.targets[0]).endswith(".code") and
                          ast.unparse(n.value) == f"{param}.code" for n in ast.walk(fn))
    return letters, type(tests[0].ops[0]).__name__, code_taken_over

# ---- structural helpers (pass 8): facts are found by what the code does, names of locals / private attributes / private
# ---- helpers are normalised away, messages and docstrings are never looked at
_FLIP = {ast.Is: ast.IsNot, ast.IsNot: ast.Is, ast.Eq: ast.NotEq, ast.NotEq: ast.Eq, ast.Lt: ast.GtE, ast.GtE: ast.Lt,
         ast.Gt: ast.LtE, ast.LtE: ast.Gt, ast.In: ast.NotIn, ast.NotIn: ast.In}


def _atoms(test, negate=False):
    """A test as a list of atomic condition nodes (conjunction); `negate` gives the atoms of its negation where that is
    again a conjunction (single comparison, `not x`, disjunction), else one `not (...)` atom."""
    if not negate:
        if isinstance(test, ast.BoolOp) and isinstance(test.op, ast.And):
            return [a for v in test.values for a in _atoms(v)]
        if isinstance(test, ast.UnaryOp) and isinstance(test.op, ast.Not):
            return _atoms(test.operand, True)
        return [test]
    if isinstance(test, ast.UnaryOp) and isinstance(test.op, ast.Not):
        return _atoms(test.operand)
    if isinstance(test, ast.Compare) and len(test.ops) == 1 and type(test.ops[0]) in _FLIP:
        return [ast.Compare(left=test.left, ops=[_FLIP[type(test.ops[0])]()], comparators=test.comparators)]
    if isinstance(test, ast.BoolOp) and isinstance(test.op, ast.Or):
        return [a for v in test.values for a in _atoms(v, True)]
    return [ast.UnaryOp(op=ast.Not(), operand=test)]


def _exits(stmts):
    return bool(stmts) and isinstance(stmts[-1], (ast.Continue, ast.Break, ast.Return, ast.Raise))


def _path_conditions(stmts, is_target, conds=()):
    """Atomic conditions (AST nodes) under which the first statement satisfying `is_target` is reached: tests of the enclosing
    `if` / `while`, negated tests of earlier guard clauses (`if c: continue|break|return|raise`) in the same block."""
    conds = list(conds)
    for st in stmts:
        if is_target(st):
            return conds
        if isinstance(st, ast.If):
            r = _path_conditions(st.body, is_target, conds + _atoms(st.test))
            if r is not None:
                return r
            r = _path_conditions(st.orelse, is_target, conds + _atoms(st.test, True))
            if r is not None:
                return r
            if _exits(st.body) and not st.orelse:
                conds += _atoms(st.test, True)
            elif st.orelse and _exits(st.orelse) and not _exits(st.body):
                conds += _atoms(st.test)
        elif isinstance(st, ast.While):
            extra = [] if (isinstance(st.test, ast.Constant) and st.test.value is True) else _atoms(st.test)
            r = _path_conditions(st.body, is_target, conds + extra)
            if r is not None:
                return r
        elif isinstance(st, (ast.For, ast.With)):
            r = _path_conditions(st.body, is_target, conds)
            if r is not None:
                return r
        elif isinstance(st, ast.Try):
            for block in [st.body] + [h.body for h in st.handlers] + [st.orelse, st.finalbody]:
                r = _path_conditions(block, is_target, conds)
                if r is not None:
                    return r
    return None


def _contains(st, pred):
    return any(pred(n) for n in ast.walk(st))


class _Renamer(ast.NodeTransformer):
    def __init__(self, locals_map, attr_map):
        self.l, self.a = locals_map, attr_map

    def visit_Name(self, node):
        return ast.copy_location(ast.Name(id=self.l.get(node.id, node.id), ctx=node.ctx), node)

    def visit_Attribute(self, node):
        on_object = isinstance(node.value, ast.Name) and node.attr in self.a and node.attr.startswith("_")
        self.generic_visit(node)
        if on_object:          # `self._x` / `instance._x` / `app._x`: the private attribute is written as its role
            return ast.copy_location(ast.Attribute(value=node.value, attr=self.a[node.attr], ctx=node.ctx), node)
        return node


def _locals_in_order(fn):
    """Parameters (without self) then local variables of a function in order of first binding: name -> p<k> / v<k>."""
    import copy
    m = {}
    for k, a in enumerate([a for a in fn.args.posonlyargs + fn.args.args + fn.args.kwonlyargs if a.arg not in ("self", "cls")]):
        m[a.arg] = f"p{k}"
    seen = []

    class V(ast.NodeVisitor):
        def visit_Name(self, node):
            if isinstance(node.ctx, ast.Store) and node.id not in m and node.id not in seen:
                seen.append(node.id)

        def visit_FunctionDef(self, node):
            if node is fn:
                self.generic_visit(node)

    V().visit(copy.deepcopy(fn) if False else fn)
    for k, name in enumerate(seen):
        m[name] = f"v{k}"
    return m


def _class_attrs(cls_node, roles):
    """Private attributes of a class without a role, numbered by their first assignment (`__init__` first): name -> A<k>."""
    order = []
    fns = [n for n in cls_node.body if isinstance(n, ast.FunctionDef)]
    fns.sort(key=lambda f: f.name != "__init__")
    for f in fns:
        class V(ast.NodeVisitor):
            def visit_Attribute(self, node):
                self.generic_visit(node)
                if isinstance(node.ctx, ast.Store) and isinstance(node.value, ast.Name) and node.value.id == "self" \
                        and node.attr.startswith("_") and node.attr not in roles and node.attr not in order:
                    order.append(node.attr)
        V().visit(f)
    return {a: f"A{k}" for k, a in enumerate(order)}


def _norm(node, fn, roles, cls_node=None):
    """`ast.unparse` of a node with locals / parameters renamed positionally and private attributes replaced by their roles
    (or, inside a class, by their position among the class's own private attributes)."""
    import copy
    amap = dict(_class_attrs(cls_node, roles), **roles) if cls_node is not None else roles
    return ast.unparse(ast.fix_missing_locations(_Renamer(_locals_in_order(fn), amap).visit(copy.deepcopy(node))))


def discover_roles(src_root):
    """Private attribute names by what they are used for (so that a rename of `_exec_dir`, `_process`, … changes nothing)."""
    app = os.path.join(src_root, "biotite", "application")

    def cls(rel, name):
        t = ast.parse(open(os.path.join(app, rel)).read())
        c = next((n for n in t.body if isinstance(n, ast.ClassDef) and n.name == name), None)
        if c is None:
            raise ValueError(f"class {name} not found")
        return c

    def fn(c, name):
        f = next((n for n in c.body if isinstance(n, ast.FunctionDef) and n.name == name), None)
        if f is None:
            raise ValueError(f"{c.name}.{name} not found")
        return f

    def self_attr(node):
        return node.attr if (isinstance(node, ast.Attribute) and isinstance(node.value, ast.Name) and node.value.id == "self") else None

    def assigned(f, value_pred):
        for n in ast.walk(f):
            if isinstance(n, ast.Assign) and len(n.targets) == 1 and self_attr(n.targets[0]) and value_pred(n.value):
                return self_attr(n.targets[0])
        return None

    def first_store(f):
        for n in f.body:
            for t in ([n.target] if isinstance(n, ast.AugAssign) else n.targets if isinstance(n, ast.Assign) else []):
                if self_attr(t):
                    return self_attr(t)
        return None

    A, L, M = cls("application.py", "Application"), cls("localapp.py", "LocalApp"), cls("msaapp.py", "MSAApp")
    roles = {}

    def put(attr, role, what):
        if attr is None:
            raise ValueError(f"cannot find the private attribute that {what}")
        roles[attr] = role

    put(assigned(fn(A, "__init__"), lambda v: ast.unparse(v) == "AppState.CREATED"), "STATE", "holds the AppState")
    put(assigned(fn(A, "start"), lambda v: ast.unparse(v) == "time.time()"), "START_TIME", "holds the start time")
    run = fn(L, "run")
    put(assigned(run, lambda v: isinstance(v, ast.Call) and ast.unparse(v.func) == "Popen"), "PROCESS", "holds the Popen object")
    popen = next((n for n in ast.walk(run) if isinstance(n, ast.Call) and ast.unparse(n.func) == "Popen"), None)
    put(self_attr(popen.args[0]) if popen.args else None, "COMMAND", "is passed to Popen as the command")
    put(next((self_attr(k.value) for k in popen.keywords if k.arg == "stdin"), None), "STDIN", "is passed to Popen as stdin")
    init = fn(L, "__init__")
    params = [a.arg for a in init.args.args if a.arg != "self"]
    put(assigned(init, lambda v: isinstance(v, ast.Name) and params and v.id == params[0]), "BIN_PATH", "stores the bin_path parameter")
    put(first_store(fn(L, "set_arguments")), "ARGUMENTS", "set_arguments() stores")
    def mentioned(f):
        return next((self_attr(n) for n in ast.walk(f) if self_attr(n) and n.attr.startswith("_")), None)
    put(first_store(fn(L, "add_additional_options")) or mentioned(fn(L, "add_additional_options")), "OPTIONS",
        "add_additional_options() extends")
    put(first_store(fn(L, "set_exec_dir")), "EXEC_DIR", "set_exec_dir() stores")
    if roles.get(first_store(fn(L, "set_stdin"))) != "STDIN":
        raise ValueError("set_stdin() does not store the attribute that is passed to Popen as stdin")
    minit = fn(M, "__init__")
    mparams = [a.arg for a in minit.args.args if a.arg != "self"]
    seqattr = None
    for n in minit.body:
        if isinstance(n, ast.Assign) and self_attr(n.targets[0]) and isinstance(n.value, ast.Name) and n.value.id == mparams[0]:
            seqattr = self_attr(n.targets[0])
    put(seqattr, "SEQUENCES", "stores the sequences parameter")

    def returned(f):
        r = next((n for n in f.body if isinstance(n, ast.Return)), None)
        return self_attr(r.value) if r is not None else None
    put(returned(fn(M, "get_alignment")), "ALIGNMENT", "get_alignment() returns")
    put(returned(fn(M, "get_alignment_order")), "ORDER", "get_alignment_order() returns")
    put(returned(fn(L, "get_stdout")), "STDOUT", "get_stdout() returns")
    put(returned(fn(L, "get_stderr")), "STDERR", "get_stderr() returns")
    return roles


_ROLE_CACHE = {}


def private_name(role, default):
    """Current name of a private attribute the adapter has to read (`_state`, `_process`), found structurally in the source."""
    from common import paths
    if paths.SRC not in _ROLE_CACHE:
        try:
            _ROLE_CACHE[paths.SRC] = {v: k for k, v in discover_roles(paths.SRC).items()}
        except Exception:  # noqa: BLE001
            _ROLE_CACHE[paths.SRC] = {}
    return _ROLE_CACHE[paths.SRC].get(role, default)


def extract_facts(src_root):
    """Literals and structural facts of the anchored source the hand-written model hard-codes, as an ordered list of
    (key, value) strings.  Found structurally (Python `ast`): locals and parameters are renamed positionally, private
    attributes are written as the role they play, private helper methods are looked through, messages / docstrings /
    formatting never matter; a construct that cannot be found raises (a broken tie, never a guess)."""
    app = os.path.join(src_root, "biotite", "application")
    roles = discover_roles(src_root)

    def parse(rel):
        return ast.parse(open(os.path.join(app, rel)).read())

    def cls_of(tree, name):
        c = next((n for n in tree.body if isinstance(n, ast.ClassDef) and n.name == name), None)
        if c is None:
            raise ValueError(f"class {name} not found")
        return c

    def fn_of(node, name):
        f = next((n for n in node.body if isinstance(n, ast.FunctionDef) and n.name == name), None)
        if f is None:
            raise ValueError(f"function {name} not found in {getattr(node, 'name', 'module')}")
        return f

    def u(node):
        return ast.unparse(node)

    def defaults(fn):
        a = fn.args
        pos = a.posonlyargs + a.args
        out = [f"{arg.arg}={u(d)}" for arg, d in zip(pos[len(pos) - len(a.defaults):], a.defaults)]
        out += [f"{arg.arg}={u(d)}" for arg, d in zip(a.kwonlyargs, a.kw_defaults) if d is not None]
        return ",".join(out)

    def conds(fn, is_target, what):
        c = _path_conditions(fn.body, is_target)
        if c is None:
            raise ValueError(f"{what}: statement not found")
        return " & ".join(sorted(_norm(x, fn, roles) for x in c))

    def exc_of(node):
        r = next((r for r in ast.walk(node) if isinstance(r, ast.Raise) and r.exc is not None), None)
        return u(r.exc.func if isinstance(r.exc, ast.Call) else r.exc) if r is not None else "?"

    def inline_helpers(c, expr):
        """`self._helper()` -> the expression that private zero-argument helper returns."""
        if isinstance(expr, ast.Call) and isinstance(expr.func, ast.Attribute) and isinstance(expr.func.value, ast.Name) \
                and expr.func.value.id == "self" and expr.func.attr.startswith("_") and not expr.args and not expr.keywords:
            h = next((n for n in c.body if isinstance(n, ast.FunctionDef) and n.name == expr.func.attr), None)
            rets = [n for n in ast.walk(h) if isinstance(n, ast.Return)] if h is not None else []
            if len(rets) == 1 and rets[0].value is not None:
                return rets[0].value, h
        return expr, None

    def raises_in_order(c, f, depth=0):
        """Exception classes raised in source order, looking through private helpers of the same class."""
        out = []
        for n in ast.walk(ast.Module(body=f.body, type_ignores=[])) if False else _ordered(f):
            if isinstance(n, ast.Raise) and n.exc is not None:
                out.append(u(n.exc.func if isinstance(n.exc, ast.Call) else n.exc))
            elif isinstance(n, ast.Call) and isinstance(n.func, ast.Attribute) and isinstance(n.func.value, ast.Name) \
                    and n.func.value.id in ("self", "cls") and n.func.attr.startswith("_") and not n.func.attr.startswith("__") and depth < 2:
                h = next((x for x in c.body if isinstance(x, ast.FunctionDef) and x.name == n.func.attr), None)
                if h is not None:
                    out += raises_in_order(c, h, depth + 1)
        return out

    def _ordered(f):
        res = []

        class V(ast.NodeVisitor):
            def generic_visit(self, node):
                res.append(node)
                super().generic_visit(node)
        for st in f.body:
            V().visit(st)
        return res

    facts = []
    add = lambda k, v: facts.append((k, str(v)))     # noqa: E731

    # ---- application.py
    t = parse("application.py")
    enum = cls_of(t, "AppState")
    add("AppState.members", ",".join(n.targets[0].id for n in enum.body if isinstance(n, ast.Assign)))
    for exc in ("AppStateError", "TimeoutError", "VersionError"):
        add(f"{exc}.bases", ",".join(u(b) for b in cls_of(t, exc).bases))
    A = cls_of(t, "Application")
    join = fn_of(A, "join")
    add("Application.join.defaults", defaults(join))
    is_cancel = lambda st: isinstance(st, ast.Expr) and u(st.value) == "self.cancel()"     # noqa: E731
    add("Application.join.cancels-when", conds(join, is_cancel, "Application.join: self.cancel()"))
    add("Application.join.then-raises", exc_of(next(st for st in _ordered(join) if isinstance(st, ast.Raise) and st.exc is not None)))
    gas = fn_of(A, "get_app_state")
    is_fin = lambda st: isinstance(st, ast.Assign) and u(st.value) == "AppState.FINISHED"     # noqa: E731
    add("Application.get_app_state.finished-when", conds(gas, is_fin, "get_app_state: assignment of FINISHED"))
    dec = fn_of(t, "requires_state")
    wrapper = next((n for n in ast.walk(dec) if isinstance(n, ast.FunctionDef) and n is not dec
                    and any(isinstance(r, ast.Raise) for r in ast.walk(n))
                    and not any(isinstance(x, ast.FunctionDef) for st in n.body for x in ast.walk(st))), None)
    if wrapper is None:
        raise ValueError("requires_state: inner wrapper not found")
    is_state_err = lambda st: isinstance(st, ast.Raise) and st.exc is not None and "AppStateError" in u(st.exc)[:14]     # noqa: E731
    c = _path_conditions(wrapper.body, is_state_err)
    if c is None:
        raise ValueError("requires_state: raise AppStateError not found")
    # (only the conditions on the state: whether a missing `self` is detected by try/except or by a length test is immaterial)
    add("requires_state.refuses-when", " & ".join(sorted(x for x in (_norm(y, wrapper, roles) for y in c) if ".STATE" in x)))

    # ---- localapp.py
    t = parse("localapp.py")
    L = cls_of(t, "LocalApp")
    inv = {v: k for k, v in roles.items()}
    add("LocalApp.__init__.exec_dir", next((u(n.value) for n in ast.walk(fn_of(L, "__init__")) if isinstance(n, ast.Assign)
                                            and u(n.targets[0]) == "self." + inv["EXEC_DIR"]), "?"))
    run = fn_of(L, "run")
    first = run.body[0]
    if not (isinstance(first, ast.Assign) and u(first.value) == "getcwd()" and isinstance(first.targets[0], ast.Name)):
        raise ValueError("LocalApp.run: does not start with `<local> = getcwd()`")
    saved = first.targets[0].id
    tr = next((n for n in run.body if isinstance(n, ast.Try)), None)
    if tr is None or not tr.finalbody:
        raise ValueError("LocalApp.run: try/finally not found")
    fin = [u(n) for n in tr.finalbody]
    add("LocalApp.run.restores", "the directory read at entry" if fin == [f"chdir({saved})"] else "; ".join(_norm(n, run, roles) for n in tr.finalbody))
    add("LocalApp.run.chdir-to", next((_norm(n.value.args[0], run, roles) for n in run.body if isinstance(n, ast.Expr)
                                      and isinstance(n.value, ast.Call) and u(n.value.func) == "chdir"), "?"))
    cmd = next((n.value for n in ast.walk(run) if isinstance(n, ast.Assign) and u(n.targets[0]) == "self." + inv["COMMAND"]), None)
    if cmd is None:
        raise ValueError("LocalApp.run: the command is not assigned")
    cmd, helper = inline_helpers(L, cmd)
    add("LocalApp.run.command", _norm(cmd, helper or run, roles))
    lj = fn_of(L, "join")
    add("LocalApp.join.defaults", defaults(lj))
    add("LocalApp.join.process-calls", " / ".join(_norm(n, lj, roles) for n in _ordered(lj) if isinstance(n, ast.Call)
                                                 and isinstance(n.func, ast.Attribute) and n.func.attr in ("communicate", "wait", "poll")))
    ev = fn_of(L, "evaluate")
    is_raise = lambda st: isinstance(st, ast.Raise) and st.exc is not None     # noqa: E731
    c = _path_conditions(ev.body, is_raise)
    if c is None or len(c) != 1 or not (isinstance(c[0], ast.Compare) and len(c[0].ops) == 1 and isinstance(c[0].comparators[0], ast.Constant)):
        raise ValueError("LocalApp.evaluate: the raise is not governed by exactly one `<exit code> <op> <constant>`")
    add("LocalApp.evaluate.fail-op", type(c[0].ops[0]).__name__)
    add("LocalApp.evaluate.fail-const", u(c[0].comparators[0]))
    add("LocalApp.evaluate.raises", exc_of(next(st for st in _ordered(ev) if is_raise(st))))
    cu = fn_of(L, "clean_up")
    is_kill = lambda st: isinstance(st, ast.Expr) and isinstance(st.value, ast.Call) and isinstance(st.value.func, ast.Attribute) \
        and roles.get(getattr(st.value.func.value, "attr", None)) == "PROCESS"     # noqa: E731
    add("LocalApp.clean_up.when", conds(cu, is_kill, "LocalApp.clean_up: call on the process"))
    add("LocalApp.clean_up.action", next(_norm(st, cu, roles) for st in _ordered(cu) if is_kill(st)))
    isf = fn_of(L, "is_finished")
    add("LocalApp.is_finished.calls", " / ".join(_norm(n, isf, roles) for n in _ordered(isf) if isinstance(n, ast.Call)
                                                and isinstance(n.func, ast.Attribute) and roles.get(getattr(n.func.value, "attr", None)) == "PROCESS"))
    add("get_version.defaults", defaults(fn_of(t, "get_version")))
    ct = fn_of(t, "cleanup_tempfile")
    add("cleanup_tempfile.tolerates", ",".join([u(h.type) for n in ast.walk(ct) if isinstance(n, ast.Try) for h in n.handlers]
                                               + [u(a) for n in ast.walk(ct) if isinstance(n, ast.With) for it in n.items
                                                  if isinstance(it.context_expr, ast.Call) and u(it.context_expr.func) == "suppress"
                                                  for a in it.context_expr.args]))
    imported = sorted(a.name for n in t.body if isinstance(n, ast.ImportFrom) and n.module == "biotite.application.application" for a in n.names)
    add("localapp.imports-from-application", ",".join(imported))

    # ---- msaapp.py
    t = parse("msaapp.py")
    M = cls_of(t, "MSAApp")
    init = fn_of(M, "__init__")
    add("MSAApp.__init__.defaults", defaults(init))
    first_if = next((n for n in init.body if isinstance(n, ast.If)), None)
    if not (first_if is not None and isinstance(first_if.test, ast.Compare) and len(first_if.test.ops) == 1):
        raise ValueError("MSAApp.__init__: first check is not a comparison")
    add("MSAApp.__init__.first-check", _norm(first_if.test.left, init, roles) + " " + type(first_if.test.ops[0]).__name__ + " " + u(first_if.test.comparators[0]))
    add("MSAApp.__init__.raises-in-order", ",".join(raises_in_order(M, init)))
    add("MSAApp.__init__.tempfile-suffixes", ",".join(next((u(k.value) for k in n.keywords if k.arg == "suffix"), "?")
                                                     for n in _ordered(init) if isinstance(n, ast.Call) and u(n.func) == "NamedTemporaryFile"))
    ev = fn_of(M, "evaluate")
    row_loop = next((n for n in ev.body if isinstance(n, ast.For) and any(
        isinstance(x, ast.Assign) and isinstance(x.targets[0], ast.Subscript) and isinstance(x.value, ast.Subscript) for x in n.body)), None)
    if row_loop is None:
        raise ValueError("MSAApp.evaluate: the loop that picks the rows by index is not found")
    add("MSAApp.evaluate.row-loop", f"for {_norm(row_loop.target, ev, roles)} in {_norm(row_loop.iter, ev, roles)}")
    add("MSAApp.evaluate.row-lookup", next(_norm(n, ev, roles) for n in row_loop.body if isinstance(n, ast.Assign)
                                           and isinstance(n.targets[0], ast.Subscript) and isinstance(n.value, ast.Subscript)))
    # the per-row symbol-count check: inside the row loop, `<symbols of row i> != len(<sequences>[i])`, ValueError
    lif = [n for n in row_loop.body if isinstance(n, ast.If) and isinstance(n.test, ast.Compare) and len(n.test.ops) == 1]
    if len(lif) == 1:
        env = {x.targets[0].id: x.value for x in row_loop.body if isinstance(x, ast.Assign) and isinstance(x.targets[0], ast.Name)}
        sides = [env.get(sd.id, sd) if isinstance(sd, ast.Name) else sd for sd in (lif[0].test.left, lif[0].test.comparators[0])]
        txt = [_norm(sd, ev, roles) for sd in sides]
        counts = any(("replace('-', '')" in x or "count('-')" in x) for x in txt)
        against = any(x.startswith("len(self.SEQUENCES[") for x in txt)
        add("MSAApp.evaluate.length-check-in-loop", f"symbols of the row {type(lif[0].test.ops[0]).__name__} len(input)"
            if counts and against else " vs ".join(txt))
        add("MSAApp.evaluate.length-check-raises", exc_of(lif[0]))
    else:
        add("MSAApp.evaluate.length-check-in-loop", "MISSING")
        add("MSAApp.evaluate.length-check-raises", "?")
    # the order: element j of the ORDER attribute is int(j-th key of the dict of records) — loop or comprehension
    order_ok = "?"
    for n in _ordered(ev):
        if isinstance(n, ast.For) and isinstance(n.iter, ast.Call) and u(n.iter.func) == "enumerate" and isinstance(n.target, ast.Tuple):
            idx, key = (e.id for e in n.target.elts)
            for x in n.body:
                if isinstance(x, ast.Assign) and isinstance(x.targets[0], ast.Subscript) and roles.get(getattr(x.targets[0].value, "attr", None)) == "ORDER":
                    order_ok = ("order[j] = int(key j)" if (u(x.targets[0].slice) == idx and u(x.value) == f"int({key})")
                                else _norm(x, ev, roles)) + " over " + _norm(n.iter.args[0], ev, roles)
        if isinstance(n, ast.Assign) and roles.get(getattr(n.targets[0], "attr", None)) == "ORDER":
            comp = next((c for c in ast.walk(n.value) if isinstance(c, ast.ListComp)), None)
            if comp is not None and len(comp.generators) == 1 and isinstance(comp.generators[0].target, ast.Name):
                key = comp.generators[0].target.id
                order_ok = ("order[j] = int(key j)" if u(comp.elt) == f"int({key})" else _norm(comp, ev, roles)) \
                    + " over " + _norm(comp.generators[0].iter, ev, roles)
    add("MSAApp.evaluate.order", order_ok)
    add("MSAApp.evaluate.rows-size", next((_norm(n.value, ev, roles) for n in ev.body if isinstance(n, ast.Assign) and isinstance(n.value, ast.BinOp)
                                           and isinstance(n.value.left, ast.List)), "?"))
    mrun = fn_of(M, "run")
    add("MSAApp.run.names", next((_norm(n, mrun, roles) for n in _ordered(mrun) if isinstance(n, ast.Assign) and isinstance(n.targets[0], ast.Subscript)
                                  and isinstance(n.value, ast.Call) and u(n.value.func) == "str"), "?"))
    add("MSAApp.align.defaults", defaults(fn_of(M, "align")))
    al = fn_of(M, "align")
    add("MSAApp.align.steps", " / ".join(n.func.attr for n in _ordered(al) if isinstance(n, ast.Call) and isinstance(n.func, ast.Attribute)
                                         and n.func.attr in ("start", "join", "cancel", "get_alignment")))
    add("MSAApp.get_matrix_file_path", "None unless a matrix was given" if any(
        isinstance(n, ast.IfExp) and u(n.orelse) == "None" and "is not None" in u(n.test) for n in ast.walk(fn_of(M, "get_matrix_file_path")))
        else u(fn_of(M, "get_matrix_file_path").body[-1]))

    # ---- the four MSA wrappers + tantan: defaults, option strings of the command line, version checks, evaluate guards
    def str_consts(fn):
        seen = []
        for n in ast.walk(fn):
            if isinstance(n, ast.Constant) and isinstance(n.value, str) and n.value.startswith("-") and n.value not in seen:
                seen.append(n.value)
        return ",".join(sorted(seen))
    for rel, cname in (("clustalo/app.py", "ClustalOmegaApp"), ("muscle/app3.py", "MuscleApp"), ("muscle/app5.py", "Muscle5App"),
                       ("mafft/app.py", "MafftApp"), ("tantan/app.py", "TantanApp")):
        t = parse(rel)
        C = cls_of(t, cname)
        add(f"{cname}.__init__.defaults", defaults(fn_of(C, "__init__")))
        add(f"{cname}.run.options", str_consts(fn_of(C, "run")))
        if cname in ("MuscleApp", "Muscle5App"):
            i = fn_of(C, "__init__")
            probe = next((n for n in _ordered(i) if isinstance(n, ast.Call) and u(n.func) == "get_version"), None)
            if probe is None:
                raise ValueError(f"{cname}.__init__: get_version(...) not called")
            add(f"{cname}.version-probe", "get_version(" + ", ".join(_norm(a, i, roles) for a in probe.args) + ")")
            vif = next((n for n in i.body if isinstance(n, ast.If)), None)
            if not (vif is not None and isinstance(vif.test, ast.Compare) and len(vif.test.ops) == 1):
                raise ValueError(f"{cname}.__init__: version test not found")
            add(f"{cname}.version-test", type(vif.test.ops[0]).__name__ + " " + u(vif.test.comparators[0]))
            add(f"{cname}.version-raises", exc_of(vif))
            sup = next((k for k, n in enumerate(i.body) if "super().__init__" in u(n)), None)
            add(f"{cname}.version-before-super", str(sup is not None and sup > i.body.index(vif)))
        if cname == "ClustalOmegaApp":
            cev = fn_of(C, "evaluate")
            add("ClustalOmegaApp.evaluate.tests", " / ".join(_norm(n.test, cev, roles, C) for n in cev.body if isinstance(n, ast.If)))
            add("ClustalOmegaApp.evaluate.distmat", next((u(n.func) + " skiprows=" + next((u(k.value) for k in n.keywords if k.arg == "skiprows"), "?")
                                                         for n in _ordered(cev) if isinstance(n, ast.Call) and "loadtxt" in u(n.func)), "?"))
            add("ClustalOmegaApp.evaluate.distmat-columns", next((u(n.slice) for n in _ordered(cev) if isinstance(n, ast.Subscript)
                                                                 and isinstance(n.slice, ast.Tuple)), "?"))
            gdm, crun = fn_of(C, "get_distance_matrix"), fn_of(C, "run")
            add("ClustalOmegaApp.get_distance_matrix.test", " / ".join(_norm(n.test, gdm, roles, C) for n in gdm.body if isinstance(n, ast.If)))
            add("ClustalOmegaApp.run.tests", " / ".join(_norm(n.test, crun, roles, C) for n in _ordered(crun) if isinstance(n, (ast.If, ast.IfExp))))
            sup = next((n for n in _ordered(fn_of(C, "__init__")) if isinstance(n, ast.Call) and u(n.func) == "super().__init__"), None)
            add("ClustalOmegaApp.super-matrix", u(sup.args[-1]) if sup is not None and sup.args else "?")
        if cname == "MuscleApp":
            g = fn_of(C, "set_gap_penalty")
            top = [n for n in g.body if isinstance(n, ast.If)]
            if len(top) != 1:
                raise ValueError("MuscleApp.set_gap_penalty: unexpected shape")
            branches = []
            node = top[0]
            while isinstance(node, ast.If):
                body = node.body
                kinds = ["check" if isinstance(b, ast.If) else "store" if isinstance(b, ast.Assign) else type(b).__name__.lower() for b in body]
                tests = [_norm(b.test, g, roles) for b in body if isinstance(b, ast.If)]
                branches.append(f"[{_norm(node.test, g, roles)}] " + ",".join(kinds) + " | " + " ; ".join(tests))
                node = node.orelse[0] if len(node.orelse) == 1 and isinstance(node.orelse[0], ast.If) else None
            add("MuscleApp.set_gap_penalty.branches", " || ".join(branches))
            gt = fn_of(C, "get_guide_tree")
            add("MuscleApp.get_guide_tree.defaults", defaults(gt))
            add("MuscleApp.get_guide_tree.tests", " / ".join(_norm(n.test, gt, roles, C) + "->" + _norm(n.body[0], gt, roles, C)
                                                             for n in ast.walk(gt) if isinstance(n, ast.If)))
            add("MuscleApp.run.gap-format", ",".join(sorted({v.format_spec.values[0].value for n in ast.walk(fn_of(C, "run")) if isinstance(n, ast.JoinedStr)
                                                              for v in n.values if isinstance(v, ast.FormattedValue) and v.format_spec is not None})))
            add("MuscleApp.align.defaults", defaults(fn_of(C, "align")))
        if cname == "Muscle5App":
            add("Muscle5App.align.defaults", defaults(fn_of(C, "align")))
        if cname == "MafftApp":
            pat = next((n.value.args[0].value for n in t.body if isinstance(n, ast.Assign) and isinstance(n.value, ast.Call)
                        and u(n.value.func) == "re.compile" and n.value.args and isinstance(n.value.args[0], ast.Constant)), None)
            if pat is None:
                raise ValueError("mafft/app.py: module-level re.compile(<literal>) not found")
            add("MafftApp.prefix-pattern", pat)
            add("MafftApp.tree-file", next((u(n.value) for n in _ordered(fn_of(C, "__init__")) if isinstance(n, ast.Assign)
                                           and isinstance(n.value, ast.BinOp) and ".tree" in u(n.value)), "?"))
            mev = fn_of(C, "evaluate")
            first_super = next((k for k, n in enumerate(mev.body) if "super().evaluate()" in u(n)), None)
            add("MafftApp.evaluate.writes-stdout-before-super", str(first_super is not None and any(
                "get_stdout()" in u(n) and ".write(" in u(n) for n in mev.body[:first_super])))
        if cname == "TantanApp":
            add("TantanApp.matrix-file-created", next((u(n.test) for n in fn_of(C, "__init__").body if isinstance(n, ast.If)
                                                      and "NamedTemporaryFile" in u(n)), "?"))

    # ---- webapp.py / blast: wait_interval, obey_rules default
    t = parse("webapp.py")
    W = cls_of(t, "WebApp")
    add("WebApp.__init__.defaults", defaults(fn_of(W, "__init__")))
    add("RuleViolationError.bases", ",".join(u(b) for b in cls_of(t, "RuleViolationError").bases))
    t = parse("blast/webapp.py")
    B = cls_of(t, "BlastWebApp")
    add("BlastWebApp.wait_interval", next((u(n.value) for n in fn_of(B, "wait_interval").body if isinstance(n, ast.Return)), "?"))
    add("BlastWebApp.__init__.defaults", defaults(fn_of(B, "__init__")))
    order = [u(n.func) for n in _ordered(fn_of(B, "run")) if isinstance(n, ast.Call) and u(n.func) in ("requests.get", "self._contact", "self._request")]
    add("BlastWebApp.run.order", ",".join(order))
    add("BlastWebApp.is_finished.order", ",".join(u(n.func) for n in _ordered(fn_of(B, "is_finished")) if isinstance(n, ast.Call)
                                                  and u(n.func) in ("requests.get", "self._contact")))
    # ---- util.py
    t = parse("util.py")
    mm = fn_of(t, "map_matrix")
    add("map_matrix.none-test", next((_norm(n.test, mm, roles) + "->" + exc_of(n) for n in mm.body if isinstance(n, ast.If)), "?"))
    corner = next((n for n in mm.body if isinstance(n, ast.Assign) and isinstance(n.targets[0], ast.Subscript)), None)
    if corner is None:
        raise ValueError("map_matrix: assignment of the old scores not found")
    sl = corner.targets[0].slice
    square = (isinstance(sl, ast.Tuple) and len(sl.elts) == 2 and all(isinstance(e, ast.Slice) and e.lower is None and e.upper is not None
                                                                      for e in sl.elts) and u(sl.elts[0].upper) == u(sl.elts[1].upper))
    add("map_matrix.corner", ("upper-left square = " + _norm(corner.value, mm, roles)) if square else _norm(corner, mm, roles))
    return facts


def _lean_str(s):
    return '"' + s.replace("\\", "\\\\").replace('"', '\\"') + '"'


def _guard(facts, key, key_const=None):
    d = dict(facts)
    if key_const is not None:
        op, const = d[key], d[key_const]
    else:
        op, const = d[key].split()[-2:]
    if op not in ("NotEq", "Eq", "Lt", "LtE", "Gt", "GtE") or not const.lstrip("-").isdigit():
        raise ValueError(f"{key}: not `<op> <integer>`: {d[key]!r}")
    return f"({_lean_str(op)}, ({const} : Int))"


def _lean_list(xs):
    return "[" + ", ".join(xs) + "]"


def gen_lean():
    from common import paths
    classes, polls = extract_tables(paths.SRC)
    web_consts, web_rules, web_guarded = extract_web_rules(paths.SRC)
    map_letters, map_op, map_code = extract_mapping(paths.SRC)
    facts = extract_facts(paths.SRC)
    L = ["/- REGENERATED on every run by harness/props/c20.py from src/biotite/application/*.py. Do not edit. -/",
         "namespace BiotiteModel.Gen.C20",
         "/-- (class, direct bases). -/",
         "def bases : List (String × List String) := " + _lean_list(
             f"({_lean_str(c)}, {_lean_list(_lean_str(b) for b in i['bases'])})" for c, i in sorted(classes.items())),
         "/-- Every public method defined in an anchored class: (class, method, `@requires_state` guard or none). -/",
         "def methods : List (String × String × Option (List String)) := " + _lean_list(
             f"({_lean_str(c)}, {_lean_str(m)}, " + ("none" if g is None else "some " + _lean_list(_lean_str(s) for s in g)) + ")"
             for c, i in sorted(classes.items()) for m, g in sorted(i["methods"].items()) if not m.startswith("_")),
         "/-- `self._state = AppState.X` assignments per method, in source order. -/",
         "def assigns : List (String × String × List String) := " + _lean_list(
             f"({_lean_str(c)}, {_lean_str(m)}, {_lean_list(_lean_str(s) for s in a)})"
             for c, i in sorted(classes.items()) for m, a in sorted(i["assigns"].items())),
         "/-- Life-cycle skeleton (try/handler/else blocks, state assignments, clean_up/cancel/evaluate/kill calls, raises). -/",
         "def skeleton : List (String × String × List String) := " + _lean_list(
             f"({_lean_str(c)}, {_lean_str(m)}, {_lean_list(_lean_str(s) for s in ev)})"
             for c, i in sorted(classes.items()) for m, ev in sorted(i["skeleton"].items())),
         "/-- Public methods a class calls on `self` inside run / evaluate / clean_up / is_finished: (class, context, callee). -/",
         "def internalCalls : List (String × String × String) := " + _lean_list(
             f"({_lean_str(c)}, {_lean_str(m)}, {_lean_str(x)})"
             for c, i in sorted(classes.items()) for m, xs in sorted(i["calls"].items()) for x in xs),
         "/-- Number of `NamedTemporaryFile(...)` calls in `__init__`, per class. -/",
         "def tempFilesCreated : List (String × Nat) := " + _lean_list(
             f"({_lean_str(c)}, {i['tempfiles']})" for c, i in sorted(classes.items())),
         "/-- BlastWebApp rule layer: delays (class attributes), per rule function (name, comparison operator of",
         "`now - last <op> delay`, violate_rule() called before the stamp is overwritten), violate_rule raises iff _obey_rules. -/",
         "def webContactDelay : Nat := " + str(web_consts["_contact_delay"]),
         "def webRequestDelay : Nat := " + str(web_consts["_request_delay"]),
         "def webInitialStamps : List Nat := " + _lean_list([str(web_consts["_last_contact"]), str(web_consts["_last_request"])]),
         "def webRules : List (String × String × Bool) := " + _lean_list(
             f"({_lean_str(a)}, {_lean_str(b)}, {'true' if c else 'false'})" for a, b, c in web_rules),
         "def webViolateOnlyIfObey : Bool := " + ("true" if web_guarded else "false"),
         "/-- Exotic sequence types: `ProteinSequence.alphabet` (seqtypes.py), the operator of map_sequence's size test",
         "`len(sequence.alphabet) <op> len(ProteinSequence.alphabet)` → TypeError, and that the code is taken over unchanged. -/",
         "def proteinAlphabet : List Char := " + _lean_list("'" + ("\\'" if c == "'" else c) + "'" for c in map_letters),
         "def mapSequenceRejectOp : String := " + _lean_str(map_op),
         "def mapSequenceTakesCodeOver : Bool := " + ("true" if map_code else "false"),
         "/-- Literals and structural facts of the anchored source that the hand-written model hard-codes (key, value). -/",
         "def facts : List (String × String) := " + _lean_list(f"({_lean_str(k)}, {_lean_str(v)})" for k, v in facts),
         "/-- Guards of the form `<quantity> <op> <integer constant>` as (operator, constant): the exit-code test of",
         "`LocalApp.evaluate`, the minimum number of sequences of `MSAApp.__init__`, the version tests of MUSCLE 3 / 5. -/",
         "def exitFailTest : String × Int := " + _guard(facts, "LocalApp.evaluate.fail-op", "LocalApp.evaluate.fail-const"),
         "def minSequencesTest : String × Int := " + _guard(facts, "MSAApp.__init__.first-check"),
         "def muscle3VersionRefused : String × Int := " + _guard(facts, "MuscleApp.version-test"),
         "def muscle5VersionRefused : String × Int := " + _guard(facts, "Muscle5App.version-test"),
         "/-- Does the refusal branch of `requires_state` call `get_app_state()` / `is_finished()` (a side effect)? -/",
         "def refusalPolls : Bool := " + ("true" if polls else "false"),
         "end BiotiteModel.Gen.C20", ""]
    return {"BiotiteModel/Gen/C20.lean": "\n".join(L)}


# ---------------------------------------------------------------- implementation adapter
def _state_of(app):
    """The wrapper's AppState flag; the attribute's current name is taken from the source (role STATE)."""
    return getattr(app, private_name("STATE", "_state"))


def _proc_of(app):
    """The wrapper's Popen object, if any (role PROCESS)."""
    return getattr(app, private_name("PROCESS", "_process"), None)


def _proc_state(pid):
    """'alive' | 'dead' (zombie or gone)."""
    try:
        with open(f"/proc/{pid}/stat") as f:
            st = f.read().rsplit(")", 1)[1].split()[0]
    except OSError:
        return "dead"
    return "dead" if st in ("Z", "X") else "alive"


class _Session:
    """One wrapper instance + its sandbox (temp dir, gate, log) + resource observation."""

    def __init__(self, wrapper, tool, nseq, seqkind):
        self.wrapper, self.tool, self.nseq, self.seqkind = wrapper, tool, nseq, seqkind
        self.root = tempfile.mkdtemp(prefix="C20-")
        self.tmpdir = os.path.join(self.root, "tmp")
        self.execdir = os.path.join(self.root, "exec")
        os.mkdir(self.tmpdir)
        os.mkdir(self.execdir)
        self.otherdir = os.path.join(self.root, "caller2")     # where the caller goes on `chdir`
        os.mkdir(self.otherdir)
        self.gate = os.path.join(self.root, "gate")
        self.log = os.path.join(self.root, "log")
        self.cwd0 = os.getcwd()
        self.caller_cwd = self.cwd0                             # the directory the caller is in *now*
        self.old_tempdir = tempfile.tempdir
        self.old_env = {k: os.environ.get(k) for k in ("C20_GATE", "C20_LOG", "C20_VERSION")}
        tempfile.tempdir = self.tmpdir
        os.environ["C20_GATE"] = self.gate
        os.environ["C20_LOG"] = self.log
        os.environ["C20_VERSION"] = "5.1" if wrapper == "muscle5" else "3.8.31"
        self.app = None
        self.timers = []
        self.trace = []       # per op: dict(op, result, before, after)
        self.sequences = None
        self.stub_child = "none"
        self.force_finish = False     # watchdog: unblock a join() of the stub that would wait forever
        self.run_divergence = False   # set for `divergence` cases: really call a join() that must block
        self.frozen = None
        self.last_exc = None          # class name of the last exception a call raised
        self._spell_i = nseq + len(tool) + len(wrapper)      # rotates the spelling of scalar / array arguments (deterministic)

    # -- construction
    def alphabet_size(self):
        """`generic` = a custom alphabet of 3 symbols, `generic<K>` of K symbols."""
        return int(self.seqkind[7:] or 3)

    def _sequences(self):
        from biotite.sequence import Alphabet, GeneralSequence, NucleotideSequence, ProteinSequence
        if self.seqkind.startswith("generic"):
            k = self.alphabet_size()
            alph = Alphabet([f"s{c}" for c in range(k)])
            seqs = []
            for i in range(self.nseq):
                n = 3 + (i * 2 + self.nseq) % 4
                codes = [(i * 7 + j * (i + 1) + j * j + self.nseq) % k for j in range(n)]
                if i == 0:
                    codes[0] = k - 1            # the last symbol of the alphabet does occur
                seqs.append(GeneralSequence(alph, [f"s{c}" for c in codes]))
            return seqs
        pools = {"prot": "ACDEFGHIKLMNPQRSTVWY", "nuc": "ACGT"}
        pool = pools["prot" if self.seqkind.startswith("prot") else self.seqkind]
        seqs = []
        for i in range(self.nseq):
            n = 3 + (i * 2 + self.nseq) % 4
            if self.seqkind == "protlong":
                n = 90 + 57 * i                         # longer than a FASTA line (80) and than a pipe-friendly size
            if self.seqkind == "protempty" and i == 1:
                n = 0                                   # an empty sequence is a legal Sequence
            text = "".join(pool[(i * 7 + j * (i + 1) + j * j + self.nseq) % len(pool)] for j in range(n))
            if self.seqkind.startswith("prot"):
                seqs.append(ProteinSequence(text))
            else:
                seqs.append(NucleotideSequence(text))
        return seqs

    def new(self):
        from biotite.application.application import Application
        from biotite.application.localapp import LocalApp
        sess = self
        bin_path = os.path.join(_bin_dir(), self.tool)   # "missing" does not exist
        if self.tool == "isdir":
            bin_path = _bin_dir()                        # executing a directory: PermissionError
        elif self.tool == "nulbyte":
            bin_path = os.path.join(_bin_dir(), "ok") + "\0"   # Popen raises ValueError (embedded null byte)
        counter = {"n": 0}
        self.counter = counter

        def probe(cls):
            class Probe(cls):
                def clean_up(self):
                    counter["n"] += 1
                    super().clean_up()
            Probe.__name__ = cls.__name__
            return Probe

        if self.wrapper == "base":
            import subprocess

            class Stub(Application):
                """Concrete Application with a scripted environment; start/join/cancel/get_app_state are the real ones."""

                def __init__(self):
                    super().__init__()
                    self._tmp = tempfile.NamedTemporaryFile("w", suffix=".stub", delete=False)

                def run(self):
                    if sess.tool in LAUNCH_FAILURE:
                        raise {"missing": FileNotFoundError, "isdir": PermissionError, "nulbyte": ValueError}[sess.tool](sess.tool)
                    sess.stub_child = "alive"

                def is_finished(self):
                    return sess.force_finish or (sess.tool not in HANGS and os.path.exists(sess.gate))   # no pipes: bigout = ok

                def wait_interval(self):
                    return 0.001

                def evaluate(self):
                    if sess.tool in FAILING_EXIT:
                        raise subprocess.SubprocessError("failing exit code")
                    if sess.tool.startswith("garbage"):
                        raise ValueError("unparsable")

                def clean_up(self):
                    counter["n"] += 1
                    if sess.stub_child == "alive":
                        sess.stub_child = "dead"
                    self._tmp.close()
                    try:
                        os.remove(self._tmp.name)
                    except FileNotFoundError:
                        pass

            self.app = Stub()
            return
        if self.wrapper == "local":
            self.app = probe(LocalApp)(bin_path)
            self.app.set_arguments(["--plain"])
            return
        self.sequences = self._sequences()
        matrix = None
        if self.seqkind == "protmat":
            import numpy as np
            from biotite.sequence import ProteinSequence
            from biotite.sequence.align import SubstitutionMatrix
            alph = ProteinSequence.alphabet
            matrix = SubstitutionMatrix(alph, alph, np.eye(len(alph), dtype=np.int32) * 7 - 3)
        if self.wrapper == "tantan":
            from biotite.application.tantan import TantanApp
            self.app = probe(TantanApp)(self.sequences, matrix=matrix, bin_path=bin_path)
            return
        if self.seqkind.startswith("generic"):
            import numpy as np
            from biotite.sequence.align import SubstitutionMatrix
            alph = self.sequences[0].get_alphabet()
            matrix = SubstitutionMatrix(alph, alph, np.eye(len(alph), dtype=np.int32) * 5 - 1)
        if self.wrapper == "clustalo":
            from biotite.application.clustalo import ClustalOmegaApp
            self.app = probe(ClustalOmegaApp)(self.sequences, bin_path, matrix)     # (documented: the matrix is ignored)
        elif self.wrapper == "muscle3":
            from biotite.application.muscle import MuscleApp
            self.app = probe(MuscleApp)(self.sequences, bin_path, matrix)
        elif self.wrapper == "muscle5":
            from biotite.application.muscle import Muscle5App
            self.app = probe(Muscle5App)(self.sequences, bin_path)
        elif self.wrapper == "mafft":
            from biotite.application.mafft import MafftApp
            self.app = probe(MafftApp)(self.sequences, bin_path, matrix)
        else:
            raise ValueError("unknown wrapper " + self.wrapper)

    # -- observation
    def child(self, wait_dead=False):
        if self.wrapper == "base":
            return self.stub_child
        p = _proc_of(self.app)
        if p is None:
            return "none"
        st = _proc_state(p.pid)
        if st == "alive" and wait_dead:
            end = time.time() + 0.3
            while st == "alive" and time.time() < end:
                time.sleep(0.003)
                st = _proc_state(p.pid)
        return st

    def observe(self):
        st = _state_of(self.app).name if self.app is not None else "NONE"
        return {"st": st,
                "cwd": "same" if os.getcwd() == self.caller_cwd else "changed",
                "files": len(os.listdir(self.tmpdir)),
                "child": self.child(wait_dead=st in ("JOINED", "CANCELLED")) if self.app is not None else "none",
                "cl": self.counter["n"] if self.app is not None else 0}

    def released(self):
        return os.path.exists(self.gate)

    def release(self):
        with open(self.gate, "w"):
            pass

    # -- the tool's own account of what it produced
    def tool_log(self):
        try:
            return [json.loads(line) for line in open(self.log)]
        except OSError:
            return []

    def tool_rows(self):
        for e in reversed(self.tool_log()):
            if e.get("event") == "exit" and "rows" in e:
                return e["rows"]
        return None

    def _row_strings(self, alignment):
        """Gapped rows of the result, each symbol mapped to the letter the external program saw."""
        from biotite.sequence import ProteinSequence
        rows = []
        for i, seq in enumerate(alignment.sequences):
            s = ""
            for pos in alignment.trace[:, i]:
                if pos == -1:
                    s += "-"
                elif self.seqkind.startswith("generic"):
                    s += ProteinSequence.alphabet.decode(int(seq.code[pos]))
                else:
                    s += str(seq.alphabet.decode(int(seq.code[pos])))
            rows.append(s)
        return rows

    def spell(self, value, timeout=False):
        """The same number in another spelling: Python int/float and NumPy scalars of several widths.
        (Timeouts only as Python numbers and 64-bit NumPy scalars: `Popen.communicate(timeout=np.float32(..))` computes its
        deadline `time.monotonic() + timeout` in float32 under NumPy 2's promotion rules — the standard library's quirk, not
        biotite's; observed: `communicate(timeout=np.float32(0))` on an exited child returns instead of raising.)"""
        import numpy as np
        self._spell_i += 1
        if timeout:
            forms = [float(value), np.float64(value)] + ([int(value), np.int64(value)] if float(value) == int(value) else [])
            return forms[self._spell_i % len(forms)]
        if float(value) == int(value):
            forms = [float(value), int(value), np.float64(value), np.int64(value), np.float32(value), np.int16(value), np.int8(value)]
            if value >= 0:
                forms += [np.uint8(value), np.uint32(value)]
        else:
            forms = [float(value), np.float64(value), np.float32(value)]
        return forms[self._spell_i % len(forms)]

    def spell_array(self, a):
        """The same matrix in another memory layout / dtype: C- and F-ordered, float32/int64, read-only, strided view."""
        import numpy as np
        self._spell_i += 1
        a = np.asarray(a, dtype=float)
        k = self._spell_i % 6
        if k == 0:
            return np.ascontiguousarray(a)
        if k == 1:
            return np.asfortranarray(a)
        if k == 2:
            return a.astype(np.float32)
        if k == 3:
            return a.astype(np.int64)
        if k == 4:
            b = a.copy()
            b.setflags(write=False)
            return b
        big = np.zeros((2 * a.shape[0], 2 * a.shape[1]))
        big[::2, ::2] = a
        return big[::2, ::2]

    def snapshot(self):
        """Everything the wrapper stores (for "a rejected call changes nothing"): attribute name -> comparable value."""
        def safe(v, depth=0):
            import numpy as np
            if isinstance(v, (int, float, str, bool, type(None))):
                return v
            if isinstance(v, np.ndarray):
                return ("ndarray", v.shape, v.tolist())
            if isinstance(v, (list, tuple)) and depth < 2:
                return [safe(x, depth + 1) for x in v]
            if type(v).__name__ == "Tree":
                return ("Tree", str(v))
            if hasattr(v, "name") and hasattr(v, "closed"):
                return ("file", v.name, v.closed)
            if hasattr(v, "pid"):
                return ("process", v.pid)
            return (type(v).__name__, id(v))
        return {k: safe(v) for k, v in vars(self.app).items()} if self.app is not None else {}

    # -- ops
    def call_bad(self, name):
        """The same setter with arguments it has to reject."""
        app = self.app
        if name == "set_distance_matrix":
            import numpy as np
            return app.set_distance_matrix(np.ones((self.nseq + 1, self.nseq)))
        if name == "set_guide_tree":
            from biotite.sequence.phylo import Tree
            n = self.nseq + 1
            nw = "(" * (n - 1) + "0:1.0" + "".join(f",{i}:1.0):1.0" for i in range(1, n - 1)) + f",{n - 1}:1.0);"
            return app.set_guide_tree(Tree.from_newick(nw))
        raise AttributeError("no bad-argument variant for " + name)

    def call_method(self, name):
        app = self.app
        if name == "set_arguments":
            return app.set_arguments(["--plain"])
        if name == "set_stdin":
            f = open(os.devnull)
            self._stdin = f
            return app.set_stdin(f)
        if name == "add_additional_options":
            return app.add_additional_options(["--c20-extra"])
        if name == "set_exec_dir":
            return app.set_exec_dir(self.execdir)
        if name == "set_distance_matrix":
            import numpy as np
            return app.set_distance_matrix(self.spell_array(np.ones((self.nseq, self.nseq)) - np.eye(self.nseq)))
        if name == "set_guide_tree":
            from biotite.sequence.phylo import Tree
            n = self.nseq
            nw = "(" * (n - 1) + "0:1.0" + "".join(f",{i}:1.0):1.0" for i in range(1, n - 1)) + f",{n - 1}:1.0);"
            return app.set_guide_tree(Tree.from_newick(nw))
        if name == "set_gap_penalty":
            return app.set_gap_penalty(self.spell(-10.0))
        if name == "set_iterations":
            return app.set_iterations(self.spell(1), self.spell(1))
        if name == "set_thread_number":
            return app.set_thread_number(self.spell(1))
        return getattr(app, name)()

    def _join_watched(self, timeout, limit, freeze=False):
        """app.join(timeout) in a thread with a hard limit: a join that never returns is reported, not waited for."""
        box = {}

        def target():
            try:
                self.app.join() if timeout is None else self.app.join(timeout=timeout)
                box["res"] = "ok"
            except BaseException as e:  # noqa: BLE001
                box["exc"] = e

        th = threading.Thread(target=target, daemon=True)
        th.start()
        th.join(limit)
        if th.is_alive():
            if freeze:
                self.frozen = self.observe()         # what the world looks like while the call is (rightly) blocked
            # unblock it: let the stub finish, open the gate, kill the child; then give up on the thread
            self.force_finish = True
            self.release()
            p = _proc_of(self.app)
            if p is not None:
                try:
                    os.kill(p.pid, 9)
                except OSError:
                    pass
            th.join(5.0)
            return "hang-join"
        if "exc" in box:
            raise box["exc"]
        return box["res"]

    def _wait_exit(self):
        p = _proc_of(self.app)
        if p is not None:
            end = time.time() + 10.0
            while _proc_state(p.pid) == "alive" and time.time() < end:
                time.sleep(0.002)

    def op(self, line):
        """Returns the canonical result string (without the observation)."""
        from biotite.application.application import AppStateError, TimeoutError as AppTimeout
        from subprocess import SubprocessError
        w = line.split()
        app = self.app
        in_join = False
        try:
            if w[0] == "start":
                app.start()
                if self.released() and self.tool not in HANGS and self.tool != "bigout" and self.wrapper != "base":
                    self._wait_exit()                # gate already open: the child exits at once; make that observable
                if self.tool == "hang_ignore_term" and self.wrapper != "base":
                    end = time.time() + 10.0         # wait until the tool has installed its SIGTERM handler
                    while time.time() < end and not any(e.get("event") == "started" for e in self.tool_log()):
                        time.sleep(0.003)
                return "ok"
            if w[0] == "join":
                in_join = True
                unbounded = w[1] == "-" or (w[1] == "inf" and self.wrapper == "base")
                if unbounded:
                    if _state_of(app).name == "RUNNING" and self.tool in HANGS:
                        # join() without (effective) timeout on a program that never exits: the model says "diverges".
                        # In a `divergence` case (this is its last op) the real call is made and must indeed block.
                        if not self.run_divergence:
                            return "unmodelled"
                        r = self._join_watched(None if w[1] == "-" else float("inf"), 0.6, freeze=True)
                        return "unmodelled" if r == "hang-join" else r
                    running = _state_of(app).name == "RUNNING" and not self.released()
                    if running:
                        t = threading.Timer(0.02, self.release)
                        self.timers.append(t)
                        t.start()
                    return self._join_watched(None if w[1] == "-" else float("inf"), 10.0)
                timeout = {"t": TIMEOUT, "5": 5.0, "0": 0, "0.0": 0.0, "-1": -1, "inf": float("inf")}[w[1]]
                if self._spell_i % 3 == 0 and w[1] != "inf":            # every third join passes the same timeout as a NumPy scalar
                    timeout = self.spell(timeout, timeout=True)
                self._spell_i += 1
                return self._join_watched(timeout, 12.0 if w[1] == "5" else 2.0)
            if w[0] == "cancel":
                app.cancel()
                return "ok"
            if w[0] == "state":
                return "ok " + app.get_app_state().name
            if w[0] == "tick":
                self.release()
                if self.wrapper != "base" and self.tool not in HANGS and self.tool != "bigout":
                    self._wait_exit()
                return "ok"
            if w[0] == "chdir":
                self.caller_cwd = self.otherdir if self.caller_cwd == self.cwd0 else self.cwd0
                os.chdir(self.caller_cwd)
                return "ok"
            if w[0] == "setgap":
                vals = [self.spell(float(x)) for x in w[1:]]
                app.set_gap_penalty(vals[0] if len(vals) == 1 else (tuple(vals) if self._spell_i % 2 else list(vals)))
                return "ok"
            if w[0] == "callbad":
                self.call_bad(w[1])
                return "ok"
            if w[0] == "call":
                name = w[1]
                val = self.call_method(name)
                if name == "get_alignment":
                    try:
                        got = self._row_strings(val)
                    except Exception:  # noqa: BLE001  (a trace that does not fit the sequences cannot be rendered)
                        return "ok r!invalid"
                    rows = self.tool_rows() or []
                    by_header = {h: s for h, s in rows}
                    return "ok " + ",".join(("r" + str(i)) if by_header.get(str(i)) == g else "r?" for i, g in enumerate(got))
                if name == "get_alignment_order":
                    return "ok " + ",".join(str(int(x)) for x in val)
                if name == "get_guide_tree":
                    return "ok " + _show_clades(val)
                if name == "get_distance_matrix":
                    return "ok " + ",".join(str(int(round(float(x)))) for x in val[0]) + (
                        "" if all(abs(float(val[i][j]) - abs(i - j)) < 1e-9 for i in range(len(val)) for j in range(len(val))) else " !")
                if name == "get_exit_code":
                    return "ok " + str(val)
                if name == "get_command":
                    # only the part that depends on a validated option: MUSCLE's `-gapopen o -gapextend e`
                    words = str(val).split()
                    if "-gapopen" in words and "-gapextend" in words:
                        o, e = words[words.index("-gapopen") + 1], words[words.index("-gapextend") + 1]
                        return f"ok gap={int(float(o))}/{int(float(e))}"
                    return "ok"
                if name == "get_seqtype":
                    return "ok " + str(val)
                return "ok"
            return "bad-op"
        except AppStateError:
            return "ERR:AppStateError"
        except SubprocessError:
            return "ERR:SubprocessError"
        except Exception as e:  # noqa: BLE001
            self.last_exc = type(e).__name__
            # by class *name*: Application.join raises biotite's TimeoutError, LocalApp.join the builtin one (see notes)
            if isinstance(e, AppTimeout) or type(e).__name__ == "TimeoutError":
                return "ERR:TimeoutError"
            if in_join and isinstance(e, OverflowError):
                return "ERR:OverflowError"       # `communicate(timeout=inf)`: the argument is refused, nothing has happened
            if in_join:
                return "ERR:EvalFailure"     # which class a parser raises on garbage is not part of the property
            return "ERR:" + type(e).__name__

    def close(self):
        for t in self.timers:
            t.cancel()
        p = _proc_of(self.app) if self.app is not None else None
        if p is not None:
            try:
                os.kill(p.pid, 9)            # SIGKILL by pid: nothing may outlive the case, whatever clean_up() did
            except OSError:
                pass
            try:
                p.communicate(timeout=5)
            except Exception:  # noqa: BLE001
                pass
        f = getattr(self, "_stdin", None)
        if f is not None:
            f.close()
        if self.app is not None:
            for v in list(vars(self.app).values()):
                if hasattr(v, "close") and hasattr(v, "name") and not getattr(v, "closed", True):
                    try:
                        v.close()
                    except Exception:  # noqa: BLE001
                        pass
        try:
            os.chdir(self.cwd0)
        except OSError:
            pass
        tempfile.tempdir = self.old_tempdir
        for k, v in self.old_env.items():
            if v is None:
                os.environ.pop(k, None)
            else:
                os.environ[k] = v
        shutil.rmtree(self.root, ignore_errors=True)


# ---------------------------------------------------------------- WebApp / BlastWebApp with a scripted clock and server
WEB_METHODS = ["set_entrez_query", "set_max_results", "set_max_expect_value", "set_gap_penalty", "set_word_size",
               "set_match_reward", "set_mismatch_penalty", "set_substitution_matrix", "set_threshold", "get_xml_response",
               "get_alignments"]
WEB_ARGS = {"set_entrez_query": ("txid9606",), "set_max_results": (5,), "set_max_expect_value": (1.0,), "set_gap_penalty": (11, 1),
            "set_word_size": (3,), "set_match_reward": (1,), "set_mismatch_penalty": (-2,), "set_substitution_matrix": ("blosum62",),
            "set_threshold": (11,)}
WEB_DOC_ALLOWED = dict({m: [_C] for m in WEB_METHODS if m.startswith("set_")}, get_xml_response=[_J], get_alignments=[_J],
                       start=[_C], join=[_R, _F], cancel=[_R, _F], get_app_state=_ALL)
WEB_CONTACT_DELAY, WEB_REQUEST_DELAY = 3, 60      # the documented NCBI rules (seconds between contacts / between searches)


class _WebSession:
    """The real BlastWebApp; `time` (in application.py and blast/webapp.py) and `requests` (in blast/webapp.py) are
    replaced by a scripted clock / server for the duration of the case (module attributes, this process only)."""

    def __init__(self, obey, k, toolarge):
        import biotite.application.application as A
        import biotite.application.blast.webapp as B
        self.A, self.B = A, B
        self.now, self.k, self.toolarge, self.sent = 1000, k, toolarge, 0
        self.counter = {"n": 0}
        sess = self

        class FakeTime:
            @staticmethod
            def time():
                return float(sess.now)

            @staticmethod
            def sleep(dt):
                sess.now += dt

        class Response:
            def __init__(self, text):
                self.text = text

        class FakeRequests:
            @staticmethod
            def get(url, params=None):
                return Response(sess.serve(params or {}))

        self.saved = (A.time, B.time, B.requests, B.BlastWebApp._last_contact, B.BlastWebApp._last_request)
        A.time, B.time, B.requests = FakeTime, FakeTime, FakeRequests
        B.BlastWebApp._last_contact, B.BlastWebApp._last_request = 0, 0
        counter = self.counter

        class Probe(B.BlastWebApp):
            def clean_up(self):
                counter["n"] += 1
                super().clean_up()

        self.app = Probe("blastp", "MKTAYIAKQR", obey_rules=obey)

    def serve(self, params):
        self.sent += 1
        cmd = params.get("CMD")
        if cmd == "Put":
            if self.toolarge:
                return "<html>Submitted URI too large</html>"
            return "<!--QBlastInfoBegin\n    RID = FAKE0001\n    RTOE = 1\nQBlastInfoEnd\n-->"
        if cmd == "Get" and params.get("FORMAT_OBJECT") == "SearchInfo":
            status = "READY" if self.k == 0 else "WAITING"
            self.k = max(0, self.k - 1)
            return f"<!--QBlastInfoBegin\n    Status={status}\nQBlastInfoEnd\n-->"
        if cmd == "Get":
            return ("<BlastOutput><BlastOutput_iterations><Iteration><Iteration_hits></Iteration_hits></Iteration>"
                    "</BlastOutput_iterations></BlastOutput>")
        return ""

    def observe(self):
        B = self.B.BlastWebApp
        return {"st": _state_of(self.app).name, "now": int(self.now), "lc": int(B._last_contact), "lr": int(B._last_request),
                "k": self.k, "sent": self.sent, "cl": self.counter["n"]}

    def op(self, line):
        from biotite.application.application import AppStateError
        w = line.split()
        app = self.app
        try:
            if w[0] == "clock":
                self.now += int(w[1])
                return "ok"
            if w[0] == "contact":
                app._contact()
                return "ok"
            if w[0] == "request":
                app._request()
                return "ok"
            if w[0] == "violate":
                app.violate_rule()
                return "ok"
            if w[0] == "start":
                app.start()
                return "ok"
            if w[0] == "state":
                return "ok " + app.get_app_state().name
            if w[0] == "cancel":
                app.cancel()
                return "ok"
            if w[0] == "join":
                box = {}

                def target():
                    try:
                        app.join() if w[1] == "-" else app.join(timeout=int(w[1]))
                        box["res"] = "ok"
                    except BaseException as e:  # noqa: BLE001
                        box["exc"] = e
                th = threading.Thread(target=target, daemon=True)
                th.start()
                th.join(5.0)
                if th.is_alive():
                    self.k = 0                  # let the scripted server answer READY so that the thread ends
                    th.join(5.0)
                    return "hang-join"
                if "exc" in box:
                    raise box["exc"]
                return "ok"
            if w[0] == "call":
                getattr(app, w[1])(*WEB_ARGS.get(w[1], ()))
                return "ok"
            return "bad-op"
        except AppStateError:
            return "ERR:AppStateError"
        except Exception as e:  # noqa: BLE001
            return "ERR:" + type(e).__name__

    def close(self):
        A, B = self.A, self.B
        A.time, B.time, B.requests, B.BlastWebApp._last_contact, B.BlastWebApp._last_request = self.saved


def _fmt_web(o):
    return f"st={o['st']} now={o['now']} lc={o['lc']} lr={o['lr']} k={o['k']} sent={o['sent']} cl={o['cl']}"


def execute_web(case):
    ops = case["ops"]
    w = ops[0].split()
    sess = _WebSession(w[1] == "obey", int(w[2]), w[3] == "toolarge")
    lines, trace = [], []
    try:
        after = sess.observe()
        lines.append("ok | " + _fmt_web(after))
        trace.append({"op": ops[0], "result": "ok", "before": None, "after": after})
        for line in ops[1:]:
            before = after
            res = sess.op(line)
            after = sess.observe()
            lines.append(res + " | " + _fmt_web(after))
            trace.append({"op": line, "result": res, "before": before, "after": after})
    finally:
        sess.close()
    return lines, trace


def _oracle_web(case, trace):
    """Written from the documented rules: with obey_rules a server contact within 3 s of the last accepted contact, and a
    search request within 60 s of the last accepted request, raise RuleViolationError and change nothing; otherwise they are
    accepted and the time is recorded.  Life cycle / clean-up as for every Application."""
    obey = case["ops"][0].split()[1] == "obey"
    v = []
    for t in trace[1:]:
        op, res, b, a = t["op"], t["result"], t["before"], t["after"]
        ww = op.split()
        if res == "hang-join":
            v.append(("C20/join/timeout-zero-does-not-time-out" if ww[1] == "0" else "C20/join/never-returns",
                      f"`{op}` did not return ({case['ops']})"))
            break
        if ww[0] in ("contact", "request", "violate"):
            if ww[0] == "violate":
                should_refuse = obey
            elif ww[0] == "contact":
                should_refuse = obey and (b["now"] - b["lc"]) < WEB_CONTACT_DELAY
            else:
                should_refuse = obey and (b["now"] - b["lr"]) < WEB_REQUEST_DELAY
            refused = res == "ERR:RuleViolationError"
            if refused != should_refuse or (not refused and res != "ok"):
                v.append((f"C20/web/rule/{ww[0]}/{'not-refused' if should_refuse else 'refused-wrongly'}",
                          f"`{op}` at now={b['now']} lc={b['lc']} lr={b['lr']} obey={obey} -> {res} ({case['ops']})"))
            if refused and a != b:
                v.append((f"C20/web/rule/{ww[0]}/refusal-side-effect", f"refused `{op}` changed {b} -> {a}"))
            if not refused and res == "ok":
                exp = dict(b)
                if ww[0] == "contact":
                    exp["lc"] = b["now"]
                if ww[0] == "request":
                    exp["lr"] = b["now"]
                if a != exp:
                    v.append((f"C20/web/rule/{ww[0]}/accepted-wrong-bookkeeping", f"`{op}`: {b} -> {a}, expected {exp}"))
        name = {"start": "start", "join": "join", "cancel": "cancel", "state": "get_app_state"}.get(ww[0])
        if ww[0] == "call":
            name = ww[1]
        if name is not None:
            allowed = b["st"] in WEB_DOC_ALLOWED[name]
            refused = res == "ERR:AppStateError"
            if allowed and refused:
                v.append((f"C20/lifecycle/refused-but-allowed/{name}@{b['st']}", f"{op} in {b['st']} raised AppStateError ({case['ops']})"))
            if not allowed and not refused:
                v.append((f"C20/lifecycle/accepted-but-forbidden/{name}@{b['st']}", f"{op} in {b['st']} -> {res} ({case['ops']})"))
            if refused and a != b:
                v.append((f"C20/refusal-side-effect/web/{b['st']}", f"refused {op} changed {b} -> {a}"))
            web_documented = {"start": {"ERR:ValueError", "ERR:RuleViolationError"}, "get_app_state": {"ERR:RuleViolationError"},
                              "join": {"ERR:TimeoutError", "ERR:RuleViolationError"}}
            if allowed and not refused and res.startswith("ERR:") and res not in web_documented.get(name, set()):
                v.append((f"C20/lifecycle/allowed-call-raised/{name}@{b['st']}/{res[4:]}",
                          f"`{op}` is allowed in {b['st']} but raised {res[4:]} ({case['ops']})"))
            if name == "join" and not refused:
                if res == "ok" and a["st"] != "JOINED":
                    v.append(("C20/web/join-ok-not-joined", f"{op} -> ok but state {a['st']}"))
                if res == "ERR:TimeoutError" and a["st"] != "CANCELLED":
                    v.append(("C20/leak/timeout/web", f"{op} timed out but state {a['st']} ({case['ops']})"))
            if name == "start" and not refused and res != "ok" and a["st"] != "CANCELLED":
                v.append(("C20/leak/launch-failure/web", f"{op} -> {res} but state {a['st']} ({case['ops']})"))
            if name == "cancel" and res == "ok" and a["st"] != "CANCELLED":
                v.append(("C20/leak/cancel/web", f"{op} -> ok but state {a['st']}"))
        terminal = a["st"] in ("JOINED", "CANCELLED")
        if (terminal and a["cl"] != 1) or (not terminal and a["cl"] != 0):
            v.append((f"C20/leak/cleanups/web/{a['st']}", f"after `{op}`: state {a['st']} with {a['cl']} clean-ups ({case['ops']})"))
            break
    seen, out = set(), []
    for k, m in v:
        if k not in seen:
            seen.add(k)
            out.append((k, m))
    return out


def _web_cases(rng, n, maxlen):
    rule_ops = ["contact", "request", "violate", "clock 1", "clock 2", "clock 3", "clock 57", "clock 60", "clock 59"]
    life_ops = ["start", "state", "join -", "join 0", "join 4", "join 7", "join 30", "cancel", "clock 3", "clock 1", "clock 60"]
    out = []
    for obey in ("obey", "free"):
        # boundary walks of the two rules
        out.append(["newweb %s 0 ok" % obey, "contact", "contact", "clock 2", "contact", "clock 1", "contact", "clock 3", "contact"])
        out.append(["newweb %s 0 ok" % obey, "request", "request", "clock 59", "request", "clock 1", "request", "clock 60", "request"])
        out.append(["newweb %s 0 ok" % obey, "violate", "contact", "violate"])
        for k in (0, 1, 3):
            out.append(["newweb %s %d ok" % (obey, k), "start", "join -", "call get_alignments", "cancel"])
            out.append(["newweb %s %d ok" % (obey, k), "start", "clock 3", "state", "clock 3", "state", "join 30"])
            out.append(["newweb %s %d ok" % (obey, k), "start", "join 0"])
            out.append(["newweb %s %d ok" % (obey, k), "start", "state", "cancel"])
        out.append(["newweb %s 9 ok" % obey, "start", "join 7", "state"])
        # far from the small numbers: many polls until READY, timeouts much larger / smaller than the run (the model's loop fuel)
        out.append(["newweb %s 40 ok" % obey, "start", "join -", "call get_alignments"])
        out.append(["newweb %s 3 ok" % obey, "start", "join 1000", "state"])
        out.append(["newweb %s 25 ok" % obey, "start", "join 60", "state"])
        out.append(["newweb %s 0 ok" % obey, "start", "join 0", "state"])
        out.append(["newweb %s 2 toolarge" % obey, "start", "start", "cancel"])
        out.append(["newweb %s 1 ok" % obey, "contact", "start", "clock 3", "start"])
        out.append(["newweb %s 1 ok" % obey, "request", "clock 3", "start", "cancel"])
        out.append(["newweb %s 1 ok" % obey] + ["call " + m for m in WEB_METHODS] + ["start"] + ["call " + m for m in WEB_METHODS])
    for _ in range(n):
        head = "newweb %s %d %s" % (rng.choice(["obey", "obey", "free"]), rng.choice([0, 0, 1, 2, 4]), rng.choice(["ok"] * 6 + ["toolarge"]))
        ops = []
        for _ in range(rng.randint(1, maxlen)):
            r = rng.random()
            if r < 0.35:
                ops.append(rng.choice(rule_ops))
            elif r < 0.9:
                ops.append(rng.choice(life_ops))
            else:
                ops.append("call " + rng.choice(WEB_METHODS))
        out.append([head] + ops)
    return [{"kind": "web", "ops": o} for o in out]


def _show_clades(tree):
    """Canonical form of a guide tree in terms of *input indices*: the leaf sets of all internal nodes, sorted;
    a set {0..k} is written `0..k`."""
    clades = []

    def leaves(node):
        if node.is_leaf():
            return [int(node.index)]
        out = []
        for ch in node.children:
            out += leaves(ch)
        clades.append(sorted(out))
        return out

    try:
        leaves(tree.root)
    except Exception as e:  # noqa: BLE001
        return "!" + type(e).__name__
    parts = []
    for c in sorted(clades, key=lambda c: (len(c), c)):
        parts.append(f"0..{c[-1]}" if c == list(range(len(c))) else ",".join(map(str, c)))
    return ";".join(parts)


def execute_mapseq(case):
    """`mapseq <K> <codes>`: biotite.application.util.map_sequence on a sequence over a custom alphabet of K symbols."""
    from biotite.application.util import map_sequence
    from biotite.sequence import Alphabet, GeneralSequence
    lines, trace = [], []
    for op in case["ops"]:
        w = op.split()
        k, codes = int(w[1]), ([] if w[2] == "_" else [int(x) for x in w[2].split(",")])
        try:
            seq = GeneralSequence(Alphabet([f"s{c}" for c in range(k)]), [f"s{c}" for c in codes])
            m = map_sequence(seq)
            res = "ok " + (type(m).__name__ + ":" + "".join(m.get_alphabet().decode(int(c)) for c in m.code) if len(codes) else type(m).__name__ + ":_")
        except Exception as e:  # noqa: BLE001
            res = "ERR:" + type(e).__name__
        lines.append(res)
        trace.append({"op": op, "result": res, "k": k, "codes": codes})
    return lines, trace


PROTEIN_LETTERS = "ACDEFGHIKLMNPQRSTVWYBZX*"      # the amino-acid alphabet as documented (20 + B, Z, X, stop)


def _oracle_mapseq(case, trace):
    """Documented: mapping works unless the alphabet is *larger* than the amino-acid alphabet; symbol i becomes the i-th
    amino-acid symbol (the code is taken over), so mapping back by code returns the original sequence."""
    v = []
    for t in trace:
        k, codes, res = t["k"], t["codes"], t["result"]
        if k > len(PROTEIN_LETTERS):
            if res != "ERR:TypeError":
                v.append((f"C20/map_sequence/oversized-alphabet-accepted/{k}", f"{t['op']} -> {res}"))
        else:
            exp = "ok ProteinSequence:" + ("".join(PROTEIN_LETTERS[c] for c in codes) if codes else "_")
            if res != exp:
                key = f"C20/map_sequence/legal-alphabet-rejected/{k}" if res.startswith("ERR") else f"C20/map_sequence/wrong-mapping/{k}"
                v.append((key, f"{t['op']} -> {res}, expected {exp}"))
    return v

# ---------------------------------------------------------------- oracle-only streams: the less-used entry points
class _Sandbox:
    """Private temp dir / log / PATH / cwd for an oracle-only case on the real classes (no gate: tools run through)."""

    def __enter__(self):
        self.root = tempfile.mkdtemp(prefix="C20-")
        self.tmp = os.path.join(self.root, "tmp")
        self.other = os.path.join(self.root, "other")
        os.mkdir(self.tmp)
        os.mkdir(self.other)
        self.log = os.path.join(self.root, "log")
        self.cwd0 = os.getcwd()
        self.old_tmp = tempfile.tempdir
        self.old_env = {k: os.environ.get(k) for k in ("C20_GATE", "C20_LOG", "C20_VERSION", "PATH")}
        tempfile.tempdir = self.tmp
        os.environ.pop("C20_GATE", None)
        os.environ["C20_LOG"] = self.log
        os.environ["C20_VERSION"] = "3.8.31"
        return self

    def events(self):
        try:
            return [json.loads(x) for x in open(self.log)]
        except OSError:
            return []

    def leftovers(self):
        bad = []
        n = len(os.listdir(self.tmp))
        if n:
            bad.append(f"{n} temp file(s)")
        if os.getcwd() != self.cwd0:
            bad.append("cwd changed")
        for e in self.events():
            if e.get("event") == "started" and _proc_state(e["pid"]) == "alive":
                time.sleep(0.3)
                if _proc_state(e["pid"]) == "alive":
                    bad.append("child alive")
                    try:
                        os.kill(e["pid"], 9)
                    except OSError:
                        pass
        return bad

    def __exit__(self, *exc):
        try:
            os.chdir(self.cwd0)
        except OSError:
            pass
        tempfile.tempdir = self.old_tmp
        for k, v in self.old_env.items():
            if v is None:
                os.environ.pop(k, None)
            else:
                os.environ[k] = v
        shutil.rmtree(self.root, ignore_errors=True)
        return False


def _api_sequences(kind, n):
    from biotite.sequence import Alphabet, GeneralSequence, NucleotideSequence, ProteinSequence
    if kind == "prot":
        return [ProteinSequence("MKT" + "ACDEFGHIKL"[i % 10] * (1 + i % 3) + "WY") for i in range(n)]
    if kind == "nuc":
        return [NucleotideSequence("ACG" + "ACGT"[i % 4] * (1 + i % 3) + "TT") for i in range(n)]
    alph = Alphabet(["p", "q", "r", "s"])
    return [GeneralSequence(alph, list("pqr" + "pqrs"[i % 4] * (1 + i % 2) + "s")) for i in range(n)]


def _api_matrix(seqs, symmetric=True):
    import numpy as np
    from biotite.sequence.align import SubstitutionMatrix
    alph = seqs[0].get_alphabet()
    m = np.eye(len(alph), dtype=np.int32) * 6 - 2
    if not symmetric:
        m[0, 1] = 3
    return SubstitutionMatrix(alph, alph, m)


def _api_classes():
    from biotite.application.clustalo import ClustalOmegaApp
    from biotite.application.mafft import MafftApp
    from biotite.application.muscle import Muscle5App, MuscleApp
    return {"clustalo": ClustalOmegaApp, "muscle3": MuscleApp, "muscle5": Muscle5App, "mafft": MafftApp}


def _rows_of(alignment, generic):
    from biotite.sequence import ProteinSequence
    rows = []
    for i, seq in enumerate(alignment.sequences):
        rows.append("".join("-" if pos == -1 else (ProteinSequence.alphabet.decode(int(seq.code[pos])) if generic
                                                    else str(seq.alphabet.decode(int(seq.code[pos]))))
                            for pos in alignment.trace[:, i]))
    return rows


def _oracle_api(case):
    """Oracle-only cases on the real classes: class methods, defaults, forwarding of options, version checks,
    isolation between instances, support flags.  Each returns [(key, message)]."""
    import subprocess
    import warnings
    what = case["what"]
    v = []
    with warnings.catch_warnings(), _Sandbox() as sb:
        warnings.simplefilter("ignore")
        classes = _api_classes()
        bin_of = lambda t: os.path.join(_bin_dir(), t)      # noqa: E731
        if what == "align":
            # <Wrapper>.align(sequences, bin_path, [matrix], [gap_penalty]): start + join + get_alignment in one call
            wr, tool, n, kind = case["wrapper"], case["tool"], case["n"], case["seqkind"]
            cls = classes[wr]
            os.environ["C20_VERSION"] = "5.1" if wr == "muscle5" else "3.8.31"
            seqs = _api_sequences(kind, n)
            matrix = _api_matrix(seqs) if (kind == "generic" or case.get("matrix")) else None
            kwargs = {}
            if wr != "muscle5":
                kwargs["matrix"] = matrix
            if case.get("gap") is not None and wr == "muscle3":
                kwargs["gap_penalty"] = tuple(case["gap"])
            try:
                ali = cls.align(seqs, bin_of(tool), **kwargs)
                res = "ok"
            except subprocess.SubprocessError:
                res = "SubprocessError"
            except Exception as e:  # noqa: BLE001
                res = type(e).__name__
            ev = sb.events()
            rows = next((e["rows"] for e in reversed(ev) if e.get("event") == "exit" and "rows" in e), None)
            args = next((e["args"] for e in ev if e.get("event") == "started"), [])
            if tool in ("ok", "reorder"):
                if res != "ok":
                    v.append((f"C20/api/align/{wr}/valid-run-failed", f"{wr}.align(...) raised {res} with tool {tool}"))
                else:
                    got = _rows_of(ali, kind == "generic")
                    exp = [dict(rows)[str(i)] for i in range(n)] if rows else None
                    if got != exp:
                        v.append((f"C20/api/align/{wr}/result-differs-from-tool-output", f"{got} vs {exp}"))
                    if [type(x) for x in ali.sequences] != [type(x) for x in seqs]:
                        v.append((f"C20/api/align/{wr}/sequence-type-not-restored", str([type(x).__name__ for x in ali.sequences])))
                if kwargs.get("gap_penalty") and not ("-gapopen" in args and args[args.index("-gapopen") + 1] == f"{kwargs['gap_penalty'][0]:.1f}"
                                                     and args[args.index("-gapextend") + 1] == f"{kwargs['gap_penalty'][1]:.1f}"):
                    v.append((f"C20/api/align/{wr}/gap_penalty-not-forwarded", f"argv {args}"))
                if matrix is not None and wr in ("muscle3", "mafft") and not any(a in args for a in ("-matrix", "--aamatrix")):
                    v.append((f"C20/api/align/{wr}/matrix-not-forwarded", f"argv {args}"))
            elif tool in FAILING_EXIT and res != "SubprocessError":
                v.append((f"C20/api/align/{wr}/failing-exit-accepted", f"{wr}.align(...) -> {res} with tool {tool}"))
            elif tool.startswith("garbage") and res in ("ok", "SubprocessError") and not (tool == "garbage_tree" and wr == "muscle5"):
                # (MUSCLE 5 writes and reads no guide tree: a broken tree file is not its concern)
                v.append((f"C20/api/align/{wr}/garbage-accepted", f"{wr}.align(...) -> {res} with tool {tool}"))
            left = sb.leftovers()
            if left:
                v.append((f"C20/api/align/{wr}/leak/{tool}", f"after align() [{res}]: {left}"))
        elif what == "default-bin":
            # bin_path omitted: the program is looked up under its real name through PATH
            from common import paths
            os.environ["PATH"] = os.path.join(paths.FIXTURES, "C20", "path") + os.pathsep + os.environ.get("PATH", "")
            wr = case["wrapper"]
            seqs = _api_sequences("prot", 3)
            try:
                if wr == "tantan":
                    from biotite.application.tantan import TantanApp
                    app = TantanApp(seqs)
                elif wr == "muscle5":
                    os.environ["C20_VERSION"] = "5.1"
                    app = classes[wr](seqs)
                else:
                    app = classes[wr](seqs)
                app.start()
                app.join(timeout=20)
                if app.get_app_state().name != "JOINED":
                    v.append((f"C20/api/default-bin/{wr}", "state " + app.get_app_state().name))
            except Exception as e:  # noqa: BLE001
                v.append((f"C20/api/default-bin/{wr}", f"default bin_path: {type(e).__name__}: {e}"))
            left = sb.leftovers()
            if left:
                v.append((f"C20/api/default-bin/{wr}/leak", str(left)))
        elif what == "version":
            from biotite.application.application import VersionError
            from biotite.application.localapp import get_version
            from biotite.application.muscle import Muscle5App, MuscleApp
            seqs = _api_sequences("prot", 2)
            for cls, ver, should in ((MuscleApp, "3.8.31", None), (MuscleApp, "5.1", VersionError), (MuscleApp, "2.9", VersionError),
                                     (Muscle5App, "5.1", None), (Muscle5App, "6.0", None), (Muscle5App, "3.8.31", VersionError),
                                     (MuscleApp, "no digits here", subprocess.SubprocessError)):
                os.environ["C20_VERSION"] = ver
                try:
                    cls(seqs, bin_of("ok"))
                    got = None
                except Exception as e:  # noqa: BLE001
                    got = type(e)
                if (should is None) != (got is None) or (should is not None and not issubclass(got, should)):
                    v.append((f"C20/api/version/{cls.__name__}/{ver.split('.')[0]}", f"{cls.__name__} with version {ver!r}: "
                              f"{got.__name__ if got else 'accepted'}, expected {should.__name__ if should else 'accepted'}"))
                if got is not None and os.listdir(sb.tmp):
                    v.append((f"C20/api/version/{cls.__name__}/temp-files-after-refusal", str(os.listdir(sb.tmp))))
                for f in os.listdir(sb.tmp):
                    os.remove(os.path.join(sb.tmp, f))
            os.environ["C20_VERSION"] = "12.34.5"
            if get_version(bin_of("ok"), "-version") != (12, 34):
                v.append(("C20/api/get_version/parse", str(get_version(bin_of("ok"), "-version"))))
        elif what == "forwarding":
            # set_arguments / add_additional_options / set_stdin / set_exec_dir reach the program; getters report what it did
            from biotite.application.localapp import LocalApp
            opts, args = ["--c20-opt", "x y"], ["--plain", "--read-stdin"]
            stdin_path = os.path.join(sb.root, "stdin.txt")
            with open(stdin_path, "w") as f:
                f.write("C20-STDIN\n")
            app = LocalApp(bin_of(case.get("tool", "ok")))
            opts_copy, args_copy = list(opts), list(args)
            app.add_additional_options(opts)
            app.set_arguments(args)
            args.append("--mutated-after-the-call")          # the caller's list is its own
            opts.append("--mutated-after-the-call")
            with open(stdin_path) as fin:
                app.set_stdin(fin)
                app.set_exec_dir(sb.other)
                app.start()
                proc = app.get_process()
                try:
                    app.join(timeout=20)
                    if case.get("tool") == "exit3":
                        v.append(("C20/api/forwarding/failing-exit-accepted", "join() returned"))
                except subprocess.SubprocessError as e:
                    if case.get("tool") != "exit3":
                        v.append(("C20/api/forwarding/valid-run-failed", str(e)))
                    elif "exit code 3" not in str(e) or "boom" not in str(e):
                        v.append(("C20/api/forwarding/error-message", str(e)))     # documented: exit code and STDERR in the message
            ev = sb.events()
            started = next((e for e in ev if e.get("event") == "started"), {})
            stdin_ev = next((e for e in ev if e.get("event") == "stdin"), {})
            exp_argv = opts_copy + args_copy
            if started.get("args") != exp_argv:
                v.append(("C20/api/forwarding/argv", f"program saw {started.get('args')}, expected options before arguments: {exp_argv}"))
            if case.get("tool") != "exit3" and stdin_ev.get("data") != "C20-STDIN\n":     # (exit3 dies before reading)
                v.append(("C20/api/forwarding/stdin", f"program read {stdin_ev.get('data')!r}"))
            if os.path.realpath(started.get("cwd", "")) != os.path.realpath(sb.other):
                v.append(("C20/api/forwarding/exec_dir", f"program ran in {started.get('cwd')}"))
            if started.get("pid") != proc.pid:
                v.append(("C20/api/forwarding/get_process", f"{proc.pid} vs {started.get('pid')}"))
            code = 3 if case.get("tool") == "exit3" else 0
            try:
                if app.get_app_state().name == "JOINED":
                    obs = (app.get_exit_code(), app.get_stdout(), app.get_stderr())
                    if obs != (0, "plain output\n", ""):
                        v.append(("C20/api/forwarding/stdout-stderr-exit", repr(obs)))
                    if app.get_command() != " ".join([bin_of(case.get("tool", "ok"))] + exp_argv):
                        v.append(("C20/api/forwarding/get_command", app.get_command()))
                elif code == 0:
                    v.append(("C20/api/forwarding/state", app.get_app_state().name))
            except Exception as e:  # noqa: BLE001
                v.append(("C20/api/forwarding/getter-raised", f"{type(e).__name__}: {e}"))
            left = sb.leftovers()
            if left:
                v.append(("C20/api/forwarding/leak", str(left)))
        elif what == "two-instances":
            # nothing is shared between two wrappers of one class; repeated reads agree
            wr = case["wrapper"]
            cls = classes[wr]
            os.environ["C20_VERSION"] = "5.1" if wr == "muscle5" else "3.8.31"
            a = cls(_api_sequences("prot", 3), bin_of("ok"))
            a.add_additional_options(["--only-for-a"])
            if wr == "muscle3":
                a.set_gap_penalty((-7.0, -2.0))
            if wr == "clustalo":
                import numpy as np
                a.full_matrix_calculation()
                dm = np.array([[abs(i - j) * 0.5 for j in range(3)] for i in range(3)])
                a.set_distance_matrix(np.asfortranarray(dm.astype(np.float32)))     # same numbers, another layout and width
            b = cls(_api_sequences("prot", 4), bin_of("reorder"))
            b.start()
            a.start()
            b.join(timeout=20)
            a.join(timeout=20)
            cmd_a, cmd_b = a.get_command(), b.get_command()
            if "--only-for-a" in cmd_b or "-gapopen" in cmd_b or "--full" in cmd_b:
                v.append((f"C20/api/two-instances/{wr}/options-shared", cmd_b))
            if wr == "clustalo":
                txt = next((e.get("distmat_in") for e in sb.events() if e.get("event") == "started" and "distmat_in" in e), None)
                try:
                    lines = txt.split("\n")
                    nums = [[float(x) for x in line.split()] for line in lines[1:] if line.strip()]
                    ok_dm = lines[0].strip() == "3" and nums == [[float(i)] + [abs(i - j) * 0.5 for j in range(3)] for i in range(3)]
                except Exception:  # noqa: BLE001
                    ok_dm = False
                if not ok_dm:
                    v.append(("C20/api/two-instances/clustalo/distance-matrix-not-forwarded", repr(txt)))
                if a.get_distance_matrix().shape != (3, 3):
                    v.append(("C20/api/two-instances/clustalo/get_distance_matrix", str(a.get_distance_matrix())))
            if "--only-for-a" not in cmd_a:
                v.append((f"C20/api/two-instances/{wr}/options-lost", cmd_a))
            for app, n in ((a, 3), (b, 4)):
                r1, r2 = _rows_of(app.get_alignment(), False), _rows_of(app.get_alignment(), False)
                o1, o2 = list(app.get_alignment_order()), list(app.get_alignment_order())
                if r1 != r2 or o1 != o2 or len(r1) != n:
                    v.append((f"C20/api/two-instances/{wr}/repeated-read-differs", f"{r1} {r2} {o1} {o2}"))
            rows = {}
            for e in sb.events():
                if e.get("event") == "exit" and "rows" in e:
                    rows[len(e["rows"])] = dict(e["rows"])
            for app, n in ((a, 3), (b, 4)):
                got = _rows_of(app.get_alignment(), False)
                if got != [rows.get(n, {}).get(str(i)) for i in range(n)]:
                    v.append((f"C20/api/two-instances/{wr}/results-mixed-up", f"{got} vs {rows.get(n)}"))
            left = sb.leftovers()
            if left:
                v.append((f"C20/api/two-instances/{wr}/leak", str(left)))
        elif what == "supports":
            # what a wrapper accepts at construction is what its supports_*() flags say; refusals leave no temp file
            wr = case["wrapper"]
            cls = classes[wr]
            os.environ["C20_VERSION"] = "5.1" if wr == "muscle5" else "3.8.31"

            def build(seqs, matrix):
                for f in os.listdir(sb.tmp):
                    os.remove(os.path.join(sb.tmp, f))
                try:
                    if wr == "muscle5":
                        if matrix is not None:
                            return "n/a"
                        cls(seqs, bin_of("ok"))
                    else:
                        cls(seqs, bin_of("ok"), matrix)
                    return "ok"
                except Exception as e:  # noqa: BLE001
                    if os.listdir(sb.tmp):
                        v.append((f"C20/api/supports/{wr}/temp-files-after-refusal", f"{type(e).__name__}: {os.listdir(sb.tmp)}"))
                    return type(e).__name__
            prot, nuc, gen = _api_sequences("prot", 3), _api_sequences("nuc", 3), _api_sequences("generic", 3)
            # ClustalOmegaApp deliberately drops the matrix argument (documented: no custom matrices)
            exp = {
                "prot": "ok" if cls.supports_protein() else "TypeError",
                "nuc": "ok" if cls.supports_nucleotide() else "TypeError",
                "generic+matrix": "ok" if (cls.supports_protein() and cls.supports_custom_protein_matrix()) else "TypeError",
                "generic": "TypeError",
            }
            got = {"prot": build(prot, None), "nuc": build(nuc, None),
                   "generic+matrix": build(gen, _api_matrix(gen)) if wr != "muscle5" else build(gen, None),
                   "generic": build(gen, None)}
            if wr == "muscle5":
                exp["generic+matrix"] = "TypeError"
            if wr == "clustalo":
                exp["generic+matrix"] = "TypeError"
            for k in exp:
                if got[k] != exp[k]:
                    v.append((f"C20/api/supports/{wr}/{k}", f"constructing with {k}: {got[k]}, supports_* say {exp[k]}"))
            if wr in ("muscle3", "mafft"):
                r = build(prot, _api_matrix(prot, symmetric=False))
                if r != "ValueError":
                    v.append((f"C20/api/supports/{wr}/asymmetric-matrix", r))
                if wr == "mafft" and build(nuc, _api_matrix(nuc)) != "ok":
                    v.append((f"C20/api/supports/{wr}/nucleotide-matrix", "refused although supports_custom_nucleotide_matrix()"))
                if wr == "muscle3" and build(nuc, _api_matrix(nuc)) != "TypeError":
                    v.append((f"C20/api/supports/{wr}/nucleotide-matrix", "accepted although not supports_custom_nucleotide_matrix()"))
            if build(prot[:1], None) != "ValueError":
                v.append((f"C20/api/supports/{wr}/single-sequence", "fewer than two sequences accepted"))
            if build([prot[0], nuc[0]], None) != "ValueError":
                v.append((f"C20/api/supports/{wr}/mixed-alphabets", "sequences with different alphabets accepted"))
            for f in os.listdir(sb.tmp):
                os.remove(os.path.join(sb.tmp, f))
        elif what == "muscle-trees":
            from biotite.application.muscle import MuscleApp
            n = case["n"]
            app = MuscleApp(_api_sequences("prot", n), bin_of("ok"))
            app.start()
            app.join(timeout=20)
            ident, kmer = _show_clades(app.get_guide_tree()), _show_clades(app.get_guide_tree("kmer"))
            exp_ident = ";".join(f"0..{k}" for k in range(1, n))
            exp_kmer = ";".join(sorted((",".join(map(str, range(n - 1 - k, n))) if k < n - 1 else f"0..{n - 1}" for k in range(1, n)),
                                       key=lambda c: (c.count(",") if ".." not in c else n, c)))
            if ident != exp_ident or _show_clades(app.get_guide_tree(iteration="identity")) != exp_ident:
                v.append(("C20/api/muscle-trees/identity", f"{ident} expected {exp_ident}"))
            kc = sorted(kmer.split(";"))
            if kc != sorted(exp_kmer.split(";")):
                v.append(("C20/api/muscle-trees/kmer", f"{kmer} expected {exp_kmer}"))
            try:
                app.get_guide_tree("neither")
                v.append(("C20/api/muscle-trees/invalid-iteration-accepted", ""))
            except ValueError:
                pass
            left = sb.leftovers()
            if left:
                v.append(("C20/api/muscle-trees/leak", str(left)))
        elif what == "gap-shapes":
            # set_gap_penalty outside "a negative number or a pair of them": fractions are forwarded with one decimal;
            # values of the wrong shape / type are refused (ValueError / TypeError / IndexError) and change nothing
            import numpy as np
            from biotite.application.muscle import MuscleApp
            app = MuscleApp(_api_sequences("prot", 3), bin_of("ok"))
            app.set_gap_penalty((-2.5, -0.5))
            before = {k: repr(val) for k, val in vars(app).items()}
            for bad in ((-1.0,), (), "x", None, np.array([-1.0, -1.0]), {"open": -1}, (-1.0, "y"), (1.0, -1.0), 3.5):
                try:
                    app.set_gap_penalty(bad)
                    v.append((f"C20/api/gap-shapes/accepted/{type(bad).__name__}", f"set_gap_penalty({bad!r}) was accepted"))
                except (ValueError, TypeError, IndexError, KeyError):
                    pass
                after = {k: repr(val) for k, val in vars(app).items()}
                if after != before:
                    v.append((f"C20/api/gap-shapes/refusal-side-effect/{type(bad).__name__}",
                              f"set_gap_penalty({bad!r}) changed {[k for k in after if after[k] != before.get(k)]}"))
                    before = after
            app.start()
            app.join(timeout=20)
            args = next((e["args"] for e in sb.events() if e.get("event") == "started"), [])
            if not ("-gapopen" in args and args[args.index("-gapopen") + 1] == "-2.5" and args[args.index("-gapextend") + 1] == "-0.5"):
                v.append(("C20/api/gap-shapes/fraction-not-forwarded", str(args)))
            left = sb.leftovers()
            if left:
                v.append(("C20/api/gap-shapes/leak", str(left)))
        elif what == "map-matrix":
            import numpy as np
            from biotite.application.util import map_matrix
            from biotite.sequence import ProteinSequence
            gen = _api_sequences("generic", 2)
            m = _api_matrix(gen)
            before = m.score_matrix().copy()
            mm = map_matrix(m)
            sc = mm.score_matrix()
            k = len(gen[0].get_alphabet())
            if mm.get_alphabet1() != ProteinSequence.alphabet or mm.get_alphabet2() != ProteinSequence.alphabet:
                v.append(("C20/api/map_matrix/alphabet", "mapped matrix is not over the amino-acid alphabet"))
            if not (np.array_equal(sc[:k, :k], before) and not sc[k:, :].any() and not sc[:, k:].any()):
                v.append(("C20/api/map_matrix/scores", "scores not taken over into the upper-left corner / rest not 0"))
            if not np.array_equal(m.score_matrix(), before):
                v.append(("C20/api/map_matrix/argument-changed", ""))
            try:
                map_matrix(None)
                v.append(("C20/api/map_matrix/none-accepted", ""))
            except TypeError:
                pass
    seen, out = set(), []
    for k, m in v:
        if k not in seen:
            seen.add(k)
            out.append((k, m))
    return out


def _api_cases(quick):
    out = []
    for wr in ("clustalo", "muscle3", "muscle5", "mafft"):
        combos = [("ok", 3, "prot"), ("reorder", 4, "nuc"), ("exit3", 3, "prot"), ("garbage_swap", 3, "prot"), ("garbage_short", 3, "nuc")]
        if wr in ("muscle3", "mafft"):
            combos.append(("reorder", 3, "generic"))
        if not quick:
            combos += [("sigkill", 3, "prot"), ("garbage_missing", 3, "nuc"), ("reorder", 11, "prot"), ("garbage_tree", 3, "prot")]
        for tool, n, kind in combos:
            c = {"kind": "api", "what": "align", "wrapper": wr, "tool": tool, "n": n, "seqkind": kind}
            if wr == "muscle3" and tool == "ok":
                c["gap"] = [-7.0, -2.0]
                c["matrix"] = True
            if wr == "mafft" and tool == "ok":
                c["matrix"] = True
            out.append(c)
        out.append({"kind": "api", "what": "two-instances", "wrapper": wr})
        out.append({"kind": "api", "what": "supports", "wrapper": wr})
    for wr in ("clustalo", "muscle3", "muscle5", "mafft", "tantan"):
        out.append({"kind": "api", "what": "default-bin", "wrapper": wr})
    out += [{"kind": "api", "what": "version"}, {"kind": "api", "what": "forwarding", "tool": "ok"},
            {"kind": "api", "what": "forwarding", "tool": "exit3"}, {"kind": "api", "what": "muscle-trees", "n": 4},
            {"kind": "api", "what": "muscle-trees", "n": 3}, {"kind": "api", "what": "map-matrix"},
            {"kind": "api", "what": "gap-shapes"}]
    return out


def _fmt_obs(o):
    return f"st={o['st']} cwd={o['cwd']} files={o['files']} child={o['child']} cl={o['cl']}"


_TRACE_CACHE = {}


def execute(case):
    """Run the case on the real code. Returns (lines, trace); trace[i] = {op, result, before, after, extra}."""
    import warnings
    ops = case["ops"]
    w = ops[0].split()
    if w[0] == "newweb":
        return execute_web(case)
    if w[0] == "mapseq":
        return execute_mapseq(case)
    if w[0] != "new":
        return ["bad-op"] * len(ops), []
    sess = _Session(w[1], w[2], int(w[3]), w[4])
    sess.run_divergence = case.get("kind") == "divergence"
    lines, trace = [], []
    try:
        with warnings.catch_warnings():
            warnings.simplefilter("ignore")
            try:
                sess.new()
                res = "ok"
            except Exception as e:  # noqa: BLE001
                res = "ERR:" + type(e).__name__
                sess.app = None
            after = sess.observe()
            lines.append(res + " | " + _fmt_obs(after))
            trace.append({"op": ops[0], "result": res, "before": None, "after": after})
            for line in ops[1:]:
                if sess.app is None:
                    lines.append("no-app")
                    trace.append({"op": line, "result": "no-app", "before": after, "after": after})
                    continue
                before = after
                released_before = sess.released()
                is_call = line.split()[0] in ("call", "callbad", "setgap")
                snap_before = sess.snapshot()
                sess.last_exc = None
                res = sess.op(line)
                after = sess.frozen or sess.observe()
                sess.frozen = None
                extra = {"released_before": released_before, "exc": sess.last_exc}
                if (is_call and res.startswith("ERR:")) or res in ("ERR:AppStateError", "ERR:OverflowError"):
                    snap_after = sess.snapshot()
                    extra["attrs_changed"] = sorted(k for k in set(snap_before) | set(snap_after)
                                                    if snap_before.get(k, "<absent>") != snap_after.get(k, "<absent>"))
                if line == "call get_alignment" and res.startswith("ok"):
                    extra["tool_rows"] = sess.tool_rows()
                if line == "call get_alignment_order" and res.startswith("ok"):
                    extra["tool_rows"] = sess.tool_rows()
                lines.append(res + " | " + _fmt_obs(after))
                trace.append({"op": line, "result": res, "before": before, "after": after, "extra": extra})
    finally:
        sess.close()
    return lines, trace


def run_impl(case):
    lines, trace = execute(case)
    _TRACE_CACHE[json.dumps(case["ops"])] = trace
    return lines


# ---------------------------------------------------------------- property oracle (independent of the model)
def _oracle_cleanup_raises(case):
    """Oracle-only regression (no `ops`): a subclass whose clean_up() relies on a started run (like the sra apps'
    `self._process.kill()`) must not mask the launch error: start() raises the *launch* error, the state is CANCELLED,
    clean_up() was entered exactly once, a second start()/cancel() is refused."""
    from biotite.application.application import Application, AppStateError
    entered = []

    class Bad(Application):
        def run(self):
            raise FileNotFoundError("no such binary")

        def is_finished(self):
            return False

        def wait_interval(self):
            return 0.001

        def evaluate(self):
            pass

        def clean_up(self):
            entered.append(1)
            self._process.kill()          # AttributeError: never launched

    app = Bad()
    v = []
    try:
        app.start()
        v.append(("C20/launch-failure/start-succeeded", "start() returned although run() raised"))
    except FileNotFoundError:
        pass
    except Exception as e:  # noqa: BLE001
        v.append(("C20/launch-failure/error-masked-by-clean_up", f"start() raised {type(e).__name__} instead of the launch error"))
    if _state_of(app).name != "CANCELLED" or len(entered) != 1:
        v.append(("C20/leak/launch-failure/base", f"after the failed launch: state={_state_of(app).name} clean_up entered {len(entered)}x"))
    for name in ("start", "cancel", "join"):
        try:
            getattr(app, name)()
            v.append((f"C20/lifecycle/accepted-but-forbidden/{name}@CANCELLED", f"{name}() accepted after a failed launch"))
        except AppStateError:
            pass
        except Exception as e:  # noqa: BLE001
            v.append((f"C20/lifecycle/accepted-but-forbidden/{name}@CANCELLED", f"{name}() raised {type(e).__name__}"))
    if len(entered) != 1:
        v.append(("C20/cleanup-twice/launch-failure", f"clean_up entered {len(entered)}x"))
    return v


def _oracle_sra_eval_failure(case):
    """Oracle-only regression (no `ops`): the SRA apps have their own copy of LocalApp.join; a failing exit status of
    `prefetch; fasterq-dump` must end CANCELLED *with* clean_up() run once (fixed in 99c5bd4c), a refused call after that."""
    import subprocess
    from biotite.application.application import AppStateError
    from biotite.application.sra import FastqDumpApp
    entered = []

    class Probe(FastqDumpApp):
        def clean_up(self):
            entered.append(1)
            super().clean_up()

    old = {k: os.environ.get(k) for k in ("C20_GATE", "C20_LOG")}
    os.environ.pop("C20_GATE", None)
    os.environ.pop("C20_LOG", None)
    v = []
    try:
        app = Probe("SRR000001", prefetch_path=os.path.join(_bin_dir(), "exit3"), fasterq_dump_path=os.path.join(_bin_dir(), "exit3"))
        app.start()
        try:
            app.join(timeout=20)
            v.append(("C20/result/failing-exit-accepted/sra", "join() succeeded although the shell command exited with 3"))
        except subprocess.SubprocessError:
            pass
        if _state_of(app).name != "CANCELLED" or len(entered) != 1 or _proc_of(app).poll() is None:
            v.append(("C20/leak/exit-code/sra", f"after the failing exit: state={_state_of(app).name}, clean_up entered {len(entered)}x, "
                                                 f"child {'alive' if _proc_of(app).poll() is None else 'dead'}"))
        try:
            app.cancel()
            v.append(("C20/lifecycle/accepted-but-forbidden/cancel@CANCELLED", "cancel() accepted after the failed join"))
        except AppStateError:
            pass
    finally:
        for k, val in old.items():
            if val is not None:
                os.environ[k] = val
    return v


def oracle(case):
    """Entry point: an exception escaping a scenario that drives the real classes is itself the finding, under its own key."""
    try:
        return _oracle(case)
    except Exception as e:  # noqa: BLE001
        kind = case.get("kind", "?")
        head = (case.get("ops") or ["-"])[0].split()
        where = "/".join(head[1:3]) if len(head) >= 3 else str(case.get("what", "-"))
        return [(f"C20/scenario-raised/{kind}/{where}/{type(e).__name__}",
                 f"driving the real code raised {type(e).__name__}: {str(e)[:300]} ({case.get('ops') or case})")]


def _oracle(case):
    """Directly from the property statement, on the observed trace of the real code:
    (1) a call succeeds iff the documented life cycle allows it in the state the wrapper was in, otherwise AppStateError;
    (2) a refused call leaves state, cwd, temp files, child and clean-up count unchanged;
    (3) result getters succeed only after a successful join and return what the fake program logged, in input order;
    (4) once a run has ended (start raised / join returned or raised / cancel returned) clean_up ran exactly once and no
        child, temp file or changed cwd is left; clean_up never runs twice."""
    if case.get("kind") == "cleanup-raises":
        return _oracle_cleanup_raises(case)
    if case.get("kind") == "sra-eval-failure":
        return _oracle_sra_eval_failure(case)
    if case.get("kind") == "api":
        try:
            return _oracle_api(case)
        except Exception as e:  # noqa: BLE001  an exception escaping a scenario on the real classes is the finding itself
            return [(f"C20/api/{case.get('what')}/{case.get('wrapper', '-')}/raised/{type(e).__name__}",
                     f"{ {k: v for k, v in case.items() if k != 'kind'} } raised {type(e).__name__}: {str(e)[:300]}")]
    key = json.dumps(case["ops"])
    trace = _TRACE_CACHE.pop(key, None)
    if trace is None:
        _, trace = execute(case)
    if not trace:
        return []
    if case["ops"][0].startswith("newweb"):
        return _oracle_web(case, trace)
    if case["ops"][0].startswith("mapseq"):
        return _oracle_mapseq(case, trace)
    w = case["ops"][0].split()
    wrapper, tool = w[1], w[2]
    v = []
    ended = None      # how the run ended
    joined_ok = False
    nseq, seqkind = int(w[3]), w[4]
    # construction: exotic sequence types are legal for wrappers with custom protein matrices up to the amino-acid alphabet size
    if seqkind.startswith("generic") and wrapper in ("muscle3", "mafft") and not (wrapper == "muscle3" and tool in LAUNCH_FAILURE):
        k = int(seqkind[7:] or 3)
        r0 = trace[0]["result"]
        if nseq < 2:
            pass          # "at least two sequences" is checked first (ValueError), whatever the alphabet
        elif k <= len(PROTEIN_LETTERS) and r0 != "ok":
            v.append((f"C20/map_sequence/legal-alphabet-rejected/{k}", f"`{case['ops'][0]}` -> {r0}: an alphabet of {k} symbols fits the amino-acid alphabet"))
        elif k > len(PROTEIN_LETTERS) and r0 != "ERR:TypeError":
            v.append((f"C20/map_sequence/oversized-alphabet-accepted/{k}", f"`{case['ops'][0]}` -> {r0}"))
    # construction: documented refusals only (launch error of MUSCLE's version probe, < 2 sequences, exotic types without support)
    r0 = trace[0]["result"]
    if r0 != "ok":
        legit = ((wrapper in ("muscle3", "muscle5") and tool in LAUNCH_FAILURE and r0 == "ERR:" + LAUNCH_FAILURE[tool])
                 or (wrapper in ("clustalo", "muscle3", "muscle5", "mafft") and nseq < 2 and r0 == "ERR:ValueError")
                 or (seqkind.startswith("generic") and r0 == "ERR:TypeError"
                     and (wrapper in ("clustalo", "muscle5", "tantan") or int(seqkind[7:] or 3) > len(PROTEIN_LETTERS))))
        if not legit:
            v.append((f"C20/construct/valid-input-rejected/{wrapper}/{r0[4:]}",
                      f"`{case['ops'][0]}` -> {r0}: nothing in the documented contract refuses this input"))
    # exceptions a parser may raise on unparsable output (anything else escaping join() is a bug, not a refusal)
    parse_errors = {"KeyError", "ValueError", "TypeError", "IndexError", "InvalidFileError", "TreeError", "UnicodeDecodeError"}
    documented = {"start": set("ERR:" + e for e in LAUNCH_FAILURE.values()),
                  "join": {"ERR:TimeoutError", "ERR:SubprocessError", "ERR:EvalFailure"},
                  "get_distance_matrix": {"ERR:ValueError"},      # "requires full_matrix_calculation()"
                  "set_gap_penalty": {"ERR:ValueError"}, "set_distance_matrix": {"ERR:ValueError"},
                  "set_guide_tree": {"ERR:ValueError"}}           # invalid arguments (setgap / callbad ops)
    for t in trace[1:]:
        op, res, b, a = t["op"], t["result"], t["before"], t["after"]
        if res in ("no-app", "bad-op"):
            continue
        ww = op.split()
        if res == "unmodelled":
            continue          # the model's "diverges": the real call was made (divergence cases) and did block
        if case.get("kind") == "divergence" and ww[0] == "join" and t is trace[-1] and tool in HANGS and b["st"] == "RUNNING" \
                and (ww[1] == "-" or (ww[1] == "inf" and wrapper == "base")):
            v.append((f"C20/join/returned-although-program-never-exits/{wrapper}",
                      f"`{op}` -> {res} although the program never exits and no timeout applies ({case['ops']})"))
            break
        if ww[0] == "call" and ww[1] not in METHODS[wrapper]:
            if res != "ERR:AttributeError" or a != b:
                v.append((f"C20/no-such-method/{ww[1]}", f"`{op}` on {wrapper} -> {res} ({case['ops']})"))
            continue
        if ww[0] in ("setgap", "callbad") and {"setgap": "set_gap_penalty"}.get(ww[0], ww[-1]) not in METHODS[wrapper]:
            if res != "ERR:AttributeError" or a != b:
                v.append((f"C20/no-such-method/{ww[0]}", f"`{op}` on {wrapper} -> {res} ({case['ops']})"))
            continue
        if res == "hang-join":
            key = {"0": "C20/join/timeout-zero-does-not-time-out", "0.0": "C20/join/timeout-zero-does-not-time-out",
                   "t": "C20/join/timeout-does-not-time-out", "5": "C20/join/timeout-does-not-time-out",
                   "-": "C20/join/never-returns"}[ww[1]]
            v.append((key, f"`{op}` in state {b['st']} did not return within the watchdog limit ({case['ops']})"))
            break
        name = {"start": "start", "join": "join", "cancel": "cancel", "state": "get_app_state", "setgap": "set_gap_penalty"}.get(ww[0])
        if ww[0] in ("call", "callbad"):
            name = ww[1]
        if ww[0] == "join" and res == "ERR:OverflowError":
            # documented only in so far as `timeout` is "a float": inf cannot be honoured by communicate(); a refusal must be clean
            if not (ww[1] == "inf" and wrapper != "base" and b["st"] == "RUNNING"):
                v.append((f"C20/join/overflow-error/{ww[1]}@{b['st']}", f"`{op}` raised OverflowError ({case['ops']})"))
            if t["extra"].get("attrs_changed") or a != b:
                v.append((f"C20/rejected-call-side-effect/join/{'+'.join(t['extra'].get('attrs_changed') or ['resources'])}",
                          f"`{op}` was refused with OverflowError but changed something ({case['ops']})"))
            continue
        if ww[0] in ("call", "callbad", "setgap") and res.startswith("ERR:"):
            # a rejected call (state guard, argument validation, missing result) must not change anything the wrapper stores
            ch = t["extra"].get("attrs_changed") or []
            if ch or a != b:
                v.append((f"C20/rejected-call-side-effect/{name}/{'+'.join(ch) or 'resources'}",
                          f"`{op}` was rejected with {res[4:]} but changed {ch or [k for k in a if a[k] != b[k]]} ({case['ops']})"))
        if ww[0] == "setgap" and b["st"] == "CREATED" and wrapper == "muscle3":
            vals = [float(x) for x in ww[1:]]
            should_reject = any(x > 0 for x in vals)      # documented: "Gap penalty must be negative"
            if should_reject != (res == "ERR:ValueError") or (not should_reject and res != "ok"):
                v.append((f"C20/setter/set_gap_penalty/{'invalid-accepted' if should_reject else 'valid-rejected'}",
                          f"`{op}` -> {res} ({case['ops']})"))
        if ww[0] == "callbad" and b["st"] == "CREATED" and res != "ERR:ValueError":
            v.append((f"C20/setter/{name}/invalid-accepted", f"`{op}` (wrong size) -> {res} ({case['ops']})"))
        if name is not None:
            allowed = b["st"] in DOC_ALLOWED[name]
            refused = res == "ERR:AppStateError"
            if allowed and refused:
                v.append((f"C20/lifecycle/refused-but-allowed/{name}@{b['st']}", f"{op} in {b['st']} raised AppStateError ({case['ops']})"))
            if not allowed and not refused:
                v.append((f"C20/lifecycle/accepted-but-forbidden/{name}@{b['st']}", f"{op} in {b['st']} -> {res} ({case['ops']})"))
            if allowed and not refused and res.startswith("ERR:") and res not in documented.get(name, set()):
                v.append((f"C20/lifecycle/allowed-call-raised/{name}@{b['st']}/{res[4:]}",
                          f"`{op}` is allowed in {b['st']} but raised {res[4:]} ({case['ops']})"))
            if name == "get_guide_tree" and res.startswith("ok"):
                exp = "ok " + ";".join(f"0..{k}" for k in range(1, nseq))
                if res != exp:
                    v.append(("C20/result/guide-tree-differs-from-tool-output", f"{res} expected {exp} ({case['ops']})"))
            if name == "get_distance_matrix" and res.startswith("ok"):
                exp = "ok " + ",".join(str(k) for k in range(nseq))
                if res != exp:
                    v.append(("C20/result/distance-matrix-differs-from-tool-output", f"{res} expected {exp} ({case['ops']})"))
            if refused and t["extra"].get("attrs_changed"):
                v.append((f"C20/refusal-side-effect/{'+'.join(t['extra']['attrs_changed'])}/{b['st']}",
                          f"refused {op} changed the stored {t['extra']['attrs_changed']} ({case['ops']})"))
            if refused and a != b:
                diff = ",".join(k for k in a if a[k] != b[k])
                v.append((f"C20/refusal-side-effect/{diff}/{b['st']}", f"refused {op} changed {diff}: {b} -> {a} ({case['ops']})"))
            if name in RESULT_GETTERS and res.startswith("ok") and not joined_ok:
                v.append((f"C20/result-before-join/{name}", f"{op} -> {res} without a successful join ({case['ops']})"))
            if name == "get_alignment" and res.startswith("ok"):
                exp = "ok " + ",".join(f"r{i}" for i in range(int(w[3])))
                if res != exp:
                    v.append(("C20/result/alignment-differs-from-tool-output", f"{res} expected {exp}; tool rows {t['extra'].get('tool_rows')}"))
            if name == "get_alignment_order" and res.startswith("ok"):
                rows = t["extra"].get("tool_rows") or []
                exp = "ok " + ",".join(dict.fromkeys(h for h, _ in rows))      # one entry per header (first position)
                if res != exp:
                    v.append(("C20/result/order-differs-from-tool-output", f"{res} expected {exp}"))
            if (name == "join" and res == "ok" and wrapper in ("clustalo", "muscle3", "muscle5", "mafft")
                    and tool in ("garbage_empty", "garbage_missing", "garbage_ragged", "garbage_length", "garbage_short", "garbage_swap",
                                 "garbage_extra", "garbage_header")):
                v.append((f"C20/result/garbage-accepted/{tool}", f"join() succeeded although the program's output was {tool} ({case['ops']})"))
            if (name == "join" and not refused and ww[1] in ("-", "5") and res == "ERR:TimeoutError"
                    and tool not in HANGS and (ww[1] == "-" or t["extra"].get("released_before"))):
                v.append((f"C20/join/good-run-timed-out/{tool}",
                          f"`{op}` raised TimeoutError and cancelled the run although the program was free to finish ({case['ops']})"))
            if name == "join" and not refused and res in ("ERR:EvalFailure", "ERR:SubprocessError") and tool in ("ok", "reorder", "bigout"):     # (dup_records: accepting or refusing duplicates are both defensible)
                v.append((f"C20/result/valid-output-rejected/{wrapper}",
                          f"join() raised {res[4:]} although the program exited with 0 and wrote complete, valid output "
                          f"({nseq} sequences) ({case['ops']})"))
            if name == "join" and res == "ERR:EvalFailure" and (t["extra"].get("exc") or "ValueError") not in parse_errors:
                v.append((f"C20/join/unexpected-exception/{t['extra'].get('exc')}",
                          f"`{op}` raised {t['extra'].get('exc')}: not an error a parser raises on bad output ({case['ops']})"))
            if name == "join" and res == "ok" and tool in FAILING_EXIT:
                v.append((f"C20/result/failing-exit-accepted/{tool}",
                          f"join() succeeded although the program ended with a failing exit status ({tool}) ({case['ops']})"))
            # how runs end
            if not refused:
                if name == "start" and res != "ok":
                    ended = ended or "launch-failure"
                if name == "join":
                    if res == "ok":
                        joined_ok = True
                        ended = ended or "join"
                    elif res == "ERR:TimeoutError":
                        ended = ended or "timeout"
                    elif res == "ERR:SubprocessError":
                        ended = ended or "exit-code"
                    else:
                        ended = ended or "unparsable-output"
                if name == "cancel":
                    ended = ended or ("cancel" if res == "ok" else "cancel-raised")
        if a["cl"] > 1:
            v.append((f"C20/cleanup-twice/{ended}", f"clean_up ran {a['cl']} times after {op} ({case['ops']})"))
        if ended is not None:
            bad = []
            if a["cl"] != 1:
                bad.append(f"cleanups={a['cl']}")
            if a["files"] != 0:
                bad.append("temp-files")
            if a["child"] == "alive":
                bad.append("child-alive")
            if a["cwd"] != "same":
                bad.append("cwd-changed")
            if a["st"] not in ("JOINED", "CANCELLED"):
                bad.append("state-" + a["st"])
            if bad:
                v.append((f"C20/leak/{ended}/{'local' if wrapper not in ('base', 'mafft', 'tantan') else wrapper}",
                          f"run ended by {ended} but {'+'.join(bad)} after `{op}`: {a} ({case['ops']})"))
                break
        elif a["cwd"] != "same":
            v.append(("C20/cwd-changed-while-running", f"{a} after {op} ({case['ops']})"))
    # de-duplicate keys, keep first message
    seen, out = set(), []
    for k, m in v:
        if k not in seen:
            seen.add(k)
            out.append((k, m))
    return out


# ---------------------------------------------------------------- generator
def _new_line(rng, wrapper=None, tool=None):
    wrapper = wrapper or rng.choice(WRAPPERS)
    tool = tool or rng.choice(TOOLS + ["ok", "ok", "reorder"])
    if wrapper in ("muscle3", "muscle5") and tool == "missing":
        # get_version() in __init__ already fails: still a valid (construction-only) case, keep a few
        pass
    seqkind = "prot"
    if wrapper in ("clustalo", "muscle3", "muscle5", "mafft", "tantan"):
        seqkind = rng.choice(["prot", "prot", "nuc"])
        if wrapper in ("muscle3", "mafft") and rng.random() < 0.25:
            seqkind = "generic"
    nseq = rng.choice([2, 3, 3, 4])
    return f"new {wrapper} {tool} {nseq} {seqkind}"


CORE_OPS = ["start", "join -", "join t", "cancel", "state", "tick"]
BASE_OPS = CORE_OPS + ["join 0"]          # the generic Application.join is exhaustively driven with the boundary timeout too

TEMPLATES = [
    ["start", "tick", "join -"], ["start", "join -"], ["start", "join t"], ["start", "tick", "join t"],
    ["start", "cancel"], ["start", "tick", "cancel"], ["start", "tick", "state", "join -"], ["start", "tick", "state", "cancel"],
    ["start"], ["start", "start"], ["start", "state", "tick", "state"], ["call set_exec_dir", "start", "tick", "join -"],
    ["call set_exec_dir", "start", "join t"], ["call set_exec_dir", "start", "start", "cancel"],
]


def _sanitize(new_line, ops):
    """`join -` on a running program that never exits would block: use the timeout form in `hang` environments."""
    tool = new_line.split()[2]
    if tool in HANGS:
        ops = ["join t" if (o == "join -" or (o == "join inf" and new_line.split()[1] == "base")) else o for o in ops]
    if tool == "bigout":
        # once the gate is open a short timeout would race with the program draining its output: use the generous one
        out, ticked = [], False
        for o in ops:
            ticked = ticked or o == "tick"
            out.append("join 5" if (o == "join t" and ticked) else o)
        ops = out
    return ops


def _random_history(rng, wrapper, maxlen):
    ops = []
    n = rng.randint(1, maxlen)
    meths = METHODS[wrapper]
    setters = [m for m in meths if DOC_ALLOWED[m] == [_C]]
    if rng.random() < 0.75:                       # most histories do start the program (after 0-2 setters)
        for _ in range(rng.choice([0, 0, 1, 2]) if setters else 0):
            ops.append("call " + rng.choice(setters))
        ops.append("start")
    while len(ops) < n:
        r = rng.random()
        if r < 0.7 or not meths:
            ops.append(rng.choice(CORE_OPS + ["join -", "tick", "cancel", "join 0", "join 0.0", "chdir"]))
        else:
            ops.append("call " + rng.choice(meths))
    return ops[:maxlen]


def _mk(new_line, ops, kind):
    if kind == "divergence":      # the only cases in which a join() that must block is really called (as the last op)
        return {"kind": kind, "ops": [new_line] + list(ops)}
    return {"kind": kind, "ops": [new_line] + _sanitize(new_line, ops)}


def _exhaustive_base(maxlen):
    import itertools
    for tool in ["ok", "garbage_empty", "exit3", "hang", "missing"]:
        for n in range(1, maxlen + 1):
            for ops in itertools.product(BASE_OPS, repeat=n):
                yield _mk(f"new base {tool} 2 prot", list(ops), "base-exhaustive")


def _exhaustive_wrapper(wrapper, maxlen):
    """Thorough tier: every history up to maxlen over the six core ops x every tool, for one real wrapper."""
    import itertools
    for tool in TOOLS:
        for n in range(1, maxlen + 1):
            for ops in itertools.product(CORE_OPS, repeat=n):
                if "start" in ops:           # without a start nothing but refusals happens (covered by `base`)
                    yield _mk(f"new {wrapper} {tool} 3 prot", list(ops), wrapper + "-exhaustive")


def cases(rng, tier):
    quick = tier == "quick"
    maxlen = 6 if quick else 8
    n_tmpl, n_rand = (160, 160) if quick else (3000, 4000)
    # every guarded method once in every reachable state (one wrapper per method owner)
    seen = set()
    out = []

    def add(c):
        k = json.dumps(c["ops"])
        if k not in seen:
            seen.add(k)
            out.append(c)

    prefixes = [[], ["start"], ["start", "tick", "state"], ["start", "tick", "join -"], ["start", "cancel"]]
    for wrapper in WRAPPERS[1:]:
        own = [m for m in METHODS[wrapper] if wrapper == "local" or m not in METHODS["local"]]
        if wrapper == "clustalo":
            own = METHODS[wrapper]          # one wrapper exercises the inherited LocalApp/MSAApp methods as well
        for pre in prefixes:
            if quick and wrapper not in ("local", "clustalo") and rng.random() < 0.5:
                continue
            add(_mk(f"new {wrapper} ok 3 prot", pre + ["call " + m for m in own], "methods"))
    # launch failures of every kind, with the execution directory different from the caller's directory
    for wrapper in ("local", "clustalo", "mafft", "base"):
        for tool in LAUNCH_FAILURE:
            for tail in ([], ["cancel", "start"], ["state", "join t"]):
                add(_mk(f"new {wrapper} {tool} 3 prot", (["call set_exec_dir"] if wrapper != "base" else []) + ["start"] + tail,
                        "launch-failure"))
    # programs that end with a failing exit status after (possibly) writing complete output
    for wrapper in WRAPPERS:
        for tool in FAILING_EXIT:
            add(_mk(f"new {wrapper} {tool} 3 prot", ["start", "tick", "join -"] + (["call get_alignment"] if wrapper in ("clustalo", "muscle3", "muscle5", "mafft") else []), "failing-exit"))
            add(_mk(f"new {wrapper} {tool} 3 prot", ["start", "join -"], "failing-exit"))
            if wrapper != "base":
                add(_mk(f"new {wrapper} {tool} 3 prot", ["start", "tick", "state", "call get_exit_code", "join t", "call get_exit_code"], "failing-exit"))
    # programs that never exit (one of them ignores SIGTERM): cancel / timeout must leave no live child
    for wrapper in WRAPPERS:
        for tool in HANGS:
            for ops in ((["start", "cancel"], ["start", "join t"], ["start", "tick", "join 0.0", "state"]) if quick else
                        (["start", "cancel"], ["start", "join t"], ["start", "join 0"], ["start", "tick", "join 0.0", "state"],
                         ["start", "state", "cancel", "cancel"])):
                add(_mk(f"new {wrapper} {tool} 2 prot", ops, "hang"))
    # the boundary timeout 0 / 0.0 ("do not wait") in every state, finished and unfinished jobs
    for wrapper in WRAPPERS:
        for tool in (("ok", "exit3") if quick else ("ok", "reorder", "exit3")):
            for z in ("0", "0.0"):
                for ops in ([["start", f"join {z}", "state"], ["start", "tick", f"join {z}"], ["start", "tick", "state", f"join {z}"]]
                            if quick else
                            [[f"join {z}"], ["start", f"join {z}", "state"], ["start", "state", f"join {z}", f"join {z}"],
                             ["start", "tick", f"join {z}"], ["start", "tick", "state", f"join {z}"]]):
                    add(_mk(f"new {wrapper} {tool} 3 prot", ops, "join-zero"))
    # a program that writes more than a pipe buffer before it exits: join must read the pipes *while* waiting
    for wrapper in (("local", "mafft", "clustalo", "tantan") if quick else WRAPPERS[1:]):
        msa = wrapper in ("clustalo", "muscle3", "muscle5", "mafft")
        add(_mk(f"new {wrapper} bigout 3 prot", ["start", "tick", "join 5"] + (["call get_alignment"] if msa else ["call get_exit_code"]), "big-output"))
        add(_mk(f"new {wrapper} bigout 3 prot", ["start", "join -", "call get_stderr"], "big-output"))
        add(_mk(f"new {wrapper} bigout 3 prot", ["start", "tick", "state", "cancel"], "big-output"))
    # the caller changes its working directory between constructing the wrapper and start() / join()
    for wrapper in (("local", "clustalo", "mafft") if quick else WRAPPERS[1:]):
        for tool in ("ok", "missing", "nulbyte", "exit3"):
            if wrapper in ("muscle3", "muscle5") and tool in LAUNCH_FAILURE:
                continue
            add(_mk(f"new {wrapper} {tool} 3 prot", ["chdir", "start", "tick", "join -"], "caller-chdir"))
            add(_mk(f"new {wrapper} {tool} 3 prot", ["chdir", "call set_exec_dir", "start", "chdir", "join t"], "caller-chdir"))
            add(_mk(f"new {wrapper} {tool} 3 prot", ["start", "chdir", "cancel", "chdir"], "caller-chdir"))
    # setters that validate their arguments: a rejected call must not leave a half-updated option behind
    gap_vals = [("-3", "-1"), ("-5", "5"), ("5", "-1"), ("2",), ("-4",), ("0", "0"), ("-2", "1")]
    for i, first in enumerate(gap_vals):
        for second in gap_vals[(i + 1) % len(gap_vals):][:(2 if quick else len(gap_vals))]:
            add(_mk("new muscle3 ok 3 prot", ["setgap " + " ".join(first), "setgap " + " ".join(second), "start", "call get_command",
                                              "setgap -1"], "setter-validation"))
    add(_mk("new muscle3 ok 3 prot", ["call set_gap_penalty", "setgap -5 5", "start", "tick", "join -", "call get_command"], "setter-validation"))
    add(_mk("new clustalo ok 3 prot", ["callbad set_distance_matrix", "callbad set_guide_tree", "start", "join -", "call get_guide_tree"], "setter-validation"))
    add(_mk("new clustalo reorder 4 prot", ["call set_guide_tree", "call set_distance_matrix", "callbad set_guide_tree", "callbad set_distance_matrix",
                                            "start", "callbad set_guide_tree", "join -", "call get_guide_tree"], "setter-validation"))
    # interplay of setters: every ordered pair (thorough: also triples) of a wrapper's own setters, and own x inherited ones,
    # on ONE app, followed by a complete run and every result getter (a setter must not change what another one means)
    import itertools
    inherited = ["set_exec_dir", "add_additional_options", "set_stdin", "set_arguments"]
    for wrapper, tool, n in (("clustalo", "reorder", 4), ("muscle3", "ok", 3), ("muscle5", "reorder", 3), ("mafft", "ok", 3)):
        own = [m for m in METHODS[wrapper] if DOC_ALLOWED[m] == [_C] and m not in METHODS["local"]]
        getters = ["call " + m for m in METHODS[wrapper] if DOC_ALLOWED[m] == [_J]] + ["call get_command"]
        combos = [list(p) for p in itertools.permutations(own, 2)]
        combos += [list(p) for p in itertools.permutations(own, 3)][:(3 if quick else None)]
        for o in (own or inherited[:1]):
            for i in (inherited[:2] if quick else inherited):
                if i != o:
                    combos += [[o, i], [i, o]]
        if wrapper == "muscle3":
            combos += [["setgap -3 -1", "set_exec_dir"], ["set_gap_penalty", "setgap -2"]]
        for combo in combos:
            ops = [c if c.startswith("setgap") else "call " + c for c in combo]
            add(_mk(f"new {wrapper} {tool} {n} prot", ops + ["start", "tick", "join -"] + getters, "setter-interplay"))
    # ---- audit 6: regions the model / generator used to abstain from
    # (1) a join() that must block is really called: program never exits, no (effective) timeout
    for wrapper in (("base", "local", "clustalo") if quick else WRAPPERS):
        for tool in HANGS:
            add(_mk(f"new {wrapper} {tool} 2 prot", ["start", "join -"], "divergence"))
    add(_mk("new base hang 2 prot", ["start", "tick", "join inf"], "divergence"))
    # (2) timeouts outside "a small positive number": negative (expired), inf (refused by communicate / never for the poll loop)
    for wrapper in (("base", "local", "mafft") if quick else WRAPPERS):
        for z in ("-1", "inf"):
            add(_mk(f"new {wrapper} ok 3 prot", ["start", f"join {z}", "state", "cancel"], "odd-timeouts"))
            add(_mk(f"new {wrapper} reorder 3 prot", ["start", "tick", f"join {z}", "join -"], "odd-timeouts"))
            add(_mk(f"new {wrapper} exit3 3 prot", ["start", "tick", "state", f"join {z}"], "odd-timeouts"))
    # (3) records of the output that are not a permutation of the inputs: duplicates (accepted: dict semantics), one too many,
    #     a header that is no index (both refused)
    for wrapper in ("clustalo", "muscle3", "muscle5", "mafft"):
        for tool in ("dup_records", "garbage_extra", "garbage_header"):
            add(_mk(f"new {wrapper} {tool} 3 prot", ["start", "tick", "join -", "call get_alignment", "call get_alignment_order"], "odd-records"))
    # (4) sequences outside "3 to 6 symbols": an empty one, very long ones; a protein matrix (TantanApp then owns a second temp file)
    for wrapper in ("clustalo", "muscle3", "muscle5", "mafft", "tantan"):
        for kind in ("protempty", "protlong", "protmat"):
            tail = ["call get_alignment", "call get_alignment_order"] if wrapper != "tantan" else ["call get_mask"]
            add(_mk(f"new {wrapper} {'reorder' if kind != 'protmat' else 'ok'} 3 {kind}", ["start", "tick", "join -"] + tail, "odd-sequences"))
    add(_mk("new tantan exit3 3 protmat", ["start", "join -"], "odd-sequences"))
    add(_mk("new tantan hang 3 protmat", ["start", "cancel"], "odd-sequences"))
    # (5) calls of methods a wrapper does not have (the model's `noMethod`)
    add(_mk("new local ok 2 prot", ["call get_alignment", "start", "call get_guide_tree"], "no-such-method"))
    add(_mk("new mafft ok 3 prot", ["setgap -1", "callbad set_guide_tree", "call use_super5", "start", "join -", "call get_mask"], "no-such-method"))
    add(_mk("new tantan ok 3 prot", ["call get_alignment_order", "start"], "no-such-method"))
    # a row that LOST a residue (too few symbols: the trace stays inside the sequence, the alignment would silently lack residues)
    for wrapper in ("clustalo", "muscle3", "muscle5", "mafft"):
        for n, kind in ((3, "prot"), (2, "nuc")) + (((4, "generic"),) if wrapper in ("muscle3", "mafft") else ()):
            add(_mk(f"new {wrapper} garbage_short {n} {kind}", ["start", "tick", "join -", "call get_alignment"], "garbage-short"))
    # corrupted output whose per-row symbol-count errors cancel
    for wrapper in ("clustalo", "muscle3", "muscle5", "mafft"):
        add(_mk(f"new {wrapper} garbage_swap {3 if wrapper != 'mafft' else 4} prot", ["start", "tick", "join -", "call get_alignment"], "garbage-swap"))
    # ten and more sequences (two-digit running numbers / names in the tools' output files), all result getters
    big = [("mafft", "ok", 11), ("mafft", "reorder", 10), ("clustalo", "reorder", 12), ("muscle3", "ok", 10), ("muscle5", "reorder", 11)]
    if not quick:
        big += [(wr, tl, n) for wr in ("mafft", "clustalo", "muscle3", "muscle5") for tl in ("ok", "reorder") for n in (10, 11, 12)]
    for wr, tl, n in big:
        getters = ["call get_alignment", "call get_alignment_order"] + (["call get_guide_tree"] if wr != "muscle5" else [])
        add(_mk(f"new {wr} {tl} {n} prot", ["start", "tick", "join -"] + getters, "many-sequences"))
    add(_mk("new clustalo ok 4 prot", ["call full_matrix_calculation", "start", "join -", "call get_distance_matrix", "call get_guide_tree"], "many-sequences"))
    add(_mk("new clustalo reorder 11 nuc", ["call full_matrix_calculation", "call set_guide_tree", "start", "tick", "join -",
                                           "call get_distance_matrix", "call get_guide_tree", "call get_alignment"], "many-sequences"))
    # exotic sequence types: custom alphabets of every size up to the amino-acid alphabet (24), exactly 24, and 25
    sizes = (1, 2, 20, 23, 24, 25) if quick else tuple(range(1, 27))
    for wr in ("muscle3", "mafft"):
        for k in sizes:
            add(_mk(f"new {wr} {'reorder' if k % 2 else 'ok'} 3 generic{k}", ["start", "tick", "join -", "call get_alignment", "call get_seqtype"], "alphabet-size"))
    for wr in ("clustalo", "muscle5"):
        add(_mk(f"new {wr} ok 3 generic4", ["start"], "alphabet-size"))     # no custom matrices: TypeError at construction
    # sizes exactly on a limit: one sequence (refused: ValueError, before any other check), two sequences (the minimum)
    for wr in ("clustalo", "muscle3", "muscle5", "mafft"):
        add(_mk(f"new {wr} ok 1 prot", ["start"], "size-limits"))
        add(_mk(f"new {wr} reorder 2 nuc", ["start", "tick", "join -", "call get_alignment", "call get_alignment_order"]
                + (["call get_guide_tree"] if wr != "muscle5" else []), "size-limits"))
    add(_mk("new mafft ok 1 generic25", ["start"], "size-limits"))
    add(_mk("new muscle3 missing 1 prot", ["start"], "size-limits"))
    add(_mk("new tantan ok 1 prot", ["start", "join -", "call get_mask"], "size-limits"))
    for k in sizes:
        codes = sorted({0, k // 2, k - 1})
        out.append({"kind": "mapseq", "ops": [f"mapseq {k} {','.join(map(str, codes))}", f"mapseq {k} _",
                                               f"mapseq {k} {','.join(str((7 * j) % k) for j in range(9))}"]})
    for c in _exhaustive_base(3 if quick else 4):
        if not quick or len(c["ops"]) <= 3 or rng.random() < 0.12:
            add(c)
    if not quick:
        for c in _exhaustive_wrapper("mafft", 3):
            add(c)
    for _ in range(n_tmpl):
        wrapper = rng.choice(WRAPPERS)
        nl = _new_line(rng, wrapper)
        ops = list(rng.choice(TEMPLATES))
        # random insertions / a random tail
        for _ in range(rng.choice([0, 0, 1, 2])):
            pos = rng.randint(0, len(ops))
            meths = METHODS[wrapper]
            ins = rng.choice(CORE_OPS) if (rng.random() < 0.5 or not meths) else "call " + rng.choice(meths)
            ops.insert(pos, ins)
        if wrapper != "base" and rng.random() < 0.5:
            ops += ["call " + rng.choice(["get_alignment", "get_alignment_order", "get_exit_code", "get_command"])
                    if wrapper != "local" else "call get_exit_code"]
        add(_mk(nl, [o for o in ops if not o.startswith("call ") or o[5:] in METHODS[wrapper]][:maxlen], "template"))
    for _ in range(n_rand):
        wrapper = rng.choice(WRAPPERS)
        add(_mk(_new_line(rng, wrapper), _random_history(rng, wrapper, maxlen), "random"))
    for c in _web_cases(rng, 150 if quick else 2500, maxlen):
        add(c)
    out += _api_cases(quick)
    return out


def corpus():
    return [
        # DESIGN §8 row 25: failing evaluate() must clean up
        {"kind": "regression", "ops": ["new clustalo exit3 3 prot", "start", "tick", "join -"]},
        {"kind": "regression", "ops": ["new muscle3 garbage_missing 3 prot", "start", "join -"]},
        {"kind": "regression", "ops": ["new base garbage_empty 2 prot", "start", "tick", "join -", "cancel"]},
        # DESIGN §8 row 26: failed launch must restore cwd, clean up, leave a terminal state
        {"kind": "regression", "ops": ["new clustalo missing 3 prot", "call set_exec_dir", "start", "cancel", "start"]},
        {"kind": "regression", "ops": ["new local missing 2 prot", "call set_exec_dir", "start"]},
        # ... also when the launch failure is not an OSError (NUL byte in the command: ValueError) or a PermissionError
        {"kind": "regression", "ops": ["new clustalo nulbyte 3 prot", "call set_exec_dir", "start", "cancel"]},
        {"kind": "regression", "ops": ["new local isdir 2 prot", "call set_exec_dir", "start"]},
        # a program killed by a signal after writing valid output has failed (negative return code)
        {"kind": "regression", "ops": ["new muscle5 sigkill 3 prot", "start", "tick", "join -", "call get_alignment"]},
        # ... and a subclass clean_up() that raises after the failed launch must not mask the launch error (oracle-only)
        {"kind": "cleanup-raises"},
        # the SRA apps' own join(): failing exit status must clean up too (oracle-only)
        {"kind": "sra-eval-failure"},
        # MAFFT clean_up
        {"kind": "regression", "ops": ["new mafft ok 3 prot", "start", "tick", "join -", "call get_alignment"]},
        {"kind": "regression", "ops": ["new mafft ok 3 prot", "start", "cancel"]},
        {"kind": "regression", "ops": ["new mafft hang 3 nuc", "start", "join t"]},
        # refused call must not poll
        {"kind": "regression", "ops": ["new local ok 2 prot", "start", "tick", "call get_exit_code", "call get_exit_code"]},
        # output whose rows do not have the input's symbol counts must be rejected
        {"kind": "regression", "ops": ["new mafft garbage_length 3 generic", "start", "tick", "join -", "call get_alignment"]},
        # a hanging program that ignores SIGTERM must still be gone after cancel / timeout
        {"kind": "regression", "ops": ["new clustalo hang_ignore_term 2 prot", "start", "cancel"]},
        {"kind": "regression", "ops": ["new local hang_ignore_term 2 prot", "start", "join t"]},
        # timeout 0 / 0.0 on an unfinished job is a timeout, not "no timeout"
        {"kind": "regression", "ops": ["new base ok 2 prot", "start", "join 0", "state"]},
        {"kind": "regression", "ops": ["new base hang 2 prot", "start", "join 0.0"]},
        # round 4: big output on a pipe, caller changes directory, half-valid setter arguments, cancelling length errors
        {"kind": "regression", "ops": ["new mafft bigout 3 prot", "start", "tick", "join 5", "call get_alignment"]},
        {"kind": "regression", "ops": ["new local missing 2 prot", "chdir", "start"]},
        {"kind": "regression", "ops": ["new clustalo ok 3 prot", "chdir", "start", "tick", "join -"]},
        {"kind": "regression", "ops": ["new muscle3 ok 3 prot", "setgap -3 -1", "setgap -5 5", "start", "call get_command"]},
        {"kind": "regression", "ops": ["new muscle5 garbage_swap 3 prot", "start", "join -", "call get_alignment"]},
        # round 6: the per-row check is an equality (a row with a LOST residue is refused as well), witness of fix c729525f's other half
        {"kind": "regression", "ops": ["new clustalo garbage_short 3 prot", "start", "tick", "join -", "call get_alignment"]},
        # round 5: an input distance matrix AND full_matrix_calculation on one app: the result is the program's matrix
        {"kind": "regression", "ops": ["new clustalo ok 3 prot", "call set_distance_matrix", "call full_matrix_calculation", "start", "tick",
                                       "join -", "call get_distance_matrix"]},
        {"kind": "regression", "ops": ["new clustalo reorder 4 nuc", "call full_matrix_calculation", "call set_distance_matrix",
                                       "call set_guide_tree", "start", "join -", "call get_distance_matrix", "call get_guide_tree"]},
        # reordered output, custom alphabet
        {"kind": "regression", "ops": ["new muscle3 reorder 4 generic", "start", "tick", "state", "join -", "call get_alignment",
                                       "call get_alignment_order"]},
    ]


def nontrivial(case, impl_out):
    return "start" in case.get("ops", ["start"])


def signature(case):
    return "|".join(case.get("ops", [json.dumps({k: v for k, v in case.items() if not k.startswith("_")}, sort_keys=True)]))


def distribution(cases, impl_outs):
    wr, tools, ends, results = {}, {}, {}, {}
    for c, o in zip(cases, impl_outs):
        if not c.get("ops"):
            continue
        w = c["ops"][0].split()
        if w[0] == "newweb":
            w = ["new", "blastweb", w[1] + "/" + w[3]]
        if w[0] == "mapseq":
            w = ["new", "map_sequence", "-"]
        wr[w[1]] = wr.get(w[1], 0) + 1
        tools[w[2]] = tools.get(w[2], 0) + 1
        for line in o or []:
            r = line.split(" | ")[0].split(" ")[0]
            results[r] = results.get(r, 0) + 1
        if o:
            last = o[-1].split("st=")[-1].split(" ")[0] if "st=" in o[-1] else "?"
            ends[last] = ends.get(last, 0) + 1
    return {"wrappers": wr, "tools": tools, "final_states": ends, "results": results}


def search(rng, problems, tier):
    yield from cases(rng, tier)


def shrink(case, key):
    from common import util
    if not case.get("ops"):
        return case
    head, ops = case["ops"][0], case["ops"][1:]

    def fails(sub):
        c = dict(case, ops=[head] + list(sub))
        return any(k == key for k, _ in oracle(c))
    return dict(case, ops=[head] + util.shrink_list(ops, fails, max_steps=40))


if __name__ == "__main__":
    import sys
    sys.path.insert(0, os.path.dirname(os.path.dirname(os.path.abspath(__file__))))
    from common import paths
    sys.path.insert(0, paths.SRC)
    c = {"kind": "cli", "ops": [s.strip() for s in " ".join(sys.argv[1:]).split(";")]}
    for op, line in zip(c["ops"], run_impl(c)):
        print(f"{op:28s} -> {line}")
    for k, m in oracle(c):
        print("ORACLE", k, "::", m)

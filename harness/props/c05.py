"""C05 — BinaryCIF encodings are invertible; compression stays within tolerance.

Plugin interface (see harness/README.md):
  constants  PROP, PROPS_MODULE, EXT_MODULES, GEN_FILES, RULE, TRUSTED, ASSUMPTIONS
  gen_lean() -> {path under lean/: content}      regenerated from /repo on every run
  cases(rng, tier) -> iterable of case dicts     {"kind", "ops": [protocol lines], ...}
  run_impl(case) -> [one canonical output line per op]   (the real code)
  oracle(case) -> [(finding_key, message)]       independent statement of the property
  nontrivial(case, impl_out), signature(case), search(rng, problems, tier)
"""
import os
import re

PROP = "C05"
PROPS_MODULE = "BiotiteModel.Props.C05"
EXT_MODULES = ["biotite.structure.io.pdbx.encoding"]
GEN_FILES = ["BiotiteModel/Gen/C05.lean"]
RULE = ("seeded arrays of every BinaryCIF integer dtype (boundary values, runs, empty, length 1) through "
        "RunLength/Delta/IntegerPacking/_safe_cast encode and decode, op by op against the Lean model; "
        "round-trip oracle decode(encode(x)) == x on the real code. non-trivial = array has >= 2 distinct "
        "values or hits an error/boundary branch; distinct = different (op, dtype, data)")
TRUSTED = ["numpy casts/diff/cumsum modelled as two's-complement wrap", "msgpack (file level) trusted"]
ASSUMPTIONS = ["float encodings (FixedPoint, IntervalQuantization) are modelled over exact rationals; float32/64 rounding is not verified"]

NP = {"i8": "int8", "i16": "int16", "i32": "int32", "u8": "uint8", "u16": "uint16", "u32": "uint32", "i64": "int64"}
RANGE = {"i8": (-2**7, 2**7 - 1), "i16": (-2**15, 2**15 - 1), "i32": (-2**31, 2**31 - 1),
         "u8": (0, 2**8 - 1), "u16": (0, 2**16 - 1), "u32": (0, 2**32 - 1), "i64": (-2**63, 2**63 - 1)}
SUPPORTED = {k: ("i32" if k == "i64" else k) for k in NP}


def _ints(xs):
    return ",".join(str(int(x)) for x in xs) if len(xs) else "_"


# ---------------------------------------------------------------- translator (Gen)
def gen_lean():
    from common import paths
    src = open(os.path.join(paths.SRC, "biotite/structure/io/pdbx/encoding.pyx")).read()
    m = re.search(r"class TypeCode\(IntEnum\):(.*?)\n\s*@staticmethod", src, re.S)
    if not m:
        raise ValueError("TypeCode enum not found in encoding.pyx")
    codes = re.findall(r"^\s+([A-Z0-9]+)\s*=\s*(\d+)\s*$", m.group(1), re.M)
    m2 = re.search(r"_TYPE_CODE_TO_DTYPE\s*=\s*\{(.*?)\}", src, re.S)
    if not m2:
        raise ValueError("_TYPE_CODE_TO_DTYPE not found")
    dts = re.findall(r"TypeCode\.([A-Z0-9]+)\s*:\s*\"([^\"]+)\"", m2.group(1))
    if not codes or not dts:
        raise ValueError("could not extract TypeCode tables")
    body = ["/- REGENERATED on every run by harness/props/c05.py from structure/io/pdbx/encoding.pyx. Do not edit. -/",
            "namespace BiotiteModel.Gen.C05",
            "/-- `TypeCode` members: (name, code). -/",
            "def typeCodes : List (String × Nat) := [" + ", ".join(f'("{n}", {c})' for n, c in codes) + "]",
            "/-- `_TYPE_CODE_TO_DTYPE`: (member name, numpy dtype string). -/",
            "def typeCodeToDtype : List (String × String) := [" + ", ".join(f'("{n}", "{d}")' for n, d in dts) + "]",
            "end BiotiteModel.Gen.C05", ""]
    return {"BiotiteModel/Gen/C05.lean": "\n".join(body)}


# ---------------------------------------------------------------- generator
def _values(rng, t, n):
    lo, hi = RANGE[t]
    pool = [lo, lo + 1, hi, hi - 1, 0, 1, -1 if lo < 0 else 2, 127, 128, 255, 256, 32767, 32768, 65535]
    pool = [p for p in pool if lo <= p <= hi]
    out = []
    while len(out) < n:
        r = rng.random()
        if r < 0.35 and out:
            out += [out[-1]] * rng.randint(1, 4)      # runs
        elif r < 0.6:
            out.append(rng.choice(pool))
        elif r < 0.8:
            out.append(rng.randint(max(lo, -300), min(hi, 300)))
        else:
            out.append(rng.randint(lo, hi))
    return out[:n]


def cases(rng, tier):
    n_cases = 400 if tier == "quick" else 8000
    types = ["i8", "i16", "i32", "u8", "u16", "u32", "i64"]
    for _ in range(n_cases):
        t = rng.choice(types)
        n = rng.choice([0, 1, 1, 2, 3, 5, 8, 13, 30])
        kind = rng.choice(["rle", "rle", "delta", "delta", "pack", "pack", "safe_cast", "rle_dec", "pack_dec"])
        if kind == "rle":
            # int64 arrays may exceed the stored int32: then _safe_cast must reject
            xs = _values(rng, t if (t != "i64" or rng.random() < 0.3) else "i32", n)
            srcsize = rng.choice(["-", "-", str(len(xs)), str(len(xs) + 1)])
            yield {"kind": "rle", "ops": [f"rle_enc {t} {srcsize} {_ints(xs)}"],
                   "rt": {"enc": "rle", "dtype": t, "data": xs}}
        elif kind == "rle_dec":
            t6 = rng.choice(types[:6])
            pairs = []
            for _ in range(rng.randint(0, 5)):
                pairs += [rng.choice(_values(rng, "i32", 3)), rng.randint(0, 4)]
            if rng.random() < 0.1:
                pairs.append(1)  # malformed: odd length
            total = sum(pairs[1::2]) if len(pairs) % 2 == 0 else 0
            srcsize = rng.choice(["-", str(total), str(total + 2), str(max(0, total - 1))])
            yield {"kind": "rle_dec", "ops": [f"rle_dec {t6} {srcsize} {_ints(pairs)}"]}
        elif kind == "delta":
            xs = _values(rng, t, n)
            if t == "i64" and xs:
                xs[0] = rng.randint(-1000, 1000)     # origin must fit the stored int32 for `+=` to be defined
            case = {"kind": "delta", "ops": [f"delta_enc {t} {_ints(xs)}"], "rt": {"enc": "delta", "dtype": t, "data": xs}}
            if xs:
                ds = _values(rng, "i32", rng.randint(0, 6))
                o = rng.choice(_values(rng, SUPPORTED[t], 2))
                case["ops"].append(f"delta_dec {t} {o} {_ints(ds)}")
            yield case
        elif kind == "pack":
            bc = rng.choice([1, 2, 1, 2, 3])
            u = rng.choice(["u", "s", "a"])
            xs = _values(rng, rng.choice(["i32", "i16", "u16", "i8"]), n)
            if u == "u" and rng.random() < 0.8:
                xs = [abs(x) % 2**31 for x in xs]
            # keep streams short: a packed int32 needs |x|/127 words
            xs = [x if abs(x) < 200000 else x % 200000 for x in xs]
            yield {"kind": "pack", "ops": [f"pack_enc {bc} {u} {_ints(xs)}"],
                   "rt": {"enc": "pack", "bc": bc, "u": u, "data": xs}}
        elif kind == "pack_dec":
            pt = rng.choice(["i8", "u8", "i16", "u16"])
            xs = _values(rng, pt, rng.randint(0, 8))
            lo, hi = RANGE[pt]
            n_out = sum(1 for x in xs if x != hi and x != (lo if lo != 0 else -1))
            srcsize = rng.choice([n_out, n_out, n_out + 1, max(0, n_out - 1)])
            yield {"kind": "pack_dec", "ops": [f"pack_dec {pt} {srcsize} {_ints(xs)}"]}
        else:
            dst = rng.choice(types[:6])
            xs = _values(rng, t, n)
            yield {"kind": "safe_cast", "ops": [f"safe_cast {t} {dst} {_ints(xs)}"],
                   "rt": {"enc": "bytes", "dtype": t, "dst": dst, "data": xs}}


def corpus():
    return [
        {"kind": "rle", "ops": ["rle_enc u32 - 4294967295,4294967295,0"], "rt": {"enc": "rle", "dtype": "u32", "data": [4294967295, 4294967295, 0]}},
        {"kind": "pack", "ops": ["pack_enc 1 s 127,-128,254,-256,0"], "rt": {"enc": "pack", "bc": 1, "u": "s", "data": [127, -128, 254, -256, 0]}},
        {"kind": "delta", "ops": ["delta_enc u8 250,3,255,0", "delta_dec u8 250 0,9,252,1"], "rt": {"enc": "delta", "dtype": "u8", "data": [250, 3, 255, 0]}},
    ]


# ---------------------------------------------------------------- implementation adapter
def _fmt(fn):
    try:
        return fn()
    except Exception as e:  # noqa: BLE001
        return "ERR:" + type(e).__name__


def _parse(s):
    return [] if s == "_" else [int(x) for x in s.split(",")]


def run_impl(case):
    import numpy as np
    from biotite.structure.io.pdbx import encoding as E

    out = []
    for op in case["ops"]:
        w = op.split()
        if w[0] == "rle_enc":
            t, n, xs = w[1], (None if w[2] == "-" else int(w[2])), _parse(w[3])
            out.append(_fmt(lambda: "ok " + _ints(E.RunLengthEncoding(src_size=n).encode(np.array(xs, dtype=NP[t])))))
        elif w[0] == "rle_dec":
            t, n, xs = w[1], (None if w[2] == "-" else int(w[2])), _parse(w[3])
            out.append(_fmt(lambda: "ok " + _ints(E.RunLengthEncoding(src_size=n, src_type=np.dtype(NP[t])).decode(np.array(xs, dtype=np.int32)))))
        elif w[0] == "delta_enc":
            t, xs = w[1], _parse(w[2])

            def f():
                enc = E.DeltaEncoding()
                r = enc.encode(np.array(xs, dtype=NP[t]))
                return f"ok {int(enc.origin)} {_ints(r)}"
            out.append(_fmt(f))
        elif w[0] == "delta_dec":
            t, o, xs = w[1], int(w[2]), _parse(w[3])
            out.append(_fmt(lambda: "ok " + _ints(E.DeltaEncoding(src_type=np.dtype(NP[t]), origin=o).decode(np.array(xs, dtype=np.int32)))))
        elif w[0] == "pack_enc":
            bc, u, xs = int(w[1]), {"u": True, "s": False, "a": None}[w[2]], _parse(w[3])
            out.append(_fmt(lambda: "ok " + _ints(E.IntegerPackingEncoding(byte_count=bc, is_unsigned=u).encode(np.array(xs, dtype=np.int32)))))
        elif w[0] == "pack_dec":
            pt, n, xs = w[1], int(w[2]), _parse(w[3])
            bc = 1 if pt in ("i8", "u8") else 2
            out.append(_fmt(lambda: "ok " + _ints(E.IntegerPackingEncoding(byte_count=bc, src_size=n, is_unsigned=pt.startswith("u")).decode(np.array(xs, dtype=NP[pt])))))
        elif w[0] == "safe_cast":
            a, b, xs = w[1], w[2], _parse(w[3])
            out.append(_fmt(lambda: "ok " + _ints(E._safe_cast(np.array(xs, dtype=NP[a]), np.dtype(NP[b])))))
        else:
            out.append("bad-op")
    return out


# ---------------------------------------------------------------- property oracle (independent of the model)
def oracle(case):
    """decode(encode(x)) == x on the real code, or a rejection; never a silently different array."""
    import numpy as np
    from biotite.structure.io.pdbx import encoding as E

    rt = case.get("rt")
    if not rt:
        return []
    data = rt["data"]
    v = []
    try:
        if rt["enc"] == "rle":
            arr = np.array(data, dtype=NP[rt["dtype"]])
            enc = E.RunLengthEncoding()
            back = enc.decode(enc.encode(arr))
        elif rt["enc"] == "delta":
            arr = np.array(data, dtype=NP[rt["dtype"]])
            enc = E.DeltaEncoding()
            back = enc.decode(enc.encode(arr))
        elif rt["enc"] == "pack":
            arr = np.array(data, dtype=np.int32)
            enc = E.IntegerPackingEncoding(byte_count=rt["bc"], is_unsigned={"u": True, "s": False, "a": None}[rt["u"]])
            back = enc.decode(enc.encode(arr))
        elif rt["enc"] == "bytes":
            arr = np.array(data, dtype=NP[rt["dtype"]])
            enc = E.ByteArrayEncoding(type=np.dtype(NP[rt["dst"]]))
            back = enc.decode(enc.encode(arr))
        else:
            return []
    except Exception:
        return []          # rejected: allowed by the property
    if len(back) != len(data) or any(int(a) != int(b) for a, b in zip(back, data)):
        if rt["enc"] == "delta" and rt["dtype"] == "i64":
            key = "C05/DeltaEncoding/int64-differences-exceed-int32"
        else:
            key = f"C05/{rt['enc']}/roundtrip"
        v.append((key, f"{rt} decodes to {[int(x) for x in back][:12]}"))
    return v


def nontrivial(case, impl_out):
    data = (case.get("rt") or {}).get("data")
    if data is not None and len(set(data)) >= 2:
        return True
    return bool(impl_out) and any(o.startswith("ERR") for o in impl_out)


def signature(case):
    return "|".join(case["ops"])


def distribution(cases, impl_outs):
    errs = {}
    sizes = {}
    for c, o in zip(cases, impl_outs):
        for line in o or []:
            k = line.split(" ")[0]
            errs[k] = errs.get(k, 0) + 1
        d = (c.get("rt") or {}).get("data")
        if d is not None:
            b = "0" if len(d) == 0 else "1" if len(d) == 1 else "2-5" if len(d) <= 5 else "6+"
            sizes[b] = sizes.get(b, 0) + 1
    return {"outcomes": errs, "array_sizes": sizes}


def search(rng, problems, tier):
    """Failing-input search: the generator again with a different stream and more cases."""
    yield from cases(rng, "thorough" if tier == "thorough" else "quick")

"""C05 — BinaryCIF encodings are invertible; compression stays within tolerance.

Plugin interface (see harness/README.md):
  constants  PROP, PROPS_MODULE, EXT_MODULES, GEN_FILES, RULE, TRUSTED, ASSUMPTIONS
  gen_lean() -> {path under lean/: content}      regenerated from /repo on every run
  cases(rng, tier) -> iterable of case dicts     {"kind", "ops": [protocol lines], ...}
  run_impl(case) -> [one canonical output line per op]   (the real code)
  oracle(case) -> [(finding_key, message)]       independent statement of the property
  nontrivial(case, impl_out), signature(case), search(rng, problems, tier)
"""
import os
import re

PROP = "C05"
PROPS_MODULE = "BiotiteModel.Props.C05"
EXT_MODULES = ["biotite.structure.io.pdbx.encoding"]
GEN_FILES = ["BiotiteModel/Gen/C05.lean"]
LEVEL_TEXT = ("Lean theorems, for arrays of every length: run-length, delta (with two's-complement wrap in every ≤32-bit dtype), "
              "integer packing (1/2 bytes, signed/unsigned), byte-array, string-array (own or given table: accepted arrays decode to themselves, a missing string is rejected) and _safe_cast round trips; _to_smallest_integer_type fits; every chain "
              "compress() can choose for an integer column round-trips (C05_compress_candidates_sound); fixed point is within half a "
              "step when the scaled value fits int32, interval quantisation within one step, and compress() on a float column within the relative "
              "tolerance whenever _get_decimal_places returns a decimal count (C05_compress_float_tolerance), over exact rationals. Partial: IEEE "
              "rounding of float products/divisions, msgpack and the size-based choice inside compress() are not theorems — they are "
              "exercised by the correspondence (exactly representable inputs) and by the round-trip/tolerance oracle on the real code.")
LEVEL_NOTE = ("Trusted: Lean kernel + {propext, Classical.choice, Quot.sound}; harness/props/c05.py (generator, adapter, TypeCode table "
              "translator); numpy casts/diff/cumsum/searchsorted/unique modelled by documented semantics; floats modelled as exact "
              "rationals; msgpack trusted. encoding.pyx defects that cannot be rebuilt (FixedPoint overflow/NaN, Delta on int64, "
              "ByteArray float64->float32) are known findings.")
TECHNIQUE = "Lean 4 proof (induction over arrays, modular arithmetic, linear arithmetic over Q) + differential correspondence with encoding.pyx/compress.py"
RULE = ("seeded arrays of every BinaryCIF integer dtype (boundary values, runs, empty, length 1) through "
        "RunLength/Delta/IntegerPacking/_safe_cast encode and decode, op by op against the Lean model; "
        "round-trip oracle decode(encode(x)) == x on the real code, incl. whole files, compress() on every level with small tolerances, "
        "NumPy-scalar encoding parameters through write/read, given string tables, and write / update in place / write again. non-trivial = array has >= 2 distinct "
        "values or hits an error/boundary branch; distinct = different (op, dtype, data)")
TRUSTED = ["numpy casts/diff/cumsum modelled as two's-complement wrap", "msgpack (file level) trusted"]
ASSUMPTIONS = ["float encodings (FixedPoint, IntervalQuantization) are modelled over exact rationals; float32/64 rounding is not verified"]

NP = {"i8": "int8", "i16": "int16", "i32": "int32", "u8": "uint8", "u16": "uint16", "u32": "uint32", "i64": "int64"}
RANGE = {"i8": (-2**7, 2**7 - 1), "i16": (-2**15, 2**15 - 1), "i32": (-2**31, 2**31 - 1),
         "u8": (0, 2**8 - 1), "u16": (0, 2**16 - 1), "u32": (0, 2**32 - 1), "i64": (-2**63, 2**63 - 1)}
SUPPORTED = {k: ("i32" if k == "i64" else k) for k in NP}


def _ints(xs):
    return ",".join(str(int(x)) for x in xs) if len(xs) else "_"


# ---------------------------------------------------------------- compress.py: functions found by what they contain
_CSTRUCT = None


def _compress_structure():
    """Locate the functions of compress.py the model is about STRUCTURALLY (a rename of a private helper or of a local must not
    break the tie): returns {'best': FunctionDef, 'smallest': …, 'decimals': …, 'data': …} plus the module's FunctionDefs."""
    global _CSTRUCT
    if _CSTRUCT is not None:
        return _CSTRUCT
    import ast
    from common import paths
    csrc = open(os.path.join(paths.SRC, "biotite/structure/io/pdbx/compress.py")).read()
    tree = ast.parse(csrc)
    funcs = [n for n in tree.body if isinstance(n, ast.FunctionDef)]

    def lit_list_loops(fn):
        out = []
        for n in ast.walk(fn):
            if isinstance(n, ast.For) and isinstance(n.iter, ast.List) and all(isinstance(e, ast.Constant) for e in n.iter.elts):
                out.append(n)
        return sorted(out, key=lambda x: (x.lineno, x.col_offset))

    def np_type_loops(fn):
        out = []
        for n in ast.walk(fn):
            if isinstance(n, ast.For) and isinstance(n.iter, ast.List) and n.iter.elts and all(
                    isinstance(e, ast.Attribute) and re.fullmatch(r"u?int\d+", e.attr) for e in n.iter.elts):
                out.append(n)
        return sorted(out, key=lambda x: x.lineno)

    def has_round_loop(fn):
        # the decimal search: a loop (count(...) or range(...)) whose body calls np.round(<array>, <loop variable>)
        for n in ast.walk(fn):
            if isinstance(n, (ast.For, ast.While)):
                for c in ast.walk(n):
                    if (isinstance(c, ast.Call) and isinstance(c.func, ast.Attribute) and c.func.attr == "round" and len(c.args) == 2
                            and isinstance(c.args[1], ast.Name)):
                        if isinstance(n, ast.While) or (isinstance(n.target, ast.Name) and n.target.id == c.args[1].id):
                            n._round_var = c.args[1].id          # the decimal counter, whether a `for` target or a hand-stepped local
                            return n
        return None

    def has_len_eq(fn):
        for c in ast.walk(fn):
            if (isinstance(c, ast.Compare) and isinstance(c.left, ast.Call) and getattr(c.left.func, "id", "") == "len"
                    and isinstance(c.ops[0], (ast.Eq, ast.NotEq)) and isinstance(c.comparators[0], ast.Constant)):
                return c
        return None

    best = [f for f in funcs if len(lit_list_loops(f)) == 3]
    smallest = [f for f in funcs if len(np_type_loops(f)) == 2]
    decimals = [f for f in funcs if has_round_loop(f) is not None]
    data = [f for f in funcs if has_len_eq(f) is not None and any(isinstance(c, ast.Call) and getattr(c.func, "id", "") == "FixedPointEncoding" for c in ast.walk(f))]
    if not (len(best) == len(smallest) == len(decimals) == len(data) == 1):
        raise ValueError("compress.py no longer has the shape the translator reads: "
                         f"candidate loops in {[f.name for f in best]}, type ladders in {[f.name for f in smallest]}, "
                         f"decimal search in {[f.name for f in decimals]}, single-value shortcut in {[f.name for f in data]}")
    _CSTRUCT = {"best": best[0], "smallest": smallest[0], "decimals": decimals[0], "data": data[0], "funcs": funcs,
                "lit_list_loops": lit_list_loops, "np_type_loops": np_type_loops, "round_loop": has_round_loop, "len_eq": has_len_eq}
    return _CSTRUCT


def _compress_private(which):
    """The private helper of compress.py the adapter needs, whatever it is called today."""
    import importlib
    mod = importlib.import_module("biotite.structure.io.pdbx.compress")
    return getattr(mod, _compress_structure()[which].name)


# ---------------------------------------------------------------- translator (Gen)
def gen_lean():
    from common import paths
    src = open(os.path.join(paths.SRC, "biotite/structure/io/pdbx/encoding.pyx")).read()
    m = re.search(r"class TypeCode\(IntEnum\):(.*?)\n\s*@staticmethod", src, re.S)
    if not m:
        raise ValueError("TypeCode enum not found in encoding.pyx")
    codes = re.findall(r"^\s+([A-Z0-9]+)\s*=\s*(\d+)\s*$", m.group(1), re.M)
    m2 = re.search(r"_TYPE_CODE_TO_DTYPE\s*=\s*\{(.*?)\}", src, re.S)
    if not m2:
        raise ValueError("_TYPE_CODE_TO_DTYPE not found")
    dts = re.findall(r"TypeCode\.([A-Z0-9]+)\s*:\s*\"([^\"]+)\"", m2.group(1))
    if not codes or not dts:
        raise ValueError("could not extract TypeCode tables")
    # encoding classes: annotations, kind tables, StringArray's literal keys
    annots = []
    for m3 in re.finditer(r"^class (\w+Encoding)\(Encoding\):(.*?)(?=^class |^_encoding_classes\b)", src, re.S | re.M):
        names = re.findall(r"^    ([a-z_][a-z0-9_]*): \.\.\.", m3.group(2), re.M)
        annots.append((m3.group(1), names))
    mk = re.search(r"^_encoding_classes_kinds\s*=\s*\{(.*?)\}", src, re.S | re.M)
    mc = re.search(r"^_encoding_classes\s*=\s*\{(.*?)\}", src, re.S | re.M)
    if not annots or not mk or not mc:
        raise ValueError("encoding classes / kind tables not found in encoding.pyx")
    kinds = re.findall(r"\"(\w+)\"\s*:\s*\"(\w+)\"", mk.group(1))
    classes = re.findall(r"\"(\w+)\"\s*:\s*(\w+)", mc.group(1))
    msa = re.search(r"^class StringArrayEncoding\(Encoding\):(.*?)(?=^_encoding_classes\b)", src, re.S | re.M)
    mser = re.search(r"    def serialize\(self\):(.*?)\n    def ", msa.group(1), re.S)
    mdes = re.search(r"    def deserialize\(content\):(.*?)\n    def ", msa.group(1), re.S)
    sa_written = re.findall(r"^\s+\"(\w+)\"\s*:", mser.group(1), re.M)
    sa_read = sorted(set(re.findall(r"content\[\"(\w+)\"\]", mdes.group(1))))
    if len(annots) != len(kinds) or not sa_written or not sa_read:
        raise ValueError("could not extract the encoding serialisation tables")
    # ---- compress.py: the candidate space of _find_best_integer_compression, the type ladders of _to_smallest_integer_type,
    # the guards of _get_decimal_places (Python ast, not regex)
    import ast
    global _CSTRUCT
    _CSTRUCT = None
    cs = _compress_structure()
    funcs = {f.name: f for f in cs["funcs"]}

    def lit(node):
        return ast.literal_eval(node)

    fb = cs["best"]
    dom = [lit(n.iter) for n in cs["lit_list_loops"](fb)]          # outermost first: delta, run-length, packing
    loops = {"use_delta": dom[0], "use_run_length": dom[1], "packed_byte_count": dom[2]}
    # encoding classes in the order in which a chain is extended (first instantiation in source order)
    stage_order = []
    for n in sorted((x for x in ast.walk(fb) if isinstance(x, ast.Call) and isinstance(x.func, ast.Name) and x.func.id.endswith("Encoding")),
                    key=lambda x: (x.lineno, x.col_offset)):
        if n.func.id not in stage_order:
            stage_order.append(n.func.id)
    # how a chain is extended: `<later> = <earlier> + [<one element>]` — (target, source) pairs in source order, locals renamed by
    # order of first appearance (a rename of a local is not a change)
    extends = []
    seen = {}

    def canon(name):
        return seen.setdefault(name, f"v{len(seen)}")

    for n in sorted((x for x in ast.walk(fb) if isinstance(x, ast.Assign)), key=lambda x: x.lineno):
        v = n.value
        # `later = earlier + [<encoding object>]` — a list of the encoding objects themselves (a parallel list of their
        # serialised forms, `+ [encoding.serialize()]`, is bookkeeping for the size estimate, not a chain)
        if (isinstance(v, ast.BinOp) and isinstance(v.op, ast.Add) and isinstance(v.left, ast.Name) and isinstance(v.right, ast.List)
                and len(v.right.elts) == 1 and isinstance(v.right.elts[0], ast.Name)
                and len(n.targets) == 1 and isinstance(n.targets[0], ast.Name)):
            extends.append((canon(n.targets[0].id), canon(v.left.id)))
    ladders = []
    for n in cs["np_type_loops"](cs["smallest"]):
        # numpy type names in the model's spelling: uint8 -> u8, int64 -> i64
        ladders.append([e.attr.replace("uint", "u").replace("int", "i") for e in n.iter.elts])
    # the decimal search gives up beyond N decimals: either `if <var> > N: return None` inside an unbounded count(), or a bounded range(_, N + 1)
    loop = cs["round_loop"](cs["decimals"])
    var = loop._round_var
    dec_guards = [lit(c.comparators[0]) for c in ast.walk(loop)
                  if isinstance(c, ast.Compare) and isinstance(c.left, ast.Name) and c.left.id == var and isinstance(c.ops[0], ast.Gt)
                  and isinstance(c.comparators[0], ast.Constant)]
    it = getattr(loop, "iter", None)
    if isinstance(it, ast.Call) and getattr(it.func, "id", "") == "range" and len(it.args) == 2:
        try:
            dec_guards.append(int(eval(compile(ast.Expression(it.args[1]), "<range stop>", "eval"), {"__builtins__": {}})) - 1)
        except Exception:
            pass
    single = [lit(cs["len_eq"](cs["data"]).comparators[0])]
    if len(ladders) != 2 or len(dec_guards) != 1 or len(single) != 1 or len(dom) != 3:
        raise ValueError(f"compress.py no longer has the shape the translator reads: loops={dom} ladders={ladders} guards={dec_guards} single={single}")

    def lbool(xs):
        return "[" + ", ".join("true" if x else "false" for x in xs) + "]"

    def lopt(xs):
        return "[" + ", ".join("none" if x is None else f"some {int(x)}" for x in xs) + "]"

    def lstr(xs):
        return "[" + ", ".join(f'"{x}"' for x in xs) + "]"

    # defaults of float_tolerance at every level of compress.py (only the public entry may have one)
    tol_defaults = []
    for name, fn in sorted(funcs.items(), key=lambda kv: kv[1].lineno):
        names = [a.arg for a in fn.args.args]
        if "float_tolerance" in names:
            k = names.index("float_tolerance") - (len(names) - len(fn.args.defaults))
            tol_defaults.append((name, None if k < 0 else repr(lit(fn.args.defaults[k]))))
    # encoding.pyx: the dtype substitutions of TypeCode.from_dtype, the packed-dtype table, which encoding an array gets by default
    subst = re.findall(r"(?:if|elif)\s+(?:hasattr\(np, \"float128\"\) and )?dtype == np\.(\w+):\s*\n\s*supported_dtype = np\.(\w+)", src)
    mp = re.search(r"def _determine_packed_dtype\(self\):(.*?)\n    @", src, re.S)
    packed = re.findall(r"byte_count == (\d+):\s*\n\s*if self\.is_unsigned:\s*\n\s*return np\.(\w+)\s*\n\s*else:\s*\n\s*return np\.(\w+)", mp.group(1)) if mp else []
    mu = re.search(r"def create_uncompressed_encoding\(array\):.*?\n    if np\.issubdtype\(array\.dtype, np\.(\w+)\):\s*\n\s*return \[(\w+)\(\)\]\s*\n\s*else:\s*\n\s*return \[(\w+)\(\)\]", src, re.S)
    if len(subst) < 3 or len(packed) != 2 or not mu or not tol_defaults:
        raise ValueError(f"encoding.pyx / compress.py no longer have the shape the translator reads: subst={subst} packed={packed} uncompressed={bool(mu)} tol={tol_defaults}")
    # bcif.py: the underscore prefix of BinaryCIFBlock and the keys of the serialised containers
    bsrc = open(os.path.join(paths.SRC, "biotite/structure/io/pdbx/bcif.py")).read()
    btree = ast.parse(bsrc)
    bkeys = {}
    for cls in [n for n in btree.body if isinstance(n, ast.ClassDef)]:
        for fn in [n for n in cls.body if isinstance(n, ast.FunctionDef) and n.name in ("serialize", "deserialize", "write")]:
            ks = sorted({c.value for c in ast.walk(fn) if isinstance(c, ast.Constant) and isinstance(c.value, str) and re.fullmatch(r"[A-Za-z]+", c.value)
                         and c.value in ("data", "mask", "encoding", "rowCount", "columns", "name", "categories", "dataBlocks", "header", "encoder", "version", "biotite")})
            bkeys[f"{cls.name}.{fn.name}"] = ks
    prefix_add = len(re.findall(r'"_" \+ (?:name|key)', bsrc))
    prefix_strip = len(re.findall(r'removeprefix\("_"\)', bsrc))

    compress_lines = [
        "/-- compress.py: `float_tolerance` parameter of every function that has one, with its default (`none` = no default). -/",
        "def toleranceDefaults : List (String × Option String) := [" + ", ".join(
            f'("{n}", ' + ("none" if d is None else f'some "{d}"') + ")" for n, d in tol_defaults) + "]",
        "/-- `TypeCode.from_dtype`: dtype substitutions (given, stored as). -/",
        "def dtypeSubstitutions : List (String × String) := [" + ", ".join(f'("{a}", "{b}")' for a, b in subst) + "]",
        "/-- `IntegerPackingEncoding._determine_packed_dtype`: (byte count, unsigned dtype, signed dtype). -/",
        "def packedDtypes : List (Nat × String × String) := [" + ", ".join(f'({int(b)}, "{u}", "{sg}")' for b, u, sg in packed) + "]",
        "/-- `create_uncompressed_encoding`: (numpy kind tested, encoding if it is that kind, encoding otherwise). -/",
        f'def uncompressedDefault : String × String × String := ("{mu.group(1)}", "{mu.group(2)}", "{mu.group(3)}")',
        "/-- bcif.py: string keys used by serialize / deserialize / write of every component class. -/",
        "def containerKeys : List (String × List String) := [" + ", ".join(f'("{k}", {lstr(v)})' for k, v in sorted(bkeys.items())) + "]",
        f"def blockPrefixAdded : Nat := {prefix_add}",
        f"def blockPrefixStripped : Nat := {prefix_strip}",
        "/-- `_find_best_integer_compression`: the three loop domains, the encoding classes in the order a chain is extended, and the",
        "`later = earlier + [encoding]` steps (regenerated from compress.py with `ast`). -/",
        "def deltaDomain : List Bool := " + lbool(loops["use_delta"]),
        "def rleDomain : List Bool := " + lbool(loops["use_run_length"]),
        "def packDomain : List (Option Nat) := " + lopt(loops["packed_byte_count"]),
        "def stageOrder : List String := " + lstr(stage_order),
        "def chainExtends : List (String × String) := [" + ", ".join(f'("{a}", "{b}")' for a, b in extends) + "]",
        "/-- `_to_smallest_integer_type`: the unsigned and the signed type ladder, in the order tried. -/",
        "def unsignedLadder : List String := " + lstr(ladders[0]),
        "def signedLadder : List String := " + lstr(ladders[1]),
        "/-- `_get_decimal_places`: `if decimals > N: return None`; `_compress_data`: `len(array) == N` takes the uncompressed path. -/",
        f"def maxDecimals : Int := {int(dec_guards[0])}",
        f"def singleValueLength : Nat := {int(single[0])}",
    ]
    body = ["/- REGENERATED on every run by harness/props/c05.py from structure/io/pdbx/encoding.pyx. Do not edit. -/",
            "namespace BiotiteModel.Gen.C05",
            "/-- `TypeCode` members: (name, code). -/",
            "def typeCodes : List (String × Nat) := [" + ", ".join(f'("{n}", {c})' for n, c in codes) + "]",
            "/-- `_TYPE_CODE_TO_DTYPE`: (member name, numpy dtype string). -/",
            "def typeCodeToDtype : List (String × String) := [" + ", ".join(f'("{n}", "{d}")' for n, d in dts) + "]",
            "/-- parameter names each encoding class declares (`__annotations__`, in order) — what `Encoding.serialize` writes. -/",
            "def encodingParams : List (String × List String) := [" + ", ".join(
                f'("{c}", [' + ", ".join(f'"{a}"' for a in ans) + "])" for c, ans in annots) + "]",
            "/-- `_encoding_classes_kinds`: class name → kind. -/",
            "def encodingKinds : List (String × String) := [" + ", ".join(f'("{c}", "{k}")' for c, k in kinds) + "]",
            "/-- `_encoding_classes`: kind → class name. -/",
            "def encodingClasses : List (String × String) := [" + ", ".join(f'("{k}", "{c}")' for k, c in classes) + "]",
            "/-- keys `StringArrayEncoding.serialize` writes / `StringArrayEncoding.deserialize` reads (it does not use the name maps). -/",
            "def stringArrayWritten : List String := [" + ", ".join(f'"{k}"' for k in sa_written) + "]",
            "def stringArrayRead : List String := [" + ", ".join(f'"{k}"' for k in sa_read) + "]",
            ] + compress_lines + ["end BiotiteModel.Gen.C05", ""]
    return {"BiotiteModel/Gen/C05.lean": "\n".join(body)}


# ---------------------------------------------------------------- generator
def _values(rng, t, n):
    lo, hi = RANGE[t]
    pool = [lo, lo + 1, hi, hi - 1, 0, 1, -1 if lo < 0 else 2, 127, 128, 255, 256, 32767, 32768, 65535]
    pool = [p for p in pool if lo <= p <= hi]
    out = []
    while len(out) < n:
        r = rng.random()
        if r < 0.35 and out:
            out += [out[-1]] * rng.randint(1, 4)      # runs
        elif r < 0.6:
            out.append(rng.choice(pool))
        elif r < 0.8:
            out.append(rng.randint(max(lo, -300), min(hi, 300)))
        else:
            out.append(rng.randint(lo, hi))
    return out[:n]


def cases(rng, tier):
    for gen in (int_cases, ext_cases, float_cases, smallest_cases, column_cases, interval32_cases, decimals_cases, reuse_cases,
                strtable_cases, level_cases, params_cases, rewrite_cases, names_cases, encser_cases, cont_cases, spell_cases, origin_cases, widepack_cases, pathwrite_cases, session_cases, misuse_cases, recompress_cases):
        for c in gen(rng, tier):
            rt = c.get("rt")
            if rt and rt.get("enc") in ("rle", "delta", "pack", "bytes", "compress_int", "compress_float"):
                r = rng.random()
                if r < 0.3:
                    rt["be"] = True          # same values, big-endian byte order (oracle only; the model has no byte order)
                elif r < 0.45:
                    rt["layout"] = "strided"
                elif r < 0.6:
                    rt["layout"] = "readonly"
            yield c


def reuse_cases(rng, tier):
    """oracle-only: (i) an encoding object that fixed its src_size on one array is reused on an array of another length;
    (ii) uint64 input arrays (TypeCode.from_dtype maps them to UINT32)."""
    for _ in range(60 if tier == "quick" else 1200):
        t = rng.choice(["i8", "i16", "i32", "u8", "u16", "u32"])
        first = _values(rng, t, rng.choice([3, 5, 8]))
        second = _values(rng, t, rng.choice([0, 1, 2, 4, 9, 12]))
        yield {"kind": "reuse", "rt": {"enc": "reuse", "which": rng.choice(["rle", "pack1", "pack2"]), "dtype": t, "first": first, "data": second}}
    for _ in range(60 if tier == "quick" else 1200):
        n = rng.choice([1, 2, 3, 6])
        xs = [rng.choice([0, 1, 2 ** 31 - 1, 2 ** 31, 2 ** 31 + 5, 2 ** 32 - 1, rng.randint(0, 2 ** 32 - 1), rng.randint(0, 300)]) for _ in range(n)]
        if rng.random() < 0.15:
            xs[rng.randrange(n)] = rng.choice([2 ** 32, 2 ** 40, 2 ** 63])      # beyond UINT32: must be rejected or kept
        elif rng.random() < 0.4:
            # cumsum-like: non-decreasing with small steps, inside [2^31, 2^32)
            start = rng.randint(2 ** 31 - 3, 2 ** 32 - 2000)
            xs = [start]
            for _ in range(n - 1):
                xs.append(xs[-1] + rng.randint(0, 300))
        yield {"kind": "u64", "rt": {"enc": "u64", "chain": rng.choice(["bytes", "delta", "rle", "delta+rle", "compress", "data"]), "data": xs}}


def strtable_cases(rng, tier):
    """StringArrayEncoding with a *given* table (explicit, or left over from a first use): accepted arrays decode to themselves,
    arrays with a string the table lacks are rejected (model op `string_enc_tbl`, C05_string_table / _rejects)."""
    pool = ["A", "B", "CA", "N", "", " ", "x y", "\u00e9", "HOH", "'", "1", "ZN", "a", "ALA", "GLY", "SER", "TRP", "CYS"]
    for _ in range(12 if tier == "quick" else 80):
        tbl = rng.sample(pool, rng.randint(0, 6))
        style = rng.choice(["complete", "complete", "missing", "missing", "none-known", "dup-table", "reused"])
        if style == "complete" and tbl:
            data = [rng.choice(tbl) for _ in range(rng.randint(0, 8))]
        elif style == "none-known":
            data = [rng.choice([x for x in pool if x not in tbl]) for _ in range(rng.randint(1, 4))]
        else:
            data = [rng.choice(tbl + [rng.choice(pool)]) for _ in range(rng.randint(1, 8))]
        case = {"kind": "strtable/" + style, "rt": {"enc": "strtable", "table": tbl, "data": data, "style": style}}
        if style == "dup-table" and tbl:
            case["rt"]["table"] = tbl + [rng.choice(tbl)]
        elif style == "reused":
            case["rt"]["first"] = [rng.choice(tbl) for _ in range(rng.randint(1, 6))] if tbl else ["A"]
        else:
            case["ops"] = [f"string_enc_tbl {_strs(tbl)} {_strs(data)}"]
        yield case


def level_cases(rng, tier):
    """compress() on every level of the hierarchy (data, column, category, block, file) honours the tolerance it is given,
    also one far below the default."""
    for _ in range(5 if tier == "quick" else 30):
        tol = rng.choice([1e-7, 1e-8, 1e-9, 1e-9, 1e-10])
        digits = rng.choice([7, 8, 9])
        xs = [round(rng.uniform(0.3, 2.1) * rng.choice([1, 1, -1]), digits) for _ in range(rng.randint(4, 40))]
        yield {"kind": "level", "rt": {"enc": "level", "level": rng.choice(["data", "column", "category", "block", "file", "file"]),
                                       "tol": tol, "data": [repr(x) for x in xs], "masked": rng.random() < 0.3}}


def params_cases(rng, tier):
    """Encoding parameters given as NumPy scalars (taken from the data: `arr.min()`, `np.float32(2.5)`, `np.int64(n)`): what is
    read from a written file equals what the same data decodes to in memory, and the encodings read equal the ones written."""
    for _ in range(18 if tier == "quick" else 80):
        which = rng.choice(["interval", "interval", "fixed", "fixed", "delta", "rle", "pack"])
        st = rng.choice(["float32", "float64", "float16", "py"] if which in ("interval", "fixed") else ["int64", "int32", "uint8", "int16", "py"])
        n = rng.randint(2, 30)
        if which == "interval":
            lo = rng.choice([0.25, -3.5, 0.1, 1.0])
            hi = lo + rng.choice([7.5, 0.75, 10.0, 3.1])
            rt = {"enc": "params", "which": which, "st": st, "min": lo, "max": hi, "n": n,
                  "data": [repr(lo + (hi - lo) * rng.randint(0, n - 1) / (n - 1)) for _ in range(rng.randint(1, 12))]}
        elif which == "fixed":
            f = rng.choice([2.5, 100.0, 0.5, 12.5, 1000.0, 3.0, 0.01, 0.1, 1 / 3, 1e-3])
            rt = {"enc": "params", "which": which, "st": st, "factor": f,
                  "data": [repr(rng.randint(-400, 400) / f) for _ in range(rng.randint(1, 12))]}
        else:
            rt = {"enc": "params", "which": which, "st": st, "data": sorted(rng.randint(0, 90) for _ in range(rng.randint(1, 12)))}
        yield {"kind": "params/" + which, "rt": rt}


def rewrite_cases(rng, tier):
    """A file object written, updated in place (arrays, masks), and written again: every write reflects the content at that time."""
    for _ in range(4 if tier == "quick" else 20):
        yield {"kind": "rewrite", "rt": {"enc": "rewrite", "n": rng.randint(2, 9), "frames": rng.randint(2, 3), "seed": rng.randint(0, 10 ** 9),
                                         "through": rng.choice(["file", "file", "column", "data", "category"])}}



def names_cases(rng, tier):
    """`_snake_to_camel_case` / `_camel_to_snake_case` op by op: the declared parameter names and arbitrary ASCII names."""
    declared = ["type", "factor", "src_type", "min", "max", "num_steps", "src_size", "origin", "byte_count", "is_unsigned",
                "strings", "data_encoding", "offset_encoding"]
    for n in declared:
        yield {"kind": "names", "ops": [f"camel {_s(n)}", f"snake {_s(n)}"], "rt": {"enc": "names", "name": n}}
    for _ in range(25 if tier == "quick" else 300):
        n = "".join(rng.choice("abcxyzABZ019__") for _ in range(rng.randint(0, 9)))
        yield {"kind": "names", "ops": [f"camel {_s(n)}", f"snake {_s(n)}"]}


def encser_cases(rng, tier):
    """Every encoding class with explicit or data-determined parameters: what `serialize()` writes, `deserialize_encoding`
    reads back as an equal encoding (directly and through msgpack), which decodes the same bytes to the same array."""
    for _ in range(14 if tier == "quick" else 120):
        yield {"kind": "encser", "rt": {"enc": "encser", "seed": rng.randint(0, 10 ** 9), "explicit": rng.random() < 0.5}}



CONT_KEYS = ["a", "b", "_a", "__a", "x_y", "", "_", "atom_site"]


def cont_cases(rng, tier):
    """Histories on one BinaryCIFCategory / BinaryCIFBlock / BinaryCIFFile read from serialised content: access, replace, delete,
    list, serialise, re-read — against the lazy-container model (C05_container_refines / _history)."""
    for _ in range(25 if tier == "quick" else 250):
        level = rng.choice(["category", "block", "file"])
        keys = rng.sample(CONT_KEYS, rng.randint(0, 5))
        if keys and rng.random() < 0.25:
            keys.append(rng.choice(keys))                      # the same name twice in the file
        items = [(k, "bad" if rng.random() < 0.15 else str(rng.randint(-9, 99))) for k in keys]
        ops = [f"cont_init {level} " + (",".join(f"{_s(k)}:{v}" for k, v in items) if items else "_")]
        for _ in range(rng.randint(2, 10)):
            k = _s(rng.choice(CONT_KEYS))
            r = rng.random()
            if r < 0.3:
                ops.append(f"cont_get {k}")
            elif r < 0.5:
                ops.append(f"cont_set {k} {rng.randint(-9, 99)}")
            elif r < 0.62:
                ops.append(f"cont_del {k}")
            elif r < 0.7:
                ops.append(f"cont_has {k}")
            elif r < 0.8:
                ops.append("cont_keys")
            elif r < 0.92:
                ops.append("cont_ser")
            else:
                ops.append("cont_reread")
        ops += ["cont_ser", "cont_reread", "cont_keys"]
        yield {"kind": "cont/" + level, "ops": ops, "rt": {"enc": "cont", "level": level}}



def spell_cases(rng, tier):
    """The same column content in every spelling the constructors accept (list, tuple, range, ndarray of any integer / float width,
    strided, read-only, byte-swapped, str arrays of any width), handed in at every level (data, column, category constructor, item
    assignment, single value): rejected or read back with the same values."""
    for _ in range(24 if tier == "quick" else 200):
        flavour = rng.choice(["int", "int", "float", "str", "bigint", "scalar"])
        n = rng.randint(1, 9)
        if flavour == "int":
            data = [rng.choice([0, 1, -1, 127, 128, -129, 255, 256, 32767, 32768, 65535, 65536, 2 ** 31 - 1, -2 ** 31, rng.randint(-999, 999)]) for _ in range(n)]
        elif flavour == "bigint":
            data = [rng.choice([2 ** 31, -2 ** 31 - 1, 2 ** 32 - 1, 2 ** 32, 2 ** 63 - 1, 5]) for _ in range(n)]
        elif flavour == "float":
            data = [rng.randint(-4000, 4000) / 8 for _ in range(n)]
        elif flavour == "str":
            data = [rng.choice(["A", "BB", "", "x y", "HOH", "\u00e9", "a" * 12]) for _ in range(n)]
        else:
            data = [rng.choice([5, -3, 2.5, "X", ""])]
        yield {"kind": "spell/" + flavour, "rt": {"enc": "spell", "flavour": flavour, "data": data, "seed": rng.randint(0, 10 ** 9),
                                                   "via": rng.choice(["data", "column", "category", "setitem", "file"])}}



def origin_cases(rng, tier):
    """DeltaEncoding with a *given* origin (explicit, or an encoding used a second time on other data): op `delta_enc_o` against
    `deltaEncodeWith` (C05_delta_explicit_origin) and the round-trip oracle."""
    for _ in range(30 if tier == "quick" else 400):
        t = rng.choice(["i8", "i16", "i32", "u8", "u16", "u32"])
        xs = _values(rng, t, rng.choice([0, 1, 2, 3, 5, 8]))
        o = rng.choice(_values(rng, t, 2) + [0, 1] + xs[:1])
        lo, hi = RANGE[t]
        o = min(max(o, lo), hi)
        yield {"kind": "delta_origin", "ops": [f"delta_enc_o {t} {o} {_ints(xs)}"],
               "rt": {"enc": "delta", "dtype": t, "data": xs, "origin": o, "reused": rng.random() < 0.3}}


def widepack_cases(rng, tier):
    """IntegerPacking (and the other integer encodings) on wide / unsigned arrays with values around 2^31 and 2^32: kept or rejected."""
    edge = [2 ** 31 - 1, 2 ** 31, 2 ** 31 + 1, 3000000000, 2 ** 32 - 1, 2 ** 32, 5, 0, 70000]
    for _ in range(20 if tier == "quick" else 200):
        t = rng.choice(["u32", "i64", "u64"])
        xs = [rng.choice(edge) for _ in range(rng.randint(1, 5))]
        if t == "u32":
            xs = [x for x in xs if x < 2 ** 32] or [2 ** 31]
        case = {"kind": "widepack", "rt": {"enc": "widepack", "dtype": t, "data": xs, "bc": rng.choice([1, 2]),
                                           "u": rng.choice(["a", "a", "u", "s"]), "chain": rng.choice(["pack", "pack", "rle+pack", "delta+pack"])}}
        # the same call op by op against the model of the wide path (values whose wrapped magnitude keeps the word stream short)
        near = [2 ** 32 - 3, 2 ** 32 + 5, 2 ** 32, 300, 0, 7, 2 ** 33 + 1, 2 ** 32 - 40000] if t != "u32" else [2 ** 32 - 3, 2 ** 32 - 40000, 300, 0, 7]
        ws = [rng.choice(near) for _ in range(rng.randint(0, 4))]
        case["ops"] = [f"pack_enc_w {case['rt']['bc']} {case['rt']['u']} {t} {_ints(ws)}"]
        yield case


def pathwrite_cases(rng, tier):
    """Writing to a path: a refused write leaves the file that was written there before readable and unchanged."""
    for _ in range(4 if tier == "quick" else 30):
        yield {"kind": "pathwrite", "rt": {"enc": "pathwrite", "seed": rng.randint(0, 10 ** 9), "n": rng.randint(1, 6),
                                           "spoil": rng.choice(["too-big", "ragged", "object", "bad-encoding"])}}


def session_cases(rng, tier):
    """Several compress() calls in ONE process (columns of different float widths and kinds, one after the other): every result is
    judged on its own — state kept between calls must not leak from one column into the next."""
    for _ in range(10 if tier == "quick" else 80):
        cols = []
        for _ in range(rng.randint(2, 5)):
            ft = rng.choice(["f4", "f8"])
            style = rng.choice(["nonfinite", "wide", "short", "plain", "plain"])
            if style == "nonfinite":
                xs = [rng.choice(["nan", "inf", "1.5", "-2.25"]) for _ in range(rng.randint(2, 6))]
            elif style == "wide":
                xs = [rng.choice(["1e30", "1e-30", "3.141592653589793", "1e300" if ft == "f8" else "1e38", "1e-300" if ft == "f8" else "1e-38"]) for _ in range(rng.randint(2, 6))]
            elif style == "short":
                xs = [repr(rng.uniform(-5, 5))]
            else:
                xs = [repr(round(rng.uniform(-99, 99), 3)) for _ in range(rng.randint(3, 30))]
            cols.append({"ft": ft, "data": xs})
        if rng.random() < 0.5:
            # a lossless-fallback column of one width right before a lossless-fallback column of the other width
            a, b = rng.choice([("f4", "f8"), ("f4", "f8"), ("f8", "f4")])
            irr = ["3.141592653589793", "0.3333333333333333", "2.718281828459045", "1.4142135623730951", "nan", "-inf"]
            pair = [{"ft": a, "data": [rng.choice(irr) for _ in range(rng.randint(2, 5))] + ["nan"]},
                    {"ft": b, "data": [rng.choice(irr) for _ in range(rng.randint(2, 5))] + ["inf"]}]
            k = rng.randint(0, len(cols))
            cols[k:k] = pair
        yield {"kind": "session", "rt": {"enc": "session", "cols": cols, "tol": rng.choice([1e-6, 1e-6, 1e-3, 1e-9])}}



def misuse_cases(rng, tier):
    """Arrays an encoding's stored type cannot hold, handed to it anyway: float data to the integer encodings, non-finite or
    out-of-interval values to the interval quantisation.  The property asks for a refusal or an (exact / within-precision) round trip."""
    for _ in range(16 if tier == "quick" else 150):
        which = rng.choice(["delta", "pack", "rle", "delta+pack", "interval", "interval"])
        if which == "interval":
            xs = [rng.choice(["nan", "inf", "-inf", "25.0", "5.0", "15.25", "10.0", "20.0", "20.5", "9.75"]) for _ in range(rng.randint(1, 5))]
        else:
            xs = [repr(rng.choice([1.5, 2.25, -0.75, 3.0, 1e10, 0.1, 7.0])) for _ in range(rng.randint(1, 5))]
        yield {"kind": "misuse/" + which, "rt": {"enc": "misuse", "which": which, "ft": rng.choice(["f4", "f8"]), "data": xs}}



def recompress_cases(rng, tier):
    """compress() of data that ALREADY carries an encoding chain (lossy or not), of one row and of several: the result must hold the
    array within the tolerance, whatever came in."""
    for _ in range(10 if tier == "quick" else 100):
        n = rng.choice([1, 1, 2, 5, 30])
        xs = [repr(round(rng.uniform(-90, 90), rng.choice([2, 4, 6]))) for _ in range(n)]
        yield {"kind": "recompress", "rt": {"enc": "recompress", "pre": rng.choice(["fixed10", "fixed100", "interval", "bytes", "none"]),
                                            "ft": rng.choice(["f4", "f8"]), "tol": rng.choice([1e-6, 1e-6, 1e-4]), "data": xs}}



def interval32_cases(rng, tier):
    """oracle-only: IntervalQuantization on float32/float64 data over non-dyadic grids (0..1 in 11 steps, ...)."""
    for _ in range(60 if tier == "quick" else 1500):
        n = rng.choice([3, 6, 11, 21, 101])
        mn = rng.choice([0.0, -1.0, 0.1, 2.5])
        mx = mn + rng.choice([1.0, 0.7, 3.3, 10.0])
        yield {"kind": "interval32", "rt": {"enc": "interval_float", "min": mn, "max": mx, "n": n, "ft": rng.choice(["f4", "f4", "f8"]),
                                            "on_grid": [rng.randrange(n) for _ in range(rng.randint(1, 6))],
                                            "fracs": [rng.random() for _ in range(rng.randint(0, 4))]}}


def int_cases(rng, tier):
    n_cases = 400 if tier == "quick" else 8000
    types = ["i8", "i16", "i32", "u8", "u16", "u32", "i64"]
    for _ in range(n_cases):
        t = rng.choice(types)
        n = rng.choice([0, 1, 1, 2, 3, 5, 8, 13, 30])
        kind = rng.choice(["rle", "rle", "delta", "delta", "pack", "pack", "safe_cast", "rle_dec", "pack_dec"])
        if kind == "rle":
            # int64 arrays may exceed the stored int32: then _safe_cast must reject
            xs = _values(rng, t if (t != "i64" or rng.random() < 0.3) else "i32", n)
            srcsize = rng.choice(["-", "-", str(len(xs)), str(len(xs) + 1)])
            yield {"kind": "rle", "ops": [f"rle_enc {t} {srcsize} {_ints(xs)}"],
                   "rt": {"enc": "rle", "dtype": t, "data": xs}}
        elif kind == "rle_dec":
            t6 = rng.choice(types[:6])
            pairs = []
            for _ in range(rng.randint(0, 5)):
                pairs += [rng.choice(_values(rng, "i32", 3)), rng.randint(0, 4)]
            if rng.random() < 0.1:
                pairs.append(1)  # malformed: odd length
            total = sum(pairs[1::2]) if len(pairs) % 2 == 0 else 0
            srcsize = rng.choice(["-", str(total), str(total + 2), str(max(0, total - 1))])
            yield {"kind": "rle_dec", "ops": [f"rle_dec {t6} {srcsize} {_ints(pairs)}"]}
        elif kind == "delta":
            xs = _values(rng, t, n)
            case = {"kind": "delta", "ops": [f"delta_enc {t} {_ints(xs)}"], "rt": {"enc": "delta", "dtype": t, "data": xs}}
            if xs:
                ds = _values(rng, "i32", rng.randint(0, 6))
                o = rng.choice(_values(rng, SUPPORTED[t], 2))
                case["ops"].append(f"delta_dec {t} {o} {_ints(ds)}")
            yield case
        elif kind == "pack":
            bc = rng.choice([1, 2, 1, 2, 3])
            u = rng.choice(["u", "s", "a"])
            xs = _values(rng, rng.choice(["i32", "i16", "u16", "i8"]), n)
            if u == "u" and rng.random() < 0.8:
                xs = [abs(x) % 2**31 for x in xs]
            # keep streams short: a packed int32 needs |x|/127 words
            xs = [x if abs(x) < 200000 else x % 200000 for x in xs]
            yield {"kind": "pack", "ops": [f"pack_enc {bc} {u} {_ints(xs)}"],
                   "rt": {"enc": "pack", "bc": bc, "u": u, "data": xs}}
        elif kind == "pack_dec":
            pt = rng.choice(["i8", "u8", "i16", "u16"])
            xs = _values(rng, pt, rng.randint(0, 8))
            lo, hi = RANGE[pt]
            n_out = sum(1 for x in xs if x != hi and x != (lo if lo != 0 else -1))
            srcsize = rng.choice([n_out, n_out, n_out + 1, max(0, n_out - 1)])
            yield {"kind": "pack_dec", "ops": [f"pack_dec {pt} {srcsize} {_ints(xs)}"]}
        else:
            dst = rng.choice(types[:6])
            xs = _values(rng, t, n)
            yield {"kind": "safe_cast", "ops": [f"safe_cast {t} {dst} {_ints(xs)}"],
                   "rt": {"enc": "bytes", "dtype": t, "dst": dst, "data": xs}}


def _dyadic(rng, bits=10, frac=4):
    from fractions import Fraction
    return Fraction(rng.randint(-(2 ** bits), 2 ** bits), 2 ** rng.randint(0, frac))


def _q(fr):
    return str(fr.numerator) if fr.denominator == 1 else f"{fr.numerator}/{fr.denominator}"


def _s(st):
    return "~" if st == "" else ".".join(str(ord(c)) for c in st)


def _strs(ss):
    return ",".join(_s(x) for x in ss) if ss else "_"


ALPH = ["A", "B", "CA", "N", "", " ", "x y", "\u00e9", "HOH", "'", '"', "1", "A"]


def ext_cases(rng, tier):
    """float / string / byte / chain ops (exactly representable inputs for the float ops)."""
    from fractions import Fraction
    n_cases = 300 if tier == "quick" else 6000
    types = ["i8", "i16", "i32", "u8", "u16", "u32"]
    for _ in range(n_cases):
        kind = rng.choice(["fixed", "fixed_dec", "interval", "string", "string_dec", "bytes", "bytes_dec", "chain", "chain", "chain"])
        n = rng.choice([0, 1, 2, 3, 5, 8, 20])
        if kind == "fixed":
            f = rng.choice([1, 2, 10, 100, 1000, Fraction(1, 4), 8])
            ft = rng.choice(["f4", "f8"])
            xs = [_dyadic(rng, 10 if ft == "f4" else 20) for _ in range(n)]
            yield {"kind": "fixed", "ops": [f"fixed_enc {_q(Fraction(f))} {','.join(_q(x) for x in xs) if xs else '_'}"], "ft": ft,
                   "rt": {"enc": "fixed", "factor": str(Fraction(f)), "ft": ft, "data": [str(x) for x in xs]}}
        elif kind == "fixed_dec":
            f = rng.choice([1, 2, 4, 16, 1024])
            ks = [rng.randint(-2 ** 20, 2 ** 20) for _ in range(n)]
            yield {"kind": "fixed_dec", "ops": [f"fixed_dec {f} {_ints(ks)}"], "ft": rng.choice(["f4", "f8"])}
        elif kind == "interval":
            steps = rng.choice([2, 3, 5, 9, 17])
            mn = Fraction(rng.randint(-8, 8))
            mx = mn + (steps - 1) * Fraction(1, 2 ** rng.randint(0, 3))
            xs = [mn + (mx - mn) * Fraction(rng.randint(-2, 34), 32) for _ in range(n)]
            yield {"kind": "interval", "ops": [f"interval_enc {_q(mn)} {_q(mx)} {steps} {','.join(_q(x) for x in xs) if xs else '_'}"],
                   "rt": {"enc": "interval", "min": str(mn), "max": str(mx), "n": steps, "data": [str(x) for x in xs]}}
        elif kind == "string":
            ss = [rng.choice(ALPH) for _ in range(n)]
            yield {"kind": "string", "ops": [f"string_enc {_strs(ss)}"], "rt": {"enc": "string", "data": ss}}
        elif kind == "string_dec":
            tbl = list(dict.fromkeys(rng.choice(ALPH) for _ in range(rng.randint(1, 4))))
            idx = [rng.randint(0, len(tbl) + (1 if rng.random() < 0.2 else -1)) for _ in range(n)]
            idx = [max(0, i) for i in idx]
            yield {"kind": "string_dec", "ops": [f"string_dec {_strs(tbl)} {_ints(idx)}"]}
        elif kind == "bytes":
            t = rng.choice(types)
            xs = _values(rng, t, n)
            yield {"kind": "bytes", "ops": [f"bytes_enc {t} {_ints(xs)}"], "rt": {"enc": "bytes", "dtype": t, "dst": t, "data": xs}}
        elif kind == "bytes_dec":
            t = rng.choice(types)
            bs = [rng.randint(0, 255) for _ in range(rng.randint(0, 9))]
            yield {"kind": "bytes_dec", "ops": [f"bytes_dec {t} {_ints(bs)}"]}
        else:
            t = rng.choice(types)
            xs = _values(rng, t, n)
            c = rng.choice("d-") + rng.choice("r-") + rng.choice("012")
            if c[2] != "0" or rng.random() < 0.5:
                xs = [x if abs(x) < 100000 else x % 1000 for x in xs]     # keep packed streams (and model recursion) short
            yield {"kind": "chain", "ops": [f"chain {c} {t} {_ints(xs)}"], "rt": {"enc": "compress_int", "dtype": t, "data": xs}}


def decimals_cases(rng, tier):
    """_get_decimal_places op by op: dyadic values (exact in float64), dyadic tolerances; d0 = -order of magnitude computed exactly."""
    from fractions import Fraction
    for _ in range(120 if tier == "quick" else 2500):
        n = rng.choice([1, 2, 3, 5])
        style = rng.choice(["small", "coords", "big", "tiny", "mixed", "minute"])
        xs = []
        for _ in range(n):
            k = rng.randint(1, 2 ** 12) * rng.choice([-1, 1])
            j = {"small": rng.randint(0, 8), "coords": rng.randint(2, 6), "big": -rng.randint(0, 24), "tiny": rng.randint(8, 30),
                 "mixed": rng.randint(-20, 20), "minute": rng.randint(50, 150)}[style]
            xs.append(Fraction(k) / (Fraction(2) ** j) if j >= 0 else Fraction(k) * (2 ** -j))
        tol = Fraction(1, 2 ** rng.choice([7, 10, 20, 30]))
        mx = max(abs(x) for x in xs)
        order = 0
        while Fraction(10) ** (order + 1) <= mx:
            order += 1
        while Fraction(10) ** order > mx:
            order -= 1
        yield {"kind": "decimals", "ops": [f"decimals {-order} {_q(tol)} {','.join(_q(x) for x in xs)}"]}


def smallest_cases(rng, tier):
    """_to_smallest_integer_type on wide (int64/uint64) arrays with values on the type boundaries, and compress() on them."""
    n_cases = 150 if tier == "quick" else 3000
    bounds = [2 ** 7, 2 ** 8, 2 ** 15, 2 ** 16, 2 ** 31, 2 ** 32]
    for _ in range(n_cases):
        n = rng.choice([1, 2, 3, 5])
        xs = []
        for _ in range(n):
            b = rng.choice(bounds)
            xs.append(rng.choice([b, b - 1, b + 1, -b, -b - 1, -b + 1, 0, 1, -1, rng.randint(-300, 300)]))
        if rng.random() < 0.4:
            xs = [abs(x) for x in xs]
        if rng.random() < 0.05:
            xs = []
        yield {"kind": "smallest", "ops": [f"smallest {_ints(xs)}"], "rt": {"enc": "compress_int", "dtype": "i64", "data": xs}}


def column_cases(rng, tier):
    """oracle-only: BinaryCIFColumn with a mask: as_array() in every flavour must not alter the column; write -> read equal."""
    for _ in range(60 if tier == "quick" else 800):
        yield {"kind": "column", "rt": {"enc": "column", "n": rng.choice([1, 2, 4, 7]), "seed": rng.randint(0, 10 ** 9),
                                        "flavour": rng.choice(["str", "int", "int", "float"]),
                                        "call": rng.choice(["as_array()", "as_array(str)", "as_array(masked)", "as_array(masked)", "as_array(masked)",
                                                            "as_array(int,-1)", "as_array(float,nan)"])}}


def float_cases(rng, tier):
    """oracle-only: compress() on float columns, incl. the malformed stream (NaN, inf, huge, tiny, wide range)."""
    n_cases = 120 if tier == "quick" else 3000
    special = [float("nan"), float("inf"), float("-inf"), 3e9, -2.5e9, 1e8, 1e-12, 5e-324, 1e-310, 1e300, 0.0, -0.0, 2147483.647, 2147483.648]
    for _ in range(n_cases):
        ft = rng.choice(["f4", "f8"])
        n = rng.choice([1, 2, 3, 6, 12, 40])
        style = rng.choice(["coords", "coords", "occupancy", "wide", "special", "ints", "round", "negbig", "minute"])
        if style == "coords":
            xs = [round(rng.uniform(-500, 500), 3) for _ in range(n)]
        elif style == "occupancy":
            xs = [rng.choice([1.0, 0.5, 0.25, 0.33, 0.67]) for _ in range(n)]
        elif style == "wide":
            xs = [rng.uniform(-1, 1) * 10 ** rng.randint(-12, 9) for _ in range(n)]
        elif style == "ints":
            xs = [float(rng.randint(-10 ** rng.randint(0, 10), 10 ** rng.randint(0, 10))) for _ in range(n)]
        elif style == "round":
            # few significant digits, large magnitude: _get_decimal_places returns a NEGATIVE decimal count
            xs = [rng.choice([-1, 1]) * rng.randint(1, 99) * 10.0 ** rng.randint(7, 23) if rng.random() < 0.6 else float(rng.randint(-50, 50)) for _ in range(n)]
        elif style == "minute":
            # every value tiny: the decimal count needed exceeds what a 64-bit factor can express
            e = rng.randint(15, 44 if ft == "f4" else 300)
            pool = [rng.choice([-1, 1]) * rng.randint(1, 999) * 10.0 ** -e for _ in range(rng.choice([1, 2, 3]))]
            xs = [rng.choice(pool) for _ in range(max(n, 12))]      # few distinct values, many rows: the fixed-point chain wins the size comparison
        elif style == "negbig":
            # the largest magnitude is negative, next to tiny high-precision values
            xs = [-rng.uniform(20, 9000) for _ in range(n)]
            xs[rng.randrange(n)] = -rng.uniform(1, 9) * 10.0 ** -rng.randint(3, 7)
        else:
            xs = [rng.choice(special) if rng.random() < 0.4 else round(rng.uniform(-50, 50), 2) for _ in range(n)]
        tol = rng.choice([1e-6, 1e-6, 1e-3, 1e-9])
        yield {"kind": "compress_float/" + style, "rt": {"enc": "compress_float", "ft": ft, "tol": tol, "data": [repr(x) for x in xs]}}
    # malformed stream for the bare encodings (known findings live here)
    for _ in range(30 if tier == "quick" else 600):
        ft = rng.choice(["f4", "f8"])
        xs = [rng.choice(special) if rng.random() < 0.5 else round(rng.uniform(-50, 50), 2) for _ in range(rng.randint(1, 5))]
        yield {"kind": "fixed_malformed", "rt": {"enc": "fixed_float", "factor": rng.choice([1, 10, 1000]), "ft": ft, "data": [repr(x) for x in xs]}}
        yield {"kind": "bytes_float", "rt": {"enc": "bytes_float", "data": [repr(x) for x in xs]}}
    # whole files: columns with masks, strings, ints, floats
    for _ in range(20 if tier == "quick" else 300):
        n = rng.choice([1, 2, 5, 9])
        yield {"kind": "file", "rt": {"enc": "file", "n": n, "seed": rng.randint(0, 10 ** 9)}}


def corpus():
    return [
        # encoding parameters that float32 cannot hold exactly, through a real file (seeded C05-24: msgpack use_single_float)
        {"kind": "params/fixed", "rt": {"enc": "params", "which": "fixed", "st": "py", "factor": 0.01, "data": ["100.0", "-2500.0", "300.0"]}},
        {"kind": "params/fixed", "rt": {"enc": "params", "which": "fixed", "st": "float64", "factor": 1 / 3, "data": ["3.0", "-9.0", "30.0"]}},
        {"kind": "params/interval", "rt": {"enc": "params", "which": "interval", "st": "py", "min": 0.1, "max": 3.2, "n": 32, "data": ["0.1", "1.7", "3.2"]}},
        # compress() of data that already carries a lossy chain, one row and several (seeded C05-23)
        {"kind": "recompress", "rt": {"enc": "recompress", "pre": "fixed10", "ft": "f8", "tol": 1e-6, "data": ["1.2345"]}},
        {"kind": "recompress", "rt": {"enc": "recompress", "pre": "interval", "ft": "f4", "tol": 1e-6, "data": ["12.34"]}},
        {"kind": "rle", "ops": ["rle_enc u32 - 4294967295,4294967295,0"], "rt": {"enc": "rle", "dtype": "u32", "data": [4294967295, 4294967295, 0]}},
        {"kind": "pack", "ops": ["pack_enc 1 s 127,-128,254,-256,0"], "rt": {"enc": "pack", "bc": 1, "u": "s", "data": [127, -128, 254, -256, 0]}},
        {"kind": "delta", "ops": ["delta_enc u8 250,3,255,0", "delta_dec u8 250 0,9,252,1"], "rt": {"enc": "delta", "dtype": "u8", "data": [250, 3, 255, 0]}},
    ]


# ---------------------------------------------------------------- implementation adapter
def _fmt(fn):
    try:
        return fn()
    except Exception as e:  # noqa: BLE001
        return "ERR:" + type(e).__name__


def _parse(s):
    return [] if s == "_" else [int(x) for x in s.split(",")]


def run_impl(case):
    import numpy as np
    from biotite.structure.io.pdbx import encoding as E

    out = []
    cont = None
    for op in case["ops"]:
        w = op.split()
        if w[0].startswith("cont_"):
            cont, line = _cont_op(cont, w)
            out.append(line)
            continue
        if w[0] == "rle_enc":
            t, n, xs = w[1], (None if w[2] == "-" else int(w[2])), _parse(w[3])
            out.append(_fmt(lambda: "ok " + _ints(E.RunLengthEncoding(src_size=n).encode(np.array(xs, dtype=NP[t])))))
        elif w[0] == "rle_dec":
            t, n, xs = w[1], (None if w[2] == "-" else int(w[2])), _parse(w[3])
            out.append(_fmt(lambda: "ok " + _ints(E.RunLengthEncoding(src_size=n, src_type=np.dtype(NP[t])).decode(np.array(xs, dtype=np.int32)))))
        elif w[0] == "delta_enc":
            t, xs = w[1], _parse(w[2])

            def f():
                enc = E.DeltaEncoding()
                r = enc.encode(np.array(xs, dtype=NP[t]))
                return f"ok {int(enc.origin)} {_ints(r)}"
            out.append(_fmt(f))
        elif w[0] == "delta_enc_o":
            t, o, xs = w[1], int(w[2]), _parse(w[3])
            out.append(_fmt(lambda: "ok " + _ints(E.DeltaEncoding(origin=o).encode(np.array(xs, dtype=NP[t])))))
        elif w[0] == "delta_dec":
            t, o, xs = w[1], int(w[2]), _parse(w[3])
            out.append(_fmt(lambda: "ok " + _ints(E.DeltaEncoding(src_type=np.dtype(NP[t]), origin=o).decode(np.array(xs, dtype=np.int32)))))
        elif w[0] == "pack_enc":
            bc, u, xs = int(w[1]), {"u": True, "s": False, "a": None}[w[2]], _parse(w[3])
            out.append(_fmt(lambda: "ok " + _ints(E.IntegerPackingEncoding(byte_count=bc, is_unsigned=u).encode(np.array(xs, dtype=np.int32)))))
        elif w[0] == "pack_enc_w":
            bc, u, t, xs = int(w[1]), {"u": True, "s": False, "a": None}[w[2]], w[3], _parse(w[4])
            wide = {"u32": np.uint32, "i64": np.int64, "u64": np.uint64}[t]
            out.append(_fmt(lambda: "ok " + _ints(E.IntegerPackingEncoding(byte_count=bc, is_unsigned=u).encode(np.array(xs, dtype=wide)))))
        elif w[0] == "pack_dec":
            pt, n, xs = w[1], int(w[2]), _parse(w[3])
            bc = 1 if pt in ("i8", "u8") else 2
            out.append(_fmt(lambda: "ok " + _ints(E.IntegerPackingEncoding(byte_count=bc, src_size=n, is_unsigned=pt.startswith("u")).decode(np.array(xs, dtype=NP[pt])))))
        elif w[0] == "safe_cast":
            a, b, xs = w[1], w[2], _parse(w[3])
            out.append(_fmt(lambda: "ok " + _ints(E._safe_cast(np.array(xs, dtype=NP[a]), np.dtype(NP[b])))))
        elif w[0] == "fixed_enc":
            from fractions import Fraction
            f = Fraction(w[1])
            dt = np.float32 if case.get("ft") == "f4" else np.float64
            xs = [Fraction(x) for x in ([] if w[2] == "_" else w[2].split(","))]
            arr = np.array([float(x) for x in xs], dtype=dt)
            fac = float(f) if f.denominator != 1 else int(f)
            # the model rounds the exact product; only compare when the float product is exact
            exact = all(Fraction(float(a)) == x for a, x in zip(arr, xs)) and \
                all(Fraction(float(p)) == x * f for p, x in zip(arr * fac, xs))
            fits = all(abs(x * f) < 2 ** 31 - 1 for x in xs)
            if not exact:
                out.append("inexact-skip")
            elif not fits:
                out.append("unmodelled")
            else:
                out.append(_fmt(lambda: "ok " + _ints(E.FixedPointEncoding(factor=fac).encode(arr))))
        elif w[0] == "fixed_dec":
            from fractions import Fraction
            f, ks = int(w[1]), _parse(w[2])
            dt = np.float32 if case.get("ft") == "f4" else np.float64

            def fd():
                r = E.FixedPointEncoding(factor=f, src_type=dt).decode(np.array(ks, dtype=np.int32))
                qs = [Fraction(float(x)) for x in r]
                return "ok " + (",".join(_q(x) for x in qs) if qs else "_")
            out.append(_fmt(fd))
        elif w[0] == "interval_enc":
            from fractions import Fraction
            mn, mx, n = Fraction(w[1]), Fraction(w[2]), int(w[3])
            xs = [Fraction(x) for x in ([] if w[4] == "_" else w[4].split(","))]
            out.append(_fmt(lambda: "ok " + _ints(E.IntervalQuantizationEncoding(float(mn), float(mx), n).encode(np.array([float(x) for x in xs], dtype=np.float64)))))
        elif w[0] == "string_enc":
            ss = _unstrs(w[1])

            def fs():
                enc = E.StringArrayEncoding(data_encoding=[], offset_encoding=[])
                idx = enc.encode(np.array(ss, dtype="U"))
                ser = enc.serialize()
                return f"ok {_strs([str(x) for x in enc.strings])} {_ints(idx)} {_ints(ser['offsets'])}"
            out.append(_fmt(fs))
        elif w[0] == "string_enc_tbl":
            tbl, ss = _unstrs(w[1]), _unstrs(w[2])
            out.append(_fmt(lambda: "ok " + _ints(E.StringArrayEncoding(strings=np.array(tbl, dtype="U"), data_encoding=[]).encode(np.array(ss, dtype="U")))))
        elif w[0] == "camel":
            out.append(_fmt(lambda: "ok " + _s(E._snake_to_camel_case(_unstrs(w[1])[0]))))
        elif w[0] == "snake":
            out.append(_fmt(lambda: "ok " + _s(E._camel_to_snake_case(_unstrs(w[1])[0]))))
        elif w[0] == "string_dec":
            tbl, idx = _unstrs(w[1]), _parse(w[2])
            out.append(_fmt(lambda: "ok " + _strs([str(x) for x in E.StringArrayEncoding(strings=np.array(tbl, dtype="U"), data_encoding=[]).decode(np.array(idx, dtype=np.int32))])))
        elif w[0] == "bytes_enc":
            t, xs = w[1], _parse(w[2])
            out.append(_fmt(lambda: "ok " + _ints(list(E.ByteArrayEncoding().encode(np.array(xs, dtype=NP[t]))))))
        elif w[0] == "bytes_dec":
            t, bs = w[1], _parse(w[2])
            out.append(_fmt(lambda: "ok " + _ints(E.ByteArrayEncoding(type=np.dtype(NP[t])).decode(bytes(bs)))))
        elif w[0] == "decimals":
            from fractions import Fraction
            _get_decimal_places = _compress_private("decimals")
            tol = float(Fraction(w[2]))
            xs = [float(Fraction(x)) for x in w[3].split(",")]

            def fdp():
                with np.errstate(all="ignore"):
                    return f"ok {_get_decimal_places(np.array(xs, dtype=np.float64), tol)}"
            out.append(_fmt(fdp))
        elif w[0] == "smallest":
            _to_smallest_integer_type = _compress_private("smallest")
            xs = _parse(w[1])

            def fsm():
                arr = np.array(xs, dtype=np.uint64 if (xs and min(xs) >= 0 and max(xs) >= 2 ** 63) else np.int64)
                dt = _to_smallest_integer_type(arr).dtype
                return "ok " + {"int8": "i8", "int16": "i16", "int32": "i32", "int64": "i64", "uint8": "u8", "uint16": "u16", "uint32": "u32", "uint64": "u64"}[dt.name]
            out.append(_fmt(fsm))
        elif w[0] == "chain":
            c, t, xs = w[1], w[2], _parse(w[3])

            def fc():
                encs = ([E.DeltaEncoding()] if c[0] == "d" else []) + ([E.RunLengthEncoding()] if c[1] == "r" else []) + \
                    ([E.IntegerPackingEncoding(int(c[2]))] if c[2] != "0" else [])
                try:
                    stream = E.encode_stepwise(np.array(xs, dtype=NP[t]), encs)
                except Exception:
                    return "rejected"
                dec = E.decode_stepwise(stream, encs)
                return f"ok {_ints(stream)} -> {_ints(dec)}"
            out.append(_fmt(fc))
        else:
            out.append("bad-op")
    return out


# ---- lazily deserialising containers: adapter -------------------------------------------------------------------------
_CONT_LIST = {"category": "columns", "block": "categories", "file": "dataBlocks"}
_CONT_NAME = {"category": "name", "block": "name", "file": "header"}


def _cont_classes(level):
    from biotite.structure.io.pdbx import bcif
    return {"category": bcif.BinaryCIFCategory, "block": bcif.BinaryCIFBlock, "file": bcif.BinaryCIFFile}[level]


def _cont_elem(level, v):
    """A live element holding the integer v."""
    import numpy as np
    from biotite.structure.io.pdbx import bcif
    col = bcif.BinaryCIFColumn(np.array([v], dtype=np.int32))
    if level == "category":
        return col
    cat = bcif.BinaryCIFCategory({"c": col})
    if level == "block":
        return cat
    return bcif.BinaryCIFBlock({"k": cat})


def _cont_value(level, elem):
    if level == "category":
        return int(elem.as_array()[0])
    if level == "block":
        return int(elem["c"].as_array()[0])
    return int(elem["k"]["c"].as_array()[0])


def _cont_ser_elem(level, name, v):
    """The serialised form of an element as it stands in a file; `bad` lacks the part deserialize needs."""
    if v == "bad":
        d = {"mask": None} if level == "category" else {"rowCount": 1} if level == "block" else {}
    else:
        d = _cont_elem(level, int(v)).serialize()
    d[_CONT_NAME[level]] = name
    return d


def _cont_show(level, content):
    import copy
    sub = {"category": "BinaryCIFColumn", "block": "BinaryCIFCategory", "file": "BinaryCIFBlock"}[level]
    from biotite.structure.io.pdbx import bcif
    items = []
    for d in content:
        name = d[_CONT_NAME[level]]
        try:
            v = str(_cont_value(level, getattr(bcif, sub).deserialize(copy.deepcopy(d))))
        except Exception:
            v = "bad"
        items.append(f"{_s(name)}:{v}")
    return ",".join(items) if items else "_"


def _cont_op(cont, w):
    """cont = (level, container object)"""
    try:
        if w[0] == "cont_init":
            level = w[1]
            items = [] if w[2] == "_" else [x.split(":") for x in w[2].split(",")]
            content = [_cont_ser_elem(level, _unstrs(k)[0], v) for k, v in items]
            cls = _cont_classes(level)
            whole = {"category": {"rowCount": 1, "columns": content}, "block": {"categories": content},
                     "file": {"dataBlocks": content, "encoder": "x", "version": "0.3.0"}}[level]
            return (level, cls.deserialize(whole)), "ok"
        level, c = cont
        if w[0] == "cont_get":
            return cont, f"ok {_cont_value(level, c[_unstrs(w[1])[0]])}"
        if w[0] == "cont_set":
            c[_unstrs(w[1])[0]] = _cont_elem(level, int(w[2]))
            return cont, "ok"
        if w[0] == "cont_del":
            del c[_unstrs(w[1])[0]]
            return cont, "ok"
        if w[0] == "cont_has":
            return cont, f"ok {'true' if _unstrs(w[1])[0] in c else 'false'}"
        if w[0] == "cont_keys":
            return cont, "ok " + _strs(list(c.keys()))
        if w[0] == "cont_ser":
            return cont, "ok " + _cont_show(level, c.serialize()[_CONT_LIST[level]])
        if w[0] == "cont_reread":
            import copy
            return (level, _cont_classes(level).deserialize(copy.deepcopy(c.serialize()))), "ok"
        return cont, "bad-op"
    except Exception as e:  # noqa: BLE001
        return cont, "ERR:" + type(e).__name__



def _cont_oracle(case):
    """Independent reference: a plain dict of integers (None = unreadable element).  Every observation on the real container —
    values, KeyErrors, key lists, what a re-read of the serialised container holds — must be that of the dict."""
    level = case["rt"]["level"]
    ops = [op.split() for op in case["ops"]]
    items = [] if ops[0][2] == "_" else [x.split(":") for x in ops[0][2].split(",")]
    names = [_unstrs(k)[0] for k, _ in items]
    norm = [n.removeprefix("_") for n in names] if level == "block" else names
    if len(set(norm)) != len(norm):
        return []          # the same name twice in one file: not a well-formed file, nothing is promised
    spec = {n: (None if v == "bad" else int(v)) for n, (_, v) in zip(norm, items)}
    cont = None
    out = []
    for i, w in enumerate(ops):
        cont, line = _cont_op(cont, w)
        k = _unstrs(w[1])[0] if len(w) > 1 and w[0] != "cont_init" else None
        want = None
        if w[0] == "cont_get":
            want = "ERR:KeyError" if k not in spec else "ERR:DeserializationError" if spec[k] is None else f"ok {spec[k]}"
        elif w[0] == "cont_set":
            spec[k] = int(w[2])
            want = "ok"
        elif w[0] == "cont_del":
            want = "ok" if k in spec else "ERR:KeyError"
            spec.pop(k, None)
        elif w[0] == "cont_has":
            want = f"ok {'true' if k in spec else 'false'}"
        elif w[0] == "cont_keys":
            want = "ok " + _strs(list(spec))
        elif w[0] in ("cont_ser", "cont_reread"):
            if level == "category" and (not spec or any(x is None for x in spec.values())):
                want = None if line.startswith("ERR:") else "a refusal"      # an empty or unreadable category cannot be written
            elif w[0] == "cont_ser":
                pre = "_" if level == "block" else ""
                want = "ok " + (",".join(f"{_s(pre + n)}:{'bad' if x is None else x}" for n, x in spec.items()) if spec else "_")
            else:
                want = "ok"
        if want is not None and line != want:
            out.append((f"C05/container/{level}/{w[0][5:]}", f"after {' ; '.join(case['ops'][:i + 1])}: the {level} answers {line!r}, a plain dict {want!r}"))
            break
    return out



def _unstrs(s):
    if s == "_":
        return []
    return ["" if x == "~" else "".join(chr(int(c)) for c in x.split(".")) for x in s.split(",")]


# ---------------------------------------------------------------- property oracle (independent of the model)
def _same_float(a, b):
    import math
    if math.isnan(a) or math.isnan(b):
        return math.isnan(a) and math.isnan(b)
    return a == b


def _maybe_big_endian(arr, rt):
    """Some round-trip cases present the same values in another memory layout: big-endian, a strided view, a read-only
    array (all legal numpy inputs; the model sees values only)."""
    import numpy as np
    if rt.get("be") and arr.dtype.kind in "iuf" and arr.dtype.itemsize > 1:
        return arr.astype(arr.dtype.newbyteorder(">"))
    lay = rt.get("layout")
    if lay == "strided" and len(arr):
        wide = np.empty((len(arr), 3), dtype=arr.dtype)
        wide[:] = 0
        wide[:, 1] = arr
        return wide[:, 1]
    if lay == "readonly":
        arr = arr.copy()
        arr.setflags(write=False)
    return arr


def oracle(case):
    """decode(encode(x)) == x on the real code (within the stated precision for floats), or a rejection;
    never a silently different array.  Written from the property statement only."""
    import math
    from fractions import Fraction

    import numpy as np
    from biotite.structure.io.pdbx import bcif
    from biotite.structure.io.pdbx import compress as _compress_fn
    from biotite.structure.io.pdbx import encoding as E

    rt = case.get("rt")
    if not rt:
        return []
    data = rt["data"] if "data" in rt else None
    kind = rt["enc"]
    v = []
    if kind in ("rle", "delta", "pack", "bytes"):
        try:
            if kind == "rle":
                arr = np.array(data, dtype=NP[rt["dtype"]])
                enc = E.RunLengthEncoding()
            elif kind == "delta":
                arr = np.array(data, dtype=NP[rt["dtype"]])
                if "origin" not in rt:
                    enc = E.DeltaEncoding()
                elif rt.get("reused"):
                    enc = E.DeltaEncoding()
                    enc.encode(np.array([rt["origin"], rt["origin"]], dtype=NP[rt["dtype"]]))     # the first use fixes origin and type
                else:
                    enc = E.DeltaEncoding(origin=rt["origin"])
            elif kind == "pack":
                arr = np.array(data, dtype=np.int32)
                enc = E.IntegerPackingEncoding(byte_count=rt["bc"], is_unsigned={"u": True, "s": False, "a": None}[rt["u"]])
            else:
                arr = np.array(data, dtype=NP[rt["dtype"]])
                enc = E.ByteArrayEncoding(type=np.dtype(NP[rt["dst"]]))
            arr = _maybe_big_endian(arr, rt)
            before = arr.copy()
            back = enc.decode(enc.encode(arr))
            if arr.dtype != before.dtype or not np.array_equal(arr, before):
                v.append((f"C05/{kind}/argument-modified", f"{rt}: the caller's array was changed to {arr.tolist()[:12]}"))
        except Exception as e:  # noqa: BLE001
            # a refusal is what the property asks for values the stored type cannot hold — and only for those
            sup = SUPPORTED[rt["dtype"]] if kind != "pack" else "i32"
            lo, hi = RANGE[rt["dst"]] if kind == "bytes" else RANGE[sup]
            legit = (not data) or any(not lo <= x <= hi for x in data)
            if kind == "pack":
                legit = legit or rt["bc"] not in (1, 2) or (rt["u"] == "u" and any(x < 0 for x in data))
            if kind == "delta" and "origin" in rt:
                legit = legit or not lo <= rt["origin"] <= hi
            if legit:
                return v
            if rt.get("be") and rt["dtype"] == "i64" and isinstance(e, KeyError):
                # one call site: TypeCode.from_dtype compares `dtype == np.int64` (false for '>i8') before normalising the byte order
                return v + [("C05/TypeCode.from_dtype/big-endian-int64-KeyError", f"{rt}: a big-endian int64 array whose values fit int32 is refused with KeyError {e}")]
            return v + [(f"C05/{kind}/rejected-representable", f"{rt}: every value fits the stored type, yet encode/decode raised {type(e).__name__}: {str(e)[:80]}")]
        if len(back) != len(data) or any(int(a) != int(b) for a, b in zip(back, data)):
            if kind == "delta" and rt["dtype"] == "i64" and any(not -2 ** 31 <= x < 2 ** 31 for x in data):
                key = "C05/DeltaEncoding/int64-values-exceed-int32"
            elif kind == "delta" and rt["dtype"] == "i64":
                key = "C05/DeltaEncoding/int64-differences-exceed-int32"
            else:
                key = f"C05/{kind}/roundtrip"
            v.append((key, f"{rt} decodes to {[int(x) for x in back][:12]}"))
    elif kind == "fixed":
        f = Fraction(rt["factor"])
        dt = np.float32 if rt["ft"] == "f4" else np.float64
        xs = [Fraction(x) for x in data]
        arr = np.array([float(x) for x in xs], dtype=dt)
        try:
            enc = E.FixedPointEncoding(factor=float(f) if f.denominator != 1 else int(f))
            back = enc.decode(enc.encode(arr))
        except Exception:
            return []
        for a, b in zip(arr, back):
            tol = Fraction(1, 2) / f + abs(Fraction(float(a))) * Fraction(1, 2 ** 22)
            if not math.isfinite(b) or abs(Fraction(float(b)) - Fraction(float(a))) > tol:
                key = "C05/FixedPointEncoding/overflow-or-nonfinite" if (not math.isfinite(a) or abs(Fraction(float(a)) * f) >= 2 ** 31 - 1) else "C05/fixed/precision"
                v.append((key, f"FixedPoint(factor={f}) {float(a)!r} -> {float(b)!r}"))
                break
    elif kind == "interval":
        mn, mx, n = Fraction(rt["min"]), Fraction(rt["max"]), rt["n"]
        xs = [Fraction(x) for x in data]
        enc = E.IntervalQuantizationEncoding(float(mn), float(mx), n)
        arr = np.array([float(x) for x in xs], dtype=np.float64)
        try:
            back = enc.decode(enc.encode(arr))
        except Exception:
            return []
        step = (mx - mn) / (n - 1)
        for x, b in zip(xs, back):
            if not (0 <= Fraction(float(b)) - x < step):
                key = "C05/interval/precision" if mn <= x <= mx else "C05/IntervalQuantizationEncoding/value-outside-interval-altered"
                v.append((key, f"IntervalQuantization({mn},{mx},{n}) {x} -> {b}"))
                break
    elif kind == "string":
        arr = np.array(data, dtype="U")
        try:
            d = bcif.BinaryCIFData(arr)
            back = bcif.BinaryCIFData.deserialize(d.serialize()).array
            c = _compress_fn(bcif.BinaryCIFData(arr))
            back2 = bcif.BinaryCIFData.deserialize(c.serialize()).array
        except Exception as e:  # noqa: BLE001
            # every non-empty array of strings is representable: there is nothing a refusal could be about
            # (the empty column is refused by compress() like the empty integer column, C05_rle_empty)
            if not data:
                return []
            return [("C05/StringArray/rejected-representable", f"string array {data}: {type(e).__name__}: {str(e)[:80]}")]
        for bk, name in ((back, "StringArray"), (back2, "compress/StringArray")):
            if [str(x) for x in bk] != list(data):
                v.append((f"C05/{name}/roundtrip", f"{data} -> {[str(x) for x in bk]}"))
    elif kind == "compress_int":
        arr = _maybe_big_endian(np.array(data, dtype=NP[rt["dtype"]]), rt)
        try:
            c = _compress_fn(bcif.BinaryCIFData(arr))
            back = bcif.BinaryCIFData.deserialize(c.serialize()).array
        except Exception as e:  # noqa: BLE001
            lo, hi = RANGE[SUPPORTED[rt["dtype"]]]
            fits = data and all(lo <= x <= hi for x in data)
            if not fits:
                # the type the format maps this dtype to (int64 -> INT32) cannot hold these values, or the array is empty:
                # a refusal is what the property asks for (longer int64 arrays within uint32 are accepted through uint32, also fine)
                return []
            if rt.get("be") and rt["dtype"] == "i64" and isinstance(e, KeyError):
                return [("C05/TypeCode.from_dtype/big-endian-int64-KeyError", f"compress() of {rt}: KeyError {e}")]
            return [("C05/compress/int-rejected-representable", f"compress() of {rt}: {type(e).__name__}: {str(e)[:80]}")]
        if len(back) != len(data) or any(int(a) != int(b) for a, b in zip(back, data)):
            v.append(("C05/compress/int-roundtrip", f"{rt} -> {[int(x) for x in back][:12]} via {[type(e).__name__ for e in c.encoding]}"))
    elif kind == "compress_float":
        dt = np.float32 if rt["ft"] == "f4" else np.float64
        with np.errstate(over="ignore"):
            arr = np.array([float(x) for x in data], dtype=dt)
        tol = rt["tol"]
        from common import sandbox
        res = sandbox.run_forked(_compress_float, [float(x) for x in arr], rt["ft"], tol, bool(rt.get("be")), timeout=6)
        if res[0] == "timeout":
            return [("C05/compress/float-hang", f"compress() does not terminate on {data}")]
        if res[0] != "ok":
            # compress() always has the lossless byte fallback: no float array is unrepresentable
            if len(data) == 0:
                return []
            return [("C05/compress/float-rejected", f"compress(tol={tol}) of {rt['ft']} {data}: {res[1:]}")]
        back, encs = res[1]
        eps = 2.0 ** -23 if rt["ft"] == "f4" else 2.0 ** -52
        for a, b in zip([float(x) for x in arr], back):
            if _same_float(a, b):
                continue
            if math.isfinite(a) and math.isfinite(b) and abs(b - a) <= (tol + 4 * eps) * abs(a):
                continue
            v.append(("C05/compress/float-corrupted", f"compress(tol={tol}) {a!r} -> {b!r} in {data} via {encs}"))
            break
    elif kind == "fixed_float":
        dt = np.float32 if rt["ft"] == "f4" else np.float64
        with np.errstate(all="ignore"):
            arr = np.array([float(x) for x in data], dtype=dt)
            try:
                enc = E.FixedPointEncoding(factor=rt["factor"])
                back = enc.decode(enc.encode(arr))
            except Exception:
                return []
        for a, b in zip([float(x) for x in arr], [float(x) for x in back]):
            if _same_float(a, b) or (math.isfinite(a) and math.isfinite(b) and abs(b - a) <= 0.5 / rt["factor"] + abs(a) * 2.0 ** -22):
                continue
            bad = (not math.isfinite(a)) or abs(a * rt["factor"]) >= 2 ** 31 - 1
            key = "C05/FixedPointEncoding/overflow-or-nonfinite" if bad else "C05/fixed/precision"
            v.append((key, f"FixedPoint(factor={rt['factor']}) {a!r} -> {b!r}"))
            break
    elif kind == "bytes_float":
        with np.errstate(all="ignore"):
            arr = np.array([float(x) for x in data], dtype=np.float64)
            try:
                enc = E.ByteArrayEncoding(type=np.float32)
                back = enc.decode(enc.encode(arr))
            except Exception:
                return []
        for a, b in zip([float(x) for x in arr], [float(x) for x in back]):
            # requested float32 storage: float32 precision (relative 2^-23, absolute 2^-126 for underflow) is the stated precision
            if _same_float(a, b) or (math.isfinite(a) and math.isfinite(b) and abs(b - a) <= abs(a) * 2.0 ** -23 + 2.0 ** -126):
                continue
            key = "C05/ByteArrayEncoding/float64-to-float32-overflow" if (math.isfinite(a) and not math.isfinite(b)) else "C05/bytes_float/roundtrip"
            v.append((key, f"ByteArray(FLOAT32) {a!r} -> {b!r}"))
            break
    elif kind == "reuse":
        arr1 = np.array(rt["first"], dtype=NP[rt["dtype"]])
        arr2 = np.array(data, dtype=NP[rt["dtype"]])
        try:
            if rt["which"] == "rle":
                enc = E.RunLengthEncoding()
            else:
                enc = E.IntegerPackingEncoding(byte_count=int(rt["which"][-1]))
                arr1, arr2 = arr1.astype(np.int32), arr2.astype(np.int32)
            enc.encode(arr1)                      # fixes src_size (and is_unsigned) on the first array
            back = enc.decode(enc.encode(arr2))   # reuse: must reject or round-trip
        except Exception:
            return []
        if len(back) != len(data) or any(int(a) != int(b) for a, b in zip(back, data)):
            v.append((f"C05/{rt['which'][:4].rstrip('12')}/reused-encoding-roundtrip",
                      f"{rt['which']} encoding first used on {rt['first']} then on {data}: decodes to {[int(x) for x in back][:14]}"))
    elif kind == "u64":
        arr = np.array(data, dtype=np.uint64)
        import warnings
        warnings.simplefilter("ignore", RuntimeWarning)
        try:
            ch = rt["chain"]
            if ch == "compress":
                c = _compress_fn(bcif.BinaryCIFData(arr))
                back = bcif.BinaryCIFData.deserialize(c.serialize()).array
            elif ch == "data":
                back = bcif.BinaryCIFData.deserialize(bcif.BinaryCIFData(arr).serialize()).array
            else:
                encs = {"bytes": [E.ByteArrayEncoding()], "delta": [E.DeltaEncoding(), E.ByteArrayEncoding()],
                        "rle": [E.RunLengthEncoding(), E.ByteArrayEncoding()],
                        "delta+rle": [E.DeltaEncoding(), E.RunLengthEncoding(), E.ByteArrayEncoding()]}[ch]
                d = bcif.BinaryCIFData(arr, encs)
                back = bcif.BinaryCIFData.deserialize(d.serialize()).array
        except Exception as e:  # noqa: BLE001
            # uint64 is mapped to UINT32 by the format: a rejection is legitimate only for values UINT32 cannot hold, for the
            # empty array, or where the unchanged Delta path is already known to be broken for this array (known-finding class)
            shifted = [x - data[0] for x in data] if data else []
            fpath = any(x < 0 for x in shifted) or any(abs(b - a) > 2 ** 31 - 1 for a, b in zip([0] + shifted, shifted))
            if not data or any(x > 2 ** 32 - 1 for x in data) or ("delta" in rt["chain"] and fpath):
                return []
            return [(f"C05/u64/{rt['chain']}-rejected-representable",
                     f"uint64 {data} (all values fit UINT32) through {rt['chain']} raised {type(e).__name__}: {str(e)[:80]}")]
        if len(back) != len(data) or any(int(a) != int(b) for a, b in zip(back, data)):
            big = any(x > 2 ** 32 - 1 for x in data)
            shifted = [x - data[0] for x in data]
            float_path = any(x < 0 for x in shifted) or any(abs(b - a) > 2 ** 31 - 1 for a, b in zip([0] + shifted, shifted)) \
                or any(x > 2 ** 32 - 1 for x in data)
            if "delta" in ch and float_path:
                # one call site, one cause: np.diff(uint64 data, prepend=0) is computed in float64, astype(int32) of an
                # out-of-range float is INT_MIN instead of the two's-complement wrap the uint32/int64 paths rely on
                key = "C05/DeltaEncoding/uint64-array-promoted-to-float64"
            else:
                key = f"C05/u64/{ch}-roundtrip"
            v.append((key, f"uint64 {data} through {ch}: decodes to {[int(x) for x in back][:12]}"))
    elif kind == "interval_float":
        dt = np.float32 if rt["ft"] == "f4" else np.float64
        mn, mx, n = rt["min"], rt["max"], rt["n"]
        grid = np.linspace(mn, mx, n, dtype=dt)
        step = (mx - mn) / (n - 1)
        pts = [grid[i] for i in rt["on_grid"]] + [dt(mn + f * (mx - mn)) for f in rt["fracs"]]
        arr = np.array(pts, dtype=dt)
        try:
            enc = E.IntervalQuantizationEncoding(mn, mx, n)
            back = enc.decode(enc.encode(arr))
        except Exception:
            return []
        slack = 4e-6 * max(abs(mn), abs(mx), 1.0) if rt["ft"] == "f4" else 1e-12
        for k, (a, b) in enumerate(zip(arr, back)):
            d = float(b) - float(a)
            on = k < len(rt["on_grid"])
            # a value on the grid decodes to itself; any value decodes to the next grid point at or above it
            if (on and abs(d) > slack) or not (-slack <= d < step + slack):
                v.append(("C05/interval/precision", f"IntervalQuantization({mn},{mx},{n}) {rt['ft']} {float(a)!r} -> {float(b)!r} (step {step})"))
                break
    elif kind == "names":
        n = rt["name"]
        try:
            back = E._camel_to_snake_case(E._snake_to_camel_case(n))
        except Exception as e:  # noqa: BLE001
            back = type(e).__name__
        if back != n:
            v.append(("C05/serialize/parameter-name-roundtrip", f"parameter {n!r} is written as {E._snake_to_camel_case(n)!r} and read back as {back!r}"))
    elif kind == "encser":
        v += _encser_check(rt)
    elif kind == "cont":
        v += _cont_oracle(case)
    elif kind == "spell":
        v += _spell_check(rt)
    elif kind == "misuse":
        v += _misuse_check(rt)
    elif kind == "recompress":
        v += _recompress_check(rt)
    elif kind == "widepack":
        v += _widepack_check(rt)
    elif kind == "pathwrite":
        v += _pathwrite_check(rt)
    elif kind == "session":
        from common import sandbox
        res = sandbox.run_forked(_session_run, rt, timeout=20)
        if res[0] == "timeout":
            v.append(("C05/compress/float-hang", f"a sequence of compress() calls does not terminate: {rt}"))
        elif res[0] == "ok":
            v += [tuple(x) for x in res[1]]
    elif kind == "strtable":
        v += _strtable_check(rt)
    elif kind == "level":
        v += _level_check(rt)
    elif kind == "params":
        v += _params_check(rt)
    elif kind == "rewrite":
        v += _rewrite_check(rt)
    elif kind == "file":
        v += _file_roundtrip(rt)
    elif kind == "column":
        v += _column_check(rt)
    return v


def _compress_float(xs, ft, tol, be=False):
    import numpy as np
    from biotite.structure.io.pdbx import bcif
    from biotite.structure.io.pdbx import compress as _compress_fn
    arr = np.array(xs, dtype=np.float32 if ft == "f4" else np.float64)
    if be:
        arr = arr.astype(arr.dtype.newbyteorder(">"))
    c = _compress_fn(bcif.BinaryCIFData(arr), float_tolerance=tol)
    # through the real file layer (msgpack), not only serialize(): an encoding parameter msgpack cannot write is a failed write
    import io
    f = bcif.BinaryCIFFile({"b": bcif.BinaryCIFBlock({"c": bcif.BinaryCIFCategory({"x": bcif.BinaryCIFColumn(c)})})})
    buf = io.BytesIO()
    f.write(buf)
    buf.seek(0)
    back = bcif.BinaryCIFFile.read(buf)["b"]["c"]["x"].data.array
    return [float(x) for x in back], [type(e).__name__ for e in c.encoding]


def _column_check(rt):
    """A masked column is not altered by reading it through as_array(), and survives serialize -> deserialize."""
    import random

    import numpy as np
    from biotite.structure.io.pdbx import bcif
    r = random.Random(rt["seed"])
    n = rt["n"]
    if rt["flavour"] == "str":
        arr = np.array([r.choice(["A", "BB", "", "x y", "HOH", ".", "?"]) for _ in range(n)], dtype="U")
    elif rt["flavour"] == "int":
        # magnitudes from one to seven digits: the string form of a value can be longer or shorter than any masked_value
        arr = np.array([r.choice([r.randint(-500, 500), r.randint(-9999999, 9999999), r.randint(0, 9)]) for _ in range(n)], dtype=np.int32)
    else:
        arr = np.array([round(r.uniform(-9, 9), 2) for _ in range(n)], dtype=np.float64)
    mask = np.array([r.choice([0, 0, 1, 2]) for _ in range(n)], dtype=np.uint8)
    col = bcif.BinaryCIFColumn(arr.copy(), mask.copy())
    call = rt["call"]
    try:
        if call == "as_array()":
            col.as_array()
        elif call == "as_array(str)":
            col.as_array(str)
        elif call == "as_array(masked)":
            mv = r.choice(["M", "n/a", "masked!", ""])
            res = col.as_array(str, masked_value=mv)
            want = [str(x) if m == 0 else mv for x, m in zip(arr.astype(str).tolist(), mask.tolist())]
            if res.tolist() != want:
                return [("C05/column/as_array-masked-value", f"as_array(str, masked_value={mv!r}) of {arr.tolist()} mask {mask.tolist()} gives {res.tolist()}, "
                         f"the column says {want}")]
        elif call == "as_array(int,-1)":
            col.as_array(int, masked_value=-1)
        else:
            col.as_array(float, masked_value=float("nan"))
    except Exception:
        pass     # a refused conversion is fine; what matters is that the column is untouched
    out = []
    after = col.data.array
    if len(after) != len(arr) or any(str(a) != str(b) for a, b in zip(arr, after)):
        out.append(("C05/column/as_array-alters-data", f"{call} changed the column data {arr.tolist()} (mask {mask.tolist()}) into {after.tolist()}"))
    try:
        back = bcif.BinaryCIFColumn.deserialize(col.serialize())
        got, gm = back.data.array, back.mask.array if back.mask is not None else None
    except Exception as e:  # noqa: BLE001
        return out + [("C05/column/serialize-fails", f"{call} then serialize: {type(e).__name__}: {e}")]
    if [str(x) for x in got] != [str(x) for x in arr] or gm is None or [int(x) for x in gm] != [int(x) for x in mask]:
        out.append(("C05/column/roundtrip", f"{arr.tolist()} mask {mask.tolist()} -> {got.tolist()} mask {None if gm is None else gm.tolist()}"))
    return out


def _strtable_check(rt):
    import numpy as np
    from biotite.structure.io.pdbx import bcif
    from biotite.structure.io.pdbx import encoding as E
    data = list(rt["data"])
    arr = np.array(data, dtype="U")
    try:
        if rt.get("first") is not None:
            enc = E.StringArrayEncoding()
            bcif.BinaryCIFData(np.array(rt["first"], dtype="U"), [enc]).serialize()     # the first use fixes the table
            tbl = [str(x) for x in enc.strings]
        else:
            tbl = list(rt["table"])
            enc = E.StringArrayEncoding(strings=np.array(tbl, dtype="U"))
        ser = bcif.BinaryCIFData(arr, [enc]).serialize()
    except Exception:
        return []                                                                        # rejected: fine
    out = []
    if any(x not in tbl for x in data):
        out.append(("C05/StringArray/missing-string-accepted", f"table {tbl} accepted {data} although it lacks {[x for x in data if x not in tbl][:3]}"))
    try:
        back = [str(x) for x in bcif.BinaryCIFData.deserialize(ser).array]
    except Exception as e:  # noqa: BLE001
        return out + [("C05/StringArray/table-decode-fails", f"table {tbl}, data {data}: {type(e).__name__}: {e}")]
    if back != data:
        out.append(("C05/StringArray/table-roundtrip", f"table {tbl}: wrote {data}, read back {back}"))
    return out


def _level_check(rt):
    import io

    import numpy as np
    from biotite.structure.io.pdbx import bcif
    from biotite.structure.io.pdbx import compress as _compress_fn
    values = np.array([float(x) for x in rt["data"]], dtype=np.float64)
    tol, level = rt["tol"], rt["level"]
    mask = np.array([1 if (rt["masked"] and i % 5 == 4) else 0 for i in range(len(values))], dtype=np.uint8) if rt["masked"] else None
    obj = bcif.BinaryCIFData(values.copy())
    if level != "data":
        obj = bcif.BinaryCIFColumn(obj, mask)
    if level in ("category", "block", "file"):
        obj = bcif.BinaryCIFCategory({"val": obj})
    if level in ("block", "file"):
        obj = bcif.BinaryCIFBlock({"cat": obj})
    if level == "file":
        obj = bcif.BinaryCIFFile({"blk": obj})
    try:
        c = _compress_fn(obj, float_tolerance=tol)
        if level == "file":
            buf = io.BytesIO()
            c.write(buf)
            buf.seek(0)
            c = bcif.BinaryCIFFile.read(buf)["blk"]
        if level in ("file", "block"):
            c = c["cat"]
        if level in ("file", "block", "category"):
            c = c["val"]
        if level != "data":
            c = c.data
        encs = [type(e).__name__ for e in c.encoding]
        back = bcif.BinaryCIFData.deserialize(c.serialize()).array
    except Exception as e:  # noqa: BLE001
        return [("C05/compress/level-fails", f"compress({level}, float_tolerance={tol}) of {len(values)} finite floats: {type(e).__name__}: {e}")]
    if len(back) != len(values):
        return [("C05/compress/level-length", f"compress({level}) {len(values)} values -> {len(back)}")]
    for a, b in zip(values, back):
        if not abs(float(b) - float(a)) <= (tol + 2.0 ** -50) * abs(float(a)):
            return [("C05/compress/level-tolerance", f"compress({level}, float_tolerance={tol}) {float(a)!r} -> {float(b)!r} "
                     f"(relative error {abs(float(b) - float(a)) / abs(float(a)):.3g}) via {encs}")]
    return []


def _np_scalar(st, x, integral=False):
    import numpy as np
    if st == "py":
        return int(x) if integral else x
    if integral:
        return getattr(np, st if st.startswith(("int", "uint")) else "int64")(x)
    return getattr(np, st if st.startswith("float") else "float64")(x)


def _params_check(rt):
    import io

    import numpy as np
    from biotite.structure.io.pdbx import bcif
    from biotite.structure.io.pdbx import encoding as E
    st, which = rt["st"], rt["which"]
    try:
        if which == "interval":
            arr = np.array([float(x) for x in rt["data"]], dtype=np.float64)
            encs = [E.IntervalQuantizationEncoding(min=_np_scalar(st, rt["min"]), max=_np_scalar(st, rt["max"]), num_steps=_np_scalar(st, rt["n"], True)),
                    E.ByteArrayEncoding()]
        elif which == "fixed":
            arr = np.array([float(x) for x in rt["data"]], dtype=np.float64)
            encs = [E.FixedPointEncoding(factor=_np_scalar(st, rt["factor"])), E.ByteArrayEncoding()]
        elif which == "delta":
            arr = np.array(rt["data"], dtype=np.int32)
            encs = [E.DeltaEncoding(origin=_np_scalar(st, rt["data"][0], True)), E.ByteArrayEncoding()]
        elif which == "rle":
            arr = np.array(rt["data"], dtype=np.int32)
            encs = [E.RunLengthEncoding(src_size=_np_scalar(st, len(rt["data"]), True)), E.ByteArrayEncoding()]
        else:
            arr = np.array(rt["data"], dtype=np.int32)
            encs = [E.IntegerPackingEncoding(byte_count=_np_scalar(st, 1, True), src_size=_np_scalar(st, len(rt["data"]), True), is_unsigned=np.bool_(True)),
                    E.ByteArrayEncoding()]
        data = bcif.BinaryCIFData(arr, encs)
        mem = bcif.BinaryCIFData.deserialize(data.serialize())
    except Exception:
        return []          # this parameter type is refused up front (or the data do not fit): nothing was written
    try:
        f = bcif.BinaryCIFFile({"blk": bcif.BinaryCIFBlock({"cat": bcif.BinaryCIFCategory({"col": bcif.BinaryCIFColumn(data)})})})
        buf = io.BytesIO()
        f.write(buf)
        buf.seek(0)
        got = bcif.BinaryCIFFile.read(buf)["blk"]["cat"]["col"].data
        garr = got.array
    except Exception as e:  # noqa: BLE001
        return [("C05/file/numpy-parameter-write-fails", f"{which} encoding with {st} parameters encodes in memory but the file cannot be written/read: {type(e).__name__}: {e}")]
    out = []
    # the stated precision of the encoding as it was constructed (not: bit-equality of two decoders fed differently typed parameters)
    rel = {"float16": 2.0 ** -9, "float32": 2.0 ** -22}.get(st, 2.0 ** -50)
    if which == "interval":
        prec = (rt["max"] - rt["min"]) / (rt["n"] - 1) + rel * max(abs(rt["min"]), abs(rt["max"]), 1.0) * 2
    elif which == "fixed":
        prec = 0.5 / rt["factor"] * (1 + 4 * rel) + 1e-9
    else:
        prec = 0
    want = [float(x) for x in arr]
    if len(garr) != len(want) or any(not abs(float(b) - a) <= prec + rel * abs(a) for a, b in zip(want, garr)):
        out.append(("C05/file/numpy-parameter-roundtrip", f"{which} encoding with {st} parameters {rt}: wrote {want[:8]}, "
                    f"the written file decodes to {garr.tolist()[:8]} (in memory: {mem.array.tolist()[:8]}; stated precision {prec:.3g})"))
    elif got.encoding != mem.encoding:
        out.append(("C05/file/numpy-parameter-encoding", f"{which} encoding with {st} parameters: written {mem.encoding} read {got.encoding}"))
    return out


def _rewrite_check(rt):
    import io
    import random

    import numpy as np
    from biotite.structure.io.pdbx import bcif
    from biotite.structure.io.pdbx import encoding as E
    r = random.Random(rt["seed"])
    n = rt["n"]
    ids = np.arange(1, n + 1, dtype=np.int32)
    coord = np.array([r.randint(-800, 800) / 4 for _ in range(n)], dtype=np.float32)
    mask = np.array([r.choice([0, 0, 1]) for _ in range(n)], dtype=np.uint8)
    cat = bcif.BinaryCIFCategory({
        "id": bcif.BinaryCIFColumn(bcif.BinaryCIFData(ids, [E.ByteArrayEncoding()])),
        "x": bcif.BinaryCIFColumn(bcif.BinaryCIFData(coord, [E.FixedPointEncoding(100), E.ByteArrayEncoding()]), mask=mask),
        "plain": bcif.BinaryCIFColumn(np.array([r.randint(0, 50) for _ in range(n)], dtype=np.int16)),
    })
    f = bcif.BinaryCIFFile({"blk": bcif.BinaryCIFBlock({"atoms": cat})})
    through = rt["through"]

    def snapshot():
        if through == "file":
            buf = io.BytesIO()
            f.write(buf)
            buf.seek(0)
            c = bcif.BinaryCIFFile.read(buf)["blk"]["atoms"]
        elif through == "category":
            c = bcif.BinaryCIFCategory.deserialize(cat.serialize())
        elif through == "column":
            c = {k: bcif.BinaryCIFColumn.deserialize(col.serialize()) for k, col in cat.items()}
        else:
            c = {k: bcif.BinaryCIFColumn(bcif.BinaryCIFData.deserialize(col.data.serialize()),
                                         None if col.mask is None else bcif.BinaryCIFData.deserialize(col.mask.serialize())) for k, col in cat.items()}
        return {k: (c[k].data.array.tolist(), None if c[k].mask is None else c[k].mask.array.tolist()) for k in ("id", "x", "plain")}

    first = None
    try:
        clone = f.copy()
    except Exception as e:  # noqa: BLE001
        return [("C05/rewrite/copy-fails", f"BinaryCIFFile.copy(): {type(e).__name__}: {e}")]
    for frame in range(rt["frames"]):
        try:
            got = snapshot()
            first = first or got
        except Exception as e:  # noqa: BLE001
            return [("C05/rewrite/fails", f"frame {frame} through {through}: {type(e).__name__}: {e}")]
        for k, col in cat.items():
            want = (col.data.array.tolist(), None if col.mask is None else col.mask.array.tolist())
            if got[k][0] != want[0] or (want[1] is not None and got[k][1] != want[1]):
                return [("C05/rewrite/stale-content", f"write number {frame + 1} through {through}, column {k!r}: the object holds {want} but the written bytes decode to {got[k]}")]
        # next frame: update in place
        cat["x"].data.array[:] += np.float32(0.25)
        cat["x"].mask.array[:] = np.roll(cat["x"].mask.array, 1)
        cat["id"].data.array[:] += 1
        cat["plain"].data.array[r.randrange(n)] += 1
    # the copy taken before the edits still holds (and writes) the first content
    try:
        buf = io.BytesIO()
        clone.write(buf)
        buf.seek(0)
        c = bcif.BinaryCIFFile.read(buf)["blk"]["atoms"]
        got = {k: (c[k].data.array.tolist(), None if c[k].mask is None else c[k].mask.array.tolist()) for k in ("id", "x", "plain")}
    except Exception as e:  # noqa: BLE001
        return [("C05/rewrite/copy-fails", f"writing a copy() of the file: {type(e).__name__}: {e}")]
    if through == "file" and got != first:
        return [("C05/rewrite/copy-not-independent", f"copy() taken before in-place edits of the original writes {got}, the original then held {first}")]
    return []



def _encser_check(rt):
    import random

    import msgpack
    import numpy as np
    from biotite.structure.io.pdbx import bcif
    from biotite.structure.io.pdbx import encoding as E
    r = random.Random(rt["seed"])
    n = r.randint(1, 12)
    ex = rt["explicit"]
    ints = np.array(sorted(r.randint(0, 60) for _ in range(n)), dtype=r.choice([np.int32, np.int16, np.uint8, np.int64]))
    which = r.choice(["bytes", "fixed", "interval", "rle", "delta", "pack", "string", "delta+rle+pack", "string-nested"])
    tc = E.TypeCode.from_dtype(ints.dtype)
    if which == "bytes":
        arr, encs = ints, [E.ByteArrayEncoding(type=tc if ex else None)]
    elif which == "fixed":
        arr = np.array([r.randint(-500, 500) / 100 for _ in range(n)], dtype=r.choice([np.float32, np.float64]))
        encs = [E.FixedPointEncoding(factor=r.choice([100, 1000, 2.5]), src_type=E.TypeCode.from_dtype(arr.dtype) if ex else None), E.ByteArrayEncoding()]
    elif which == "interval":
        arr = np.array([r.randint(0, 40) / 4 for _ in range(n)], dtype=r.choice([np.float32, np.float64]))
        encs = [E.IntervalQuantizationEncoding(min=0.0, max=10.0, num_steps=41, src_type=E.TypeCode.from_dtype(arr.dtype) if ex else None), E.ByteArrayEncoding()]
    elif which == "rle":
        arr, encs = ints, [E.RunLengthEncoding(src_size=n if ex else None, src_type=tc if ex else None), E.ByteArrayEncoding()]
    elif which == "delta":
        arr, encs = ints, [E.DeltaEncoding(src_type=tc if ex else None, origin=int(ints[0]) if ex else None), E.ByteArrayEncoding()]
    elif which == "pack":
        arr = ints.astype(np.int32)
        encs = [E.IntegerPackingEncoding(byte_count=r.choice([1, 2]), src_size=n if ex else None, is_unsigned=True if ex else None), E.ByteArrayEncoding()]
    elif which == "delta+rle+pack":
        arr = ints.astype(np.int32)
        encs = [E.DeltaEncoding(), E.RunLengthEncoding(), E.IntegerPackingEncoding(byte_count=r.choice([1, 2])), E.ByteArrayEncoding()]
    else:
        arr = np.array([r.choice(["A", "BB", "", "x y", "HOH", "\u00e9"]) for _ in range(n)], dtype="U")
        if which == "string":
            encs = [E.StringArrayEncoding(strings=np.array(sorted(set(arr.tolist())), dtype="U") if ex else None)]
        else:
            encs = [E.StringArrayEncoding(data_encoding=[E.RunLengthEncoding(), E.ByteArrayEncoding()],
                                          offset_encoding=[E.DeltaEncoding(), E.IntegerPackingEncoding(1), E.ByteArrayEncoding()])]
    try:
        data = bcif.BinaryCIFData(arr, encs)
        ser = data.serialize()
    except Exception:
        return []     # this combination is refused: nothing serialised
    out = []
    label = f"{which} ({'explicit' if ex else 'determined'} parameters) on {arr.tolist()[:8]}"
    try:
        for e in data.encoding:
            back = E.deserialize_encoding(e.serialize())
            if back != e or type(back) is not type(e):
                out.append(("C05/serialize/encoding-not-equal", f"{label}: {e!r} serialises to {e.serialize()!r} and reads back as {back!r}"))
        wire = msgpack.unpackb(msgpack.packb(ser, use_bin_type=True, default=bcif._encode_numpy), use_list=True, raw=False)
        got = bcif.BinaryCIFData.deserialize(wire)
        if got.encoding != data.encoding:
            out.append(("C05/serialize/encoding-not-equal-through-msgpack", f"{label}: wrote {data.encoding!r}, read {got.encoding!r}"))
        a, b = got.array.tolist(), arr.tolist()
        exact = arr.dtype.kind in "iuU"
        if len(a) != len(b) or any((x != y) if exact else abs(x - y) > 0.26 for x, y in zip(a, b)):
            out.append(("C05/serialize/data-roundtrip", f"{label}: read back {a[:8]}"))
        if got != data and exact:
            out.append(("C05/serialize/data-not-equal", f"{label}: BinaryCIFData read back compares unequal to the one written"))
    except Exception as e:  # noqa: BLE001
        out.append(("C05/serialize/deserialize-fails", f"{label}: {type(e).__name__}: {e}"))
    return out



def _spell_check(rt):
    import io
    import random

    import numpy as np
    from biotite.structure.io.pdbx import bcif
    r = random.Random(rt["seed"])
    data, fl = list(rt["data"]), rt["flavour"]
    spellings = []
    if fl == "scalar":
        x = data[0]
        spellings = [("bare value", x)] + ([("numpy scalar", np.array([x])[0])] if not isinstance(x, str) else [("np.str_", np.str_(x))])
    else:
        spellings += [("list", list(data)), ("tuple", tuple(data))]
        if fl in ("int", "bigint"):
            for dt in (np.int8, np.int16, np.int32, np.int64, np.uint8, np.uint16, np.uint32, np.uint64):
                info = np.iinfo(dt)
                if all(info.min <= x <= info.max for x in data):
                    spellings.append((np.dtype(dt).name, np.array(data, dtype=dt)))
        elif fl == "float":
            for dt in (np.float16, np.float32, np.float64):
                spellings.append((np.dtype(dt).name, np.array(data, dtype=dt)))
        else:
            spellings += [("U", np.array(data, dtype="U")), ("U20", np.array(data, dtype="U20")), ("list of np.str_", [np.str_(x) for x in data])]
        arrs = [(nm, a) for nm, a in spellings if isinstance(a, np.ndarray)]
        for nm, a in arrs[:]:
            big = np.zeros(2 * len(a), dtype=a.dtype)
            big[::2] = a
            spellings.append((nm + " strided", big[::2]))
            ro = a.copy()
            ro.setflags(write=False)
            spellings.append((nm + " read-only", ro))
            if a.dtype.kind in "iuf" and a.dtype.itemsize > 1:
                spellings.append((nm + " byte-swapped", a.astype(a.dtype.newbyteorder(">"))))
    r.shuffle(spellings)
    out = []
    for nm, sp in spellings[:6]:
        snap = sp.copy() if isinstance(sp, np.ndarray) else None
        try:
            via = rt["via"]
            if via == "data":
                got = bcif.BinaryCIFData.deserialize(bcif.BinaryCIFData(sp).serialize()).array
            elif via == "column":
                got = bcif.BinaryCIFColumn.deserialize(bcif.BinaryCIFColumn(sp).serialize()).as_array()
            else:
                if via == "category" or via == "file":
                    cat = bcif.BinaryCIFCategory({"c": sp})
                else:
                    cat = bcif.BinaryCIFCategory()
                    cat["c"] = sp
                if via == "file":
                    f = bcif.BinaryCIFFile({"b": bcif.BinaryCIFBlock({"cat": cat})})
                    buf = io.BytesIO()
                    f.write(buf)
                    buf.seek(0)
                    got = bcif.BinaryCIFFile.read(buf)["b"]["cat"]["c"].as_array()
                else:
                    got = bcif.BinaryCIFCategory.deserialize(cat.serialize())["c"].as_array()
        except Exception:
            continue        # this spelling is refused
        if snap is not None and (snap.tobytes() != sp.tobytes() or snap.dtype != sp.dtype):
            out.append(("C05/spelling/argument-modified", f"{nm} {data} via {rt['via']}: the caller's array was changed"))
        got = got.tolist()
        # what the caller handed in (an ndarray spelling may already have rounded the literal, e.g. float16)
        want = snap.tolist() if snap is not None else ([str(x) for x in data] if fl == "str" or isinstance(data[0], str) else data)
        if len(got) != len(want) or any(a != b for a, b in zip(got, want)):
            out.append(("C05/spelling/roundtrip", f"{data} given as {nm} via {rt['via']} reads back as {got[:10]}"))
            break
    return out



def _widepack_check(rt):
    import numpy as np
    from biotite.structure.io.pdbx import bcif
    from biotite.structure.io.pdbx import encoding as E
    data = list(rt["data"])
    arr = np.array(data, dtype={"u32": np.uint32, "i64": np.int64, "u64": np.uint64}[rt["dtype"]])
    pack = E.IntegerPackingEncoding(byte_count=rt["bc"], is_unsigned={"u": True, "s": False, "a": None}[rt["u"]])
    encs = {"pack": [pack], "rle+pack": [E.RunLengthEncoding(), pack], "delta+pack": [E.DeltaEncoding(), pack]}[rt["chain"]] + [E.ByteArrayEncoding()]
    import warnings
    warnings.simplefilter("ignore", RuntimeWarning)
    try:
        back = bcif.BinaryCIFData.deserialize(bcif.BinaryCIFData(arr, encs).serialize()).array
    except Exception:
        return []                 # rejected
    got = [int(x) for x in back]
    if got != data:
        if "delta" in rt["chain"] and rt["dtype"] in ("i64", "u64"):
            shifted = [x - data[0] for x in data]
            bigdiff = any(abs(b - a) > 2 ** 31 - 1 for a, b in zip([0] + shifted, shifted))
            if rt["dtype"] == "i64" and any(not -2 ** 31 <= x < 2 ** 31 for x in data):
                # DeltaEncoding stores int64 data as INT32 without a range check: the Delta stage alone already alters these
                return [("C05/DeltaEncoding/int64-values-exceed-int32", f"int64 {data} through {rt['chain']}: decodes to {got[:8]}")]
            if rt["dtype"] == "i64" and bigdiff:
                return [("C05/DeltaEncoding/int64-differences-exceed-int32", f"int64 {data} through {rt['chain']}: decodes to {got[:8]}")]
            if rt["dtype"] == "u64" and (bigdiff or any(x < 0 for x in shifted) or any(x > 2 ** 32 - 1 for x in data)):
                return [("C05/DeltaEncoding/uint64-array-promoted-to-float64", f"uint64 {data} through {rt['chain']}: decodes to {got[:8]}")]
        # two call-site classes of the unchanged code are known (astype(int32) without a range check, C05_packing_wide_defect);
        # anything else — e.g. a value in [2^31, 2^32) accepted with the sign left to be detected — is new
        if any(x >= 2 ** 32 or x < -2 ** 31 for x in data):
            key = "C05/IntegerPackingEncoding/value-beyond-32-bits-wrapped"
        elif rt["u"] == "s":
            key = "C05/IntegerPackingEncoding/explicit-signed-wraps-values-above-int32"
        else:
            key = "C05/IntegerPacking/wide-value-altered"
        return [(key, f"{rt['dtype']} {data} through {rt['chain']} (byte_count={rt['bc']}, is_unsigned={rt['u']}) is accepted and decodes to {got[:8]}")]
    return []


def _pathwrite_check(rt):
    import random
    import shutil
    import tempfile

    import numpy as np
    from biotite.structure.io.pdbx import bcif
    from common import paths
    r = random.Random(rt["seed"])
    n = rt["n"]
    os.makedirs(paths.BUILD, exist_ok=True)
    d = tempfile.mkdtemp(prefix="c05-pathwrite-", dir=paths.BUILD)
    try:
        path = os.path.join(d, "f.bcif")
        ids = np.array([r.randint(0, 99) for _ in range(n)], dtype=np.int64)
        cat = bcif.BinaryCIFCategory({"id": ids, "name": np.array([r.choice(["A", "BB", ""]) for _ in range(n)], dtype="U")})
        f = bcif.BinaryCIFFile({"blk": bcif.BinaryCIFBlock({"cat": cat})})
        f.write(path)
        first = open(path, "rb").read()
        # spoil the content so that serialisation must refuse it
        if rt["spoil"] == "too-big":
            cat["id"] = np.array([2 ** 40] * n, dtype=np.int64)
        elif rt["spoil"] == "ragged":
            cat["extra"] = np.arange(n + 1, dtype=np.int32)
        elif rt["spoil"] == "bad-encoding":
            from biotite.structure.io.pdbx import encoding as E
            cat["id"] = bcif.BinaryCIFColumn(bcif.BinaryCIFData(ids, [E.RunLengthEncoding()]))     # does not end in bytes
        else:
            f["blk"]["cat2"] = bcif.BinaryCIFCategory({"x": bcif.BinaryCIFColumn(bcif.BinaryCIFData(np.array([1.5, 2.5]), [object()]))})
        try:
            f.write(path)
        except Exception:
            pass
        else:
            return []             # this content was accepted after all: nothing to say here (the file stream judges accepted writes)
        now = open(path, "rb").read() if os.path.exists(path) else None
        if now != first:
            try:
                g = bcif.BinaryCIFFile.read(path)
                same = g["blk"]["cat"]["id"].as_array().tolist() == ids.tolist()
            except Exception:
                same = False
            if not same:
                return [("C05/write/refused-write-destroys-file", f"a file of {len(first)} bytes was written to a path; a second write ({rt['spoil']}) was refused, "
                         f"and the path now holds {None if now is None else len(now)} bytes that no longer read back")]
        return []
    finally:
        shutil.rmtree(d, ignore_errors=True)


def _session_run(rt):
    """Runs in a forked child: a history of compress() calls in one process."""
    import math

    import numpy as np
    from biotite.structure.io.pdbx import bcif
    from biotite.structure.io.pdbx import compress as _compress_fn
    tol = rt["tol"]
    out = []
    done = []
    for i, col in enumerate(rt["cols"]):
        dt = np.float32 if col["ft"] == "f4" else np.float64
        with np.errstate(over="ignore"):
            arr = np.array([float(x) for x in col["data"]], dtype=dt)
        try:
            c = _compress_fn(bcif.BinaryCIFData(arr.copy()), float_tolerance=tol)
            done.append(c)
            # serialise everything compressed so far again: an encoding object shared between results shows here
            backs = [bcif.BinaryCIFData.deserialize(x.serialize()).array for x in done]
        except Exception as e:  # noqa: BLE001
            out.append(["C05/compress/session-fails", f"column {i} ({col}) after {i} earlier compress() calls: {type(e).__name__}: {e}"])
            break
        eps = 2.0 ** -23 if col["ft"] == "f4" else 2.0 ** -52
        bad = None
        for j, (cj, back) in enumerate(zip(rt["cols"], backs)):
            dtj = np.float32 if cj["ft"] == "f4" else np.float64
            with np.errstate(over="ignore"):
                want = np.array([float(x) for x in cj["data"]], dtype=dtj)
            epsj = 2.0 ** -23 if cj["ft"] == "f4" else 2.0 ** -52
            for a, b in zip(want.tolist(), back.tolist()):
                same = (a == b) or (math.isnan(a) and math.isnan(b))
                if not same and not (math.isfinite(a) and math.isfinite(b) and abs(b - a) <= (tol + 4 * epsj) * abs(a)):
                    bad = (j, a, b)
                    break
                if not same and back.dtype != want.dtype and back.dtype.itemsize < want.dtype.itemsize and abs(b - a) > tol * abs(a):
                    bad = (j, a, b)
                    break
            if bad:
                break
        if bad:
            out.append(["C05/compress/session-state-leak", f"after compress() of columns {[c['ft'] for c in rt['cols'][:i + 1]]} in one process, column {bad[0]} "
                        f"({rt['cols'][bad[0]]['ft']}) value {bad[1]!r} reads back as {bad[2]!r} (tolerance {tol}); cols={rt['cols'][:i + 1]}"])
            break
    return out



def _misuse_check(rt):
    import math
    import warnings

    import numpy as np
    from biotite.structure.io.pdbx import bcif
    from biotite.structure.io.pdbx import encoding as E
    warnings.simplefilter("ignore", RuntimeWarning)
    dt = np.float32 if rt["ft"] == "f4" else np.float64
    with np.errstate(all="ignore"):
        arr = np.array([float(x) for x in rt["data"]], dtype=dt)
    which = rt["which"]
    if which == "interval":
        encs, prec = [E.IntervalQuantizationEncoding(10.0, 20.0, 21), E.ByteArrayEncoding()], 0.5
    else:
        encs = {"delta": [E.DeltaEncoding()], "pack": [E.IntegerPackingEncoding(2)], "rle": [E.RunLengthEncoding()],
                "delta+pack": [E.DeltaEncoding(), E.IntegerPackingEncoding(2)]}[which] + [E.ByteArrayEncoding()]
        prec = 0.0
    try:
        with np.errstate(all="ignore"):
            back = bcif.BinaryCIFData.deserialize(bcif.BinaryCIFData(arr.copy(), encs).serialize()).array
    except Exception:
        return []            # refused: what the property asks for
    for a, b in zip(arr.tolist(), [float(x) for x in back]):
        same = (a == b) or (math.isnan(a) and math.isnan(b))
        if same or (math.isfinite(a) and math.isfinite(b) and 0 <= b - a < prec + 1e-6):
            continue
        if which == "interval":
            key = "C05/IntervalQuantizationEncoding/value-outside-interval-altered"
        elif which.startswith("delta"):
            key = "C05/DeltaEncoding/float-array-truncated"
        elif which == "pack":
            key = "C05/IntegerPackingEncoding/float-array-truncated"
        else:
            key = f"C05/misuse/{which}"
        return [(key, f"{rt['ft']} {rt['data']} through {which} is accepted and decodes to {[float(x) for x in back][:8]}")]
    return []



def _recompress_check(rt):
    import math

    import numpy as np
    from biotite.structure.io.pdbx import bcif
    from biotite.structure.io.pdbx import compress as _compress_fn
    from biotite.structure.io.pdbx import encoding as E
    dt = np.float32 if rt["ft"] == "f4" else np.float64
    arr = np.array([float(x) for x in rt["data"]], dtype=dt)
    pre = {"fixed10": [E.FixedPointEncoding(10), E.ByteArrayEncoding()], "fixed100": [E.FixedPointEncoding(100), E.ByteArrayEncoding()],
           "interval": [E.IntervalQuantizationEncoding(-100.0, 100.0, 201), E.ByteArrayEncoding()], "bytes": [E.ByteArrayEncoding()], "none": None}[rt["pre"]]
    try:
        d = bcif.BinaryCIFData(arr.copy(), pre)
        c = _compress_fn(d, float_tolerance=rt["tol"])
        back = bcif.BinaryCIFData.deserialize(c.serialize()).array
    except Exception as e:  # noqa: BLE001
        return [("C05/compress/recompress-fails", f"compress() of {rt}: {type(e).__name__}: {e}")]
    eps = 2.0 ** -23 if rt["ft"] == "f4" else 2.0 ** -52
    for a, b in zip(arr.tolist(), back.tolist()):
        if not (a == b or (math.isfinite(b) and abs(b - a) <= (rt["tol"] + 4 * eps) * abs(a))):
            return [("C05/compress/recompress-keeps-lossy-encoding", f"compress(tol={rt['tol']}) of a {len(arr)}-row column that came with {rt['pre']}: {a!r} -> {b!r} "
                     f"via {[type(e).__name__ for e in c.encoding]}")]
    return []



def _file_roundtrip(rt):
    """BinaryCIFFile with int/float/string columns and masks: write -> read (plain and compressed) equal."""
    import io
    import random

    import numpy as np
    from biotite.structure.io.pdbx import bcif
    from biotite.structure.io.pdbx import compress as _compress_fn
    r = random.Random(rt["seed"])
    n = rt["n"]
    cat = bcif.BinaryCIFCategory()
    cols = {}
    names = ["cat", "atom_site", "_private", "__dunder", "_", "tail_", "a__b", "x.y"]
    cat_name = r.choice(names)
    blk_name = r.choice(["blk", "1ABC", "_b", "data_x"])
    cpre = r.choice(["", "_", "c_"])
    for name in ("i", "f", "s", "m"):
        if name == "i":
            arr = np.array([r.randint(-5000, 5000) for _ in range(n)], dtype=r.choice([np.int32, np.int64, np.uint8 if False else np.int16]))
        elif name == "f":
            arr = np.array([round(r.uniform(-99, 99), 3) for _ in range(n)], dtype=np.float32)
        else:
            arr = np.array([r.choice(["A", "BB", "", "x y", "HOH"]) for _ in range(n)], dtype="U")
        mask = None
        if name == "m":
            mask = np.array([r.choice([0, 0, 1, 2]) for _ in range(n)], dtype=np.uint8)
        cols[cpre + name] = (arr, mask)
        cat[cpre + name] = bcif.BinaryCIFColumn(arr, mask)
    f = bcif.BinaryCIFFile()
    blk = bcif.BinaryCIFBlock()
    blk[cat_name] = cat
    f[blk_name] = blk
    out = []
    for label, ff in (("plain", f), ("compressed", _compress_fn(f))):
        buf = io.BytesIO()
        ff.write(buf)
        buf.seek(0)
        g = bcif.BinaryCIFFile.read(buf)
        if list(g.keys()) != [blk_name] or list(g[blk_name].keys()) != [cat_name] or list(g[blk_name][cat_name].keys()) != list(cols):
            out.append((f"C05/file/{label}-names", f"block {blk_name!r} category {cat_name!r} columns {list(cols)} read back as "
                        f"{list(g.keys())} / {[list(b.keys()) for b in g.values()]}"))
            continue
        for name, (arr, mask) in cols.items():
            col = g[blk_name][cat_name][name]
            got = col.data.array
            ok = len(got) == len(arr) and all((str(a) == str(b)) if arr.dtype.kind == "U" else (abs(float(a) - float(b)) <= 2e-6 * abs(float(a)) + 1e-12) for a, b in zip(arr, got))
            mk = None if col.mask is None else [int(x) for x in col.mask.array]
            if not ok or (mask is not None and mk != [int(x) for x in mask]) or (mask is None and mk is not None and any(mk)):
                out.append((f"C05/file/{label}-roundtrip", f"column {name}: {arr.tolist()} mask {mask} -> {got.tolist()} mask {mk}"))
    return out


def nontrivial(case, impl_out):
    if case["kind"].split("/")[0] in ("file", "column", "interval32", "decimals", "reuse", "u64", "strtable", "level", "params", "rewrite", "names", "encser", "cont", "spell", "delta_origin", "widepack", "pathwrite", "session", "misuse", "recompress"):
        return True
    data = (case.get("rt") or {}).get("data")
    if data is not None and len(set(data)) >= 2:
        return True
    return bool(impl_out) and any(o.startswith("ERR") for o in impl_out)


def signature(case):
    return "|".join(case.get("ops") or []) + repr(case.get("rt"))


def distribution(cases, impl_outs):
    errs = {}
    sizes = {}
    for c, o in zip(cases, impl_outs):
        for line in o or []:
            k = line.split(" ")[0]
            errs[k] = errs.get(k, 0) + 1
        d = (c.get("rt") or {}).get("data")
        if d is not None:
            b = "0" if len(d) == 0 else "1" if len(d) == 1 else "2-5" if len(d) <= 5 else "6+"
            sizes[b] = sizes.get(b, 0) + 1
    return {"outcomes": errs, "array_sizes": sizes}


def search(rng, problems, tier):
    """Failing-input search: the generator again with a different stream and more cases."""
    yield from cases(rng, "thorough" if tier == "thorough" else "quick")

"""C19 — Trees contain every taxon once and keep distances through Newick.

Line protocol (one op per line, identical canonical text on both sides):
  rational      `p` | `p/q`                       (lowest terms, q > 0)
  tree          prefix tokens joined by `,`:  `L<i>` leaf | `N<k>,<d1>,<tree1>,…,<dk>,<treek>`
  string        `.`-joined decimal code points, `_` = empty
  labels        `-` = None | `!` = [] | strings joined by `;`
  path          `.`-joined child positions from the root, `_` = root
ops
  upgma <n> <n*n rationals>   -> ok <tree, children sorted by smallest leaf> | ERR:<Exc>
  nj    <n> <n*n rationals>   -> same
  write <inc 0|1> <labels> <tree>   -> ok <string>      Tree.to_newick(labels, include_distance)
  read  <labels> <string>           -> ok <tree>        Tree.from_newick(string, labels)
  nread <labels> <string>           -> ok <tree> <dist> TreeNode.from_newick(string, labels)
  dist  <topo> <i> <j> <tree>       -> ok <rational>    Tree.get_distance
  ndist <topo> <p> <q> <tree>       -> ok <rational>    TreeNode.distance_to
  lca   <p> <q> <tree>              -> ok <path>        TreeNode.lowest_common_ancestor
  binary <tree> -> ok <tree>   as_binary(Tree);   binnode <tree> -> as_binary(TreeNode)
  copy  <tree>  -> ok <tree>
A case is {"kind", "ops", + what the oracle needs: "matrix", "tree", "labels", …}.
Trees in cases are nested JSON: leaf = int, node = [[dist, subtree], …]; dist is a rational
string in the exact stream and a float in the float stream (which has no ops).
"""
import math
import os
import re
from fractions import Fraction

PROP = "C19"
PROPS_MODULE = "BiotiteModel.Props.C19"
DRIVER_MODULE = "BiotiteModel.Driver.C19"
EXT_MODULES = ["biotite.sequence.phylo.tree", "biotite.sequence.phylo.upgma", "biotite.sequence.phylo.nj"]
GEN_FILES = ["BiotiteModel/Gen/C19.lean"]
RULE = ("seeded symmetric distance matrices (n=2..12, small integers so ties are frequent; exact stream scaled so "
        "that every float32 mean/half is exact; additive matrices from random trees for NJ; float stream with "
        "tolerance; three large comb matrices n=258..400 that push one cluster past 256 members, oracle only; input "
        "array must stay bit-identical and a second call must agree; zero-distance stream: all-zero matrices n=4..8, star "
        "trees / random trees with mostly zero branches (identical taxa), block matrices with Q-minimum 0 or positive; malformed: asymmetric, negative, NaN/inf, too "
        "small) through upgma/neighbor_joining, and seeded "
        "rooted trees of any arity (incl. one-child nodes) with dyadic branch lengths and random unicode labels "
        "through to_newick/from_newick (with injected whitespace, with/without distances, plus mutated strings), "
        "get_distance/distance_to/lowest_common_ancestor, as_binary and copy; op by op against the Lean model; "
        "accessor stream (oracle only): everything a Tree/TreeNode hands out is scribbled over and the tree re-checked "
        "against a snapshot; every valid matrix in ~15 memory layouts/dtypes must give the same tree; api stream (reuse "
        "of one object, Tree vs TreeNode level of every optional parameter incl. round_distance, NumPy scalar/negative "
        "indices, label containers, eq/hash under child permutation, as_graph, node properties); refused stream (a "
        "raising call changes neither tree nor arguments); huge finite entries, wrong shapes and a 300000-deep tree in a "
        "forked child. "
        "non-trivial = >= 3 leaves or an error branch; distinct = different op lines / oracle payload")
TRUSTED = ["float32 arithmetic of upgma/nj modelled as exact rational arithmetic (the exact stream is built so that "
           "no rounding occurs; the float stream is judged by the oracle with a tolerance)",
           "Python float repr/float() round trip of float32 values (exercised by the oracle, modelled as an abstract codec)",
           "np.allclose modelled by its documented formula"]
ASSUMPTIONS = ["additivity of a distance matrix is the four-point condition; that the path metric of every tree with "
               "non-negative branch lengths satisfies it is proved (C19_tree_metric_four_point), the converse direction of "
               "Buneman's theorem (every four-point matrix comes from a tree) is not needed and not proved"]
LEVEL_TEXT = ("Lean theorems for all inputs on the executable model (46, no sorry; 9 of them obligations on ~40 facts regenerated from the three .pyx files on every run: guards and their order, constants, operators, loop domains, formulas, dtypes, defaults); every clause of the property is a "
              "theorem: UPGMA and NJ leaves = every index exactly once (loop invariant + termination, NJ incl. the "
              "three-way join); NJ totality (every accepted matrix, zero distances and ties included, yields a tree); "
              "UPGMA merge height = half the average linkage of the merged clusters, every leaf under a node at distance "
              "height(node), no negative branch; NJ reproduces every leaf-to-leaf path length of every additive matrix "
              "(C19_nj_additive: n >= 4, symmetric, zero diagonal, four-point condition; C19_nj_tree_metric: the path-length "
              "matrix of ANY tree with non-negative branch lengths; zero-length edges, identical taxa and all ties included) via the cherry lemma proved for any number of taxa (C19_cherry_lemma / C19_nj_cherry: "
              "every Q-minimal pair is a cherry, by an averaging argument over the smaller end-side), exact branch lengths "
              "of a joined cherry, reduction keeps symmetry/zero diagonal/four-point and the tree-matrix invariant, exact "
              "final three-way join; distance_to/get_distance = explicit downward path sums through the LCA, LCA = longest "
              "common prefix; T.rows is the matrix of distance_to queries; as_binary(Tree) is binary, keeps the leaf order "
              "and every leaf-to-leaf distance_to answer; copy; Newick round trip for any arity, labels None or LabelsOk, "
              "with/without distances, under arbitrary injected whitespace; refusals proved to happen exactly where the "
              "hypotheses end (upgma/nj/Tree()/to_newick rejects theorems, reader never abstains); five defect witnesses. "
              "The model is tied to "
              "the Cython code by the correspondence stream; float32 rounding, Python float formatting and numpy helpers "
              "are modelled, not verified.")
LEVEL_NOTE = "float32 rounding, Python float formatting/parsing and numpy validation helpers are modelled, not verified"
TECHNIQUE = "Lean 4 proof (loop invariants over the merge loop, structural induction over rose trees) + correspondence"

WS_CHARS = [" ", "\t", "\n", "\r", "\x0b", "\x0c", "\x1c", "\x1f", "\x85", "\xa0", "\u2003", "\u2028", "\u3000"]
ILLEGAL = [",", ":", ";", "(", ")"]


# ---------------------------------------------------------------- translator (Gen)
# The three anchored .pyx files are read with `tokenize`; every modelled function is brought into a NORMAL FORM that
# does not change under harmless maintenance:
#   * comments, docstrings, layout, bare `cdef T x` declarations: dropped;
#   * local variables (cdef-declared, assigned, loop targets; parameters of private functions): renamed v0, v1, … in
#     order of first occurrence; private helpers are found through their public callers and named by role;
#   * the argument of `raise X(…)` (message text): dropped -- the exception class stays;
#   * `a > b` / `a >= b` are written `b < a` / `b <= a`, the operands of a top-level `or` are sorted;
#   * `if C: S… else: break|continue` is written as the guard clause `if not C: break|continue` followed by `S…`.
# Everything else -- operators, constants, order of statements and checks, dtypes, public names, attribute names,
# defaults, exception classes -- stays significant and is compared with Proofs/C19Pinned.lean.
_KEYWORDS = {"if", "elif", "else", "for", "in", "while", "not", "and", "or", "is", "None", "True", "False", "return",
             "raise", "break", "continue", "cdef", "def", "pass", "lambda", "self", "import", "from", "as", "with",
             "try", "except", "finally", "del", "global", "yield", "assert", "class"}


def _logical_lines(src):
    """[(indent, [token strings])] for every logical line; comments and blank lines dropped."""
    import io
    import tokenize
    out, cur, indent = [], [], None
    for tok in tokenize.generate_tokens(io.StringIO(src).readline):
        if tok.type in (tokenize.COMMENT, tokenize.NL, tokenize.INDENT, tokenize.DEDENT, tokenize.ENCODING):
            continue
        if tok.type == tokenize.NEWLINE:
            if cur:
                out.append((indent, cur))
            cur, indent = [], None
            continue
        if tok.type == tokenize.ENDMARKER:
            break
        if indent is None:
            indent = tok.start[1]
        cur.append(tok.string)
    return out


def _render(toks):
    out, prev = [], None
    for t in toks:
        if prev and (prev[-1].isalnum() or prev[-1] == "_") and t[:1] and (t[0].isalnum() or t[0] == "_"):
            out.append(" ")
        out.append(t)
        prev = t
    return "".join(out)


def _is_name(t):
    return bool(re.fullmatch(r"[A-Za-z_]\w*", t)) and t not in _KEYWORDS


def _find_def(lines, name, nth=0):
    """Index of the nth `def name(` / `cdef … name(` logical line."""
    hits = [k for k, (_, toks) in enumerate(lines)
            if toks[0] in ("def", "cdef") and name in toks and toks[toks.index(name) + 1:toks.index(name) + 2] == ["("]
            and toks[-1] == ":"]
    if len(hits) <= nth:
        raise ValueError(f"function {name!r} (occurrence {nth}) not found in the source")
    return hits[nth]


def _body(lines, k):
    ind = lines[k][0]
    body = []
    for ind2, toks in lines[k + 1:]:
        if ind2 <= ind:
            break
        body.append((ind2, toks))
    return body


def _locals(header, body, private):
    """Local names of a function in order of first occurrence."""
    found = []

    def add(n):
        if _is_name(n) and n not in found:
            found.append(n)
    if private:                                   # parameters of a private function are locals
        a, b = header.index("("), len(header) - 1 - header[::-1].index(")")
        seg, depth = [], 0
        for t in header[a + 1:b] + [","]:
            if t in "([{":
                depth += 1
            elif t in ")]}":
                depth -= 1
            if t == "," and depth == 0:
                if "=" in seg:
                    seg = seg[:seg.index("=")]
                if seg[-2:] == ["not", "None"]:
                    seg = seg[:-2]
                names = [x for x in seg if _is_name(x)]
                if names:
                    add(names[-1])
                seg = []
            else:
                seg.append(t)
    for _, toks in body:
        depth = 0
        if toks[0] == "cdef":
            for i, t in enumerate(toks):
                if t in "([{":
                    depth += 1
                elif t in ")]}":
                    depth -= 1
                elif depth == 0 and i > 1 and _is_name(t) and (i + 1 == len(toks) or toks[i + 1] in ("=", ",")) \
                        and toks[i - 1] != "=" and "=" not in toks[:i] or (depth == 0 and i > 1 and _is_name(t)
                                                                           and i + 1 < len(toks) and toks[i + 1] == "="
                                                                           and toks[i - 1] == ","):
                    add(t)
                elif depth == 0 and i > 1 and _is_name(t) and toks[i - 1] == "," and (i + 1 == len(toks) or toks[i + 1] in ("=", ",")):
                    add(t)
        else:
            eq = next((i for i, t in enumerate(toks) if t in ("=", "+=", "-=", "*=", "/=") and
                       sum(1 for u in toks[:i] if u in "([{") == sum(1 for u in toks[:i] if u in ")]}")), None)
            if eq is not None:
                for i, t in enumerate(toks[:eq]):
                    d = sum(1 for u in toks[:i] if u in "([{") - sum(1 for u in toks[:i] if u in ")]}")
                    if d == 0 and _is_name(t) and (i == 0 or toks[i - 1] != ".") and toks[i + 1] not in ("[", "(", "."):
                        add(t)
        for i, t in enumerate(toks):             # loop / comprehension targets
            if t == "for":
                j = i + 1
                while j < len(toks) and toks[j] != "in":
                    if _is_name(toks[j]):
                        add(toks[j])
                    j += 1
    return found


def _alpha(toks, mapping, is_header=False):
    out = []
    depth = 0
    for i, t in enumerate(toks):
        if t in "([{":
            depth += 1
        elif t in ")]}":
            depth -= 1
        if t in mapping and (i == 0 or toks[i - 1] != "."):
            kwarg = (not is_header) and depth > 0 and i + 1 < len(toks) and toks[i + 1] == "=" and toks[i - 1] in ("(", ",")
            out.append(t if kwarg else mapping[t])
        else:
            out.append(t)
    return out


_FLIP = {">": "<", ">=": "<="}


_NEG = {"==": "!=", "!=": "==", "<": ">=", ">=": "<", ">": "<=", "<=": ">"}


def _split_top(toks, word):
    parts, cur, depth = [], [], 0
    for t in toks:
        if t in "([{":
            depth += 1
        elif t in ")]}":
            depth -= 1
        if t == word and depth == 0:
            parts.append(cur)
            cur = []
        else:
            cur.append(t)
    parts.append(cur)
    return parts


def _simple_cmp(p):
    """Index of the single top-level comparison operator of `p`, if `p` is one plain comparison."""
    d, ops = 0, []
    for i, t in enumerate(p):
        if t in "([{":
            d += 1
        elif t in ")]}":
            d -= 1
        elif d == 0 and t in ("<", "<=", ">", ">=", "==", "!=", "and", "or", "not", "is", "in"):
            ops.append((i, t))
    return ops[0][0] if len(ops) == 1 and ops[0][1] in _NEG else None


def _de_morgan(cond):
    """`not (A and B …)` with plain comparisons  ->  `¬A or ¬B …`."""
    if len(cond) > 3 and cond[0] == "not" and cond[1] == "(" and cond[-1] == ")":
        inner = cond[2:-1]
        depth = 0
        for t in inner:                       # the parentheses must enclose the whole operand
            if t in "([{":
                depth += 1
            elif t in ")]}":
                depth -= 1
                if depth < 0:
                    return cond
        parts = _split_top(inner, "and")
        idx = [_simple_cmp(p) for p in parts]
        if len(parts) > 1 and all(i is not None for i in idx):
            out = []
            for k, (p, i) in enumerate(zip(parts, idx)):
                if k:
                    out.append("or")
                out += p[:i] + [_NEG[p[i]]] + p[i + 1:]
            return out
    return cond


def _canon_condition(toks):
    """`if|elif|while <cond> :` with De Morgan applied, flipped `>`/`>=`, sorted top-level `or` operands and sorted
    call-free `and` operands."""
    if toks[0] not in ("if", "elif", "while") or toks[-1] != ":":
        return toks
    cond = _de_morgan(toks[1:-1])
    ands = _split_top(cond, "and")
    if len(ands) > 1 and "or" not in cond and not any("(" in p for p in ands):
        ands.sort(key=_render)
        cond = [t for k, p in enumerate(ands) for t in ((["and"] if k else []) + p)]
    parts, cur, depth = [], [], 0
    for t in cond:
        if t in "([{":
            depth += 1
        elif t in ")]}":
            depth -= 1
        if t == "or" and depth == 0:
            parts.append(cur)
            cur = []
        else:
            cur.append(t)
    parts.append(cur)
    canon = []
    for p in parts:
        d, ops = 0, []
        for i, t in enumerate(p):
            if t in "([{":
                d += 1
            elif t in ")]}":
                d -= 1
            elif d == 0 and t in ("<", "<=", ">", ">=", "==", "!=", "and", "not", "is", "in"):
                ops.append((i, t))
        if len(ops) == 1 and ops[0][1] in _FLIP:
            i = ops[0][0]
            p = p[i + 1:] + [_FLIP[p[i]]] + p[:i]
        canon.append(p)
    if len(canon) > 1:
        canon.sort(key=_render)
    out = [toks[0]]
    for k, p in enumerate(canon):
        if k:
            out.append("or")
        out += p
    return out + [":"]


def _canon_statement(toks):
    """`a = b/2` -> `a = 0.5*b` (the same float32 value);  `A = A + B` -> `A += B`."""
    if "=" in toks and toks[0] not in ("cdef", "if", "elif", "while", "for", "return", "raise"):
        e = toks.index("=")
        lhs, rhs = toks[:e], toks[e + 1:]
        if len(rhs) == 3 and rhs[1] == "/" and rhs[2] == "2" and _is_name(rhs[0]):
            return lhs + ["=", "0.5", "*", rhs[0]]
        if len(rhs) == 3 and rhs[1] == "*" and rhs[2] == "0.5" and _is_name(rhs[0]):
            return lhs + ["=", "0.5", "*", rhs[0]]
        if rhs[:len(lhs)] == lhs and rhs[len(lhs):len(lhs) + 1] == ["+"] and "(" not in rhs[len(lhs) + 1:]:
            return lhs + ["+="] + rhs[len(lhs) + 1:]
    return toks


def _negate(cond):
    if cond.count("is") == 1 and "not" not in cond and "or" not in cond and "and" not in cond:
        i = cond.index("is")
        return cond[:i + 1] + ["not"] + cond[i + 1:]
    if cond.count("is") == 1 and cond[cond.index("is") + 1:cond.index("is") + 2] == ["not"] and "or" not in cond and "and" not in cond:
        i = cond.index("is")
        return cond[:i + 1] + cond[i + 2:]
    return ["not", "("] + cond + [")"]


def _guard_form(body):
    """`if C: S… else: break|continue`  ->  `if not C: break|continue` ; `S…` (dedented)."""
    changed = True
    while changed:
        changed = False
        for k, (ind, toks) in enumerate(body):
            if toks[0] != "if" or toks[-1] != ":":
                continue
            j = k + 1
            while j < len(body) and body[j][0] > ind:
                j += 1
            if j < len(body) and body[j][0] == ind and body[j][1] == ["else", ":"] and j + 1 < len(body) \
                    and body[j + 1][1] in (["break"], ["continue"]) and (j + 2 == len(body) or body[j + 2][0] <= ind):
                then = [(ind, t) for _, t in body[k + 1:j]] if all(b[0] == body[k + 1][0] for b in body[k + 1:j]) else None
                if then is None:
                    continue
                body = body[:k] + [(ind, ["if"] + _negate(toks[1:-1]) + [":"]), (body[k + 1][0], body[j + 1][1])] \
                    + then + body[j + 2:]
                changed = True
                break
    return body


def _normal_form(lines, name, nth=0, private=False, roles=None, canon=True):
    """(header text, [statement texts]) of a function in normal form."""
    k = _find_def(lines, name, nth)
    header = list(lines[k][1])
    body = [(i, list(t)) for i, t in _body(lines, k)]
    body = [(i, t) for i, t in body if not (len(t) == 1 and t[0][:1] in "\"'rRbBfF" and t[0].rstrip()[-1:] in "\"'")]
    if roles:
        header = [roles.get(t, t) for t in header]
        body = [(i, [roles.get(t, t) for t in toks]) for i, toks in body]
    loc = _locals(header, body, private)
    mapping = {n: f"v{q}" for q, n in enumerate(loc)}
    header = _alpha(header, mapping, is_header=True)
    body = [(i, _alpha(t, mapping)) for i, t in body]
    # bare declarations carry no logic; message arguments are not significant
    out = []
    for i, t in body:
        if t[0] == "cdef" and "=" not in t:
            continue
        if t[0] == "raise" and len(t) > 2 and t[2] == "(":
            t = t[:2]
        out.append((i, t))
    if canon:
        out = _guard_form(out)
        out = [(i, _canon_statement(_canon_condition(t))) for i, t in out]
    if not out:
        raise ValueError(f"function {name!r} has no body")
    return _render(header), [_render(t) for _, t in out]


def _between(body, first_re, last_re, what, start=0, last_offset=0):
    a = next((k for k in range(start, len(body)) if re.fullmatch(first_re, body[k])), None)
    if a is None:
        raise ValueError(f"{what}: no statement of the form {first_re!r}")
    b = next((k for k in range(a, len(body)) if re.fullmatch(last_re, body[k])), None)
    if b is None:
        raise ValueError(f"{what}: no statement of the form {last_re!r} after {first_re!r}")
    return body[a:b + 1 + last_offset], b + 1 + last_offset


def _guards(body, what):
    """(kind, exception class) of the leading `if …: raise X` input checks, in source order."""
    out, k = [], 0
    while k + 1 < len(body) and body[k].startswith("if") and body[k + 1].startswith("raise "):
        cond, exc = body[k], body[k + 1][6:]
        if "allclose" in cond and ".shape[0]!=" in cond and ".shape[1]" in cond:
            kind = "symmetric"
        elif "isnan" in cond:
            kind = "nan"
        elif re.search(r"MAX_FLOAT<=distances\)", cond) or re.search(r"distances>=MAX_FLOAT\)", cond):
            kind = "infinite"
        elif (m := re.fullmatch(r"if distances\.shape\[0\](<=?)(\d+):", cond)):
            kind = f"rows{m.group(1)}{m.group(2)}"
        elif (m := re.fullmatch(r"if (\d+)(<=?)distances\.shape\[0\]:", cond)):
            kind = f"rows{'>' if m.group(2) == '<' else '>='}{m.group(1)}"
        elif re.fullmatch(r"if\(distances<0\)\.any\(\):", cond):
            kind = "negative"
        else:
            kind = "?" + cond
        out.append((kind, exc))
        k += 2
    if not out:
        raise ValueError(f"{what}: no input checks found")
    return out


def _checks(body):
    out = []
    for k, t in enumerate(body):
        if t.startswith("raise "):
            cond = next((body[q] for q in range(k - 1, -1, -1) if body[q].startswith(("if", "elif", "else"))), "")
            out.append((cond, t[6:]))
    return out


def _lean_str(x):
    return '"' + x.replace("\\", "\\\\").replace('"', '\\"') + '"'


def _lean_val(v):
    if isinstance(v, str):
        return _lean_str(v)
    if isinstance(v, int):
        return str(v)
    if isinstance(v, tuple):
        return "(" + ", ".join(_lean_val(x) for x in v) + ")"
    if isinstance(v, list):
        return "[" + ", ".join(_lean_val(x) for x in v) + "]"
    raise TypeError(type(v))


def _lean_type(v):
    if isinstance(v, str):
        return "String"
    if isinstance(v, int):
        return "Nat"
    if isinstance(v, tuple):
        return " × ".join(_lean_type(x) for x in v)
    if isinstance(v, list):
        return "List (" + (_lean_type(v[0]) if v else "String") + ")"
    raise TypeError(type(v))


def _fact(F, name, default, fn):
    """Store a fact; when its statements are not found any more store a marker value instead of raising, so that the
    run ends in the NAMED obligation (`C19_gen_…`) that compares this fact, not in a crashed extractor."""
    try:
        F[name] = fn()
    except (ValueError, StopIteration, IndexError) as e:
        F[name] = ([f"<not found: {e}>"] if isinstance(default, list) else default)


def _break_block(body, start=0):
    """Index of the `if …:` that guards the first `break` at or after `start`."""
    k = next((q for q in range(max(start, 1), len(body)) if body[q] == "break" and body[q - 1].startswith("if")), None)
    if k is None:
        raise ValueError("no `if …: break`")
    return k - 1


def _role(lines, caller, pattern, what, nth=0):
    """Name of a private helper, found through the public function that calls it."""
    _, body = _normal_form(lines, caller, nth, canon=False)
    for t in body:
        m = re.search(pattern, t)
        if m:
            return m.group(1)
    raise ValueError(f"{what}: the call in {caller} was not found")


def source_facts():
    """Every literal / structural fact of the three anchored .pyx files the hand-written model hard-codes."""
    from common import paths
    base = os.path.join(paths.SRC, "biotite/sequence/phylo")
    up = _logical_lines(open(os.path.join(base, "upgma.pyx")).read())
    nj = _logical_lines(open(os.path.join(base, "nj.pyx")).read())
    tr = _logical_lines(open(os.path.join(base, "tree.pyx")).read())
    F = {}
    cmp_re = r"if v\d+(<=?|>=?)v\d+:"
    # ---- upgma (operators / constants from the un-flipped text, statement lists from the normal form)
    _, raw = _normal_form(up, "upgma", canon=False)
    _, b = _normal_form(up, "upgma")
    _fact(F, "upgmaGuards", [("?", "?")], lambda: _guards([t for t in b if not t.startswith("cdef")], "upgma"))
    F["upgmaInit"] = [t for t in b if t.startswith("cdef") and ("np." in t or "astype" in t)] or ["<not found>"]
    _fact(F, "upgmaScan", [], lambda: _between(b, r"v\d+=MAX_FLOAT", r"if v\d+<=?v\d+:", "upgma minimum search", last_offset=3)[0])
    _fact(F, "upgmaMerge", [], lambda: b[_break_block(b):-1])
    F["upgmaReturn"] = b[-1]

    def height():
        for t in raw:
            m = re.fullmatch(r"v\d+=v\d+/(\d+)", t)
            if m:
                return (1, int(m.group(1)))
            m = re.fullmatch(r"v\d+=(\d+)\.(\d+)\*v\d+", t) or re.fullmatch(r"v\d+=v\d+\*(\d+)\.(\d+)", t)
            if m:
                num, den = int(m.group(1) + m.group(2)), 10 ** len(m.group(2))
                g = math.gcd(num, den)
                return (num // g, den // g)
        raise ValueError("upgma: `height = dist_min/<int>` (or `<decimal> * dist_min`) not found")
    _fact(F, "upgmaHeightFactor", (0, 0), height)

    def cmp_of(lines_):
        m = next((re.fullmatch(cmp_re, t) for t in lines_ if re.fullmatch(cmp_re, t)), None)
        if not m:
            raise ValueError("comparison of the minimum search not found")
        return m.group(1)
    _fact(F, "upgmaScanCmp", "?", lambda: cmp_of(raw))
    # ---- neighbor_joining
    _, raw = _normal_form(nj, "neighbor_joining", canon=False)
    _, b = _normal_form(nj, "neighbor_joining")
    _fact(F, "njGuards", [("?", "?")], lambda: _guards([t for t in b if not t.startswith("cdef")], "neighbor_joining"))
    F["njInit"] = [t for t in b if t.startswith("cdef") and ("np." in t or "astype" in t or "len(" in t)] or ["<not found>"]
    pos = {}

    def cut(name, first, last, what, after, **kw):
        def go():
            seg, e = _between(b, first, last, what, start=pos.get(after, 0), **kw)
            pos[name] = e
            return seg
        _fact(F, name, [], go)
        pos.setdefault(name, pos.get(after, 0))
    pos["while"] = next((k for k, t in enumerate(b) if t == "while True:"), 0)
    cut("njDivergence", r"for v\d+ in range\(.*\):", r"v\d+\[v\d+\]=v\d+", "nj divergence", "while")
    cut("njCorrected", r"for v\d+ in range\(.*\):", r"v\d+\[v\d+,v\d+\]=\(v\d+-\d+\)\*.*", "nj corrected distances", "njDivergence")
    cut("njScan", r"v\d+=MAX_FLOAT", r"if v\d+<=?v\d+:", "nj minimum search", "njCorrected", last_offset=3)

    def join():
        a0 = _break_block(b, pos.get("njScan", 0))
        e0 = next(k for k in range(a0, len(b)) if re.fullmatch(r"return Tree\(v\d+\)", b[k]))
        pos["njJoin"] = e0 + 1
        return b[a0:e0 + 1]
    _fact(F, "njJoin", [], join)
    F["njUpdate"] = b[pos["njJoin"]:] if "njJoin" in pos else ["<not found>"]

    def join_cmp():
        m = next((re.fullmatch(r"if v\d+(<=?|>=?)(\d+):", t) for t in raw if re.fullmatch(r"if v\d+(<=?|>=?)(\d+):", t)), None)
        if not m:
            raise ValueError("nj: `if n_rem_nodes > <int>` not found")
        return (m.group(1), int(m.group(2)))
    _fact(F, "njJoinCmp", ("?", 0), join_cmp)

    def corr_offset():
        m = re.search(r"=\(v\d+-(\d+)\)\*v\d+\[v\d+,v\d+\]", " ".join(raw))
        if not m:
            raise ValueError("nj: `(n_rem_nodes - <int>) * distances_v[i,j]` not found")
        return int(m.group(1))
    _fact(F, "njCorrOffset", 0, corr_offset)

    def half():
        hs = sorted(set(re.findall(r"v\d+=(\d+)\.(\d+)\*\(", " ".join(raw))))
        if len(hs) != 1:
            raise ValueError(f"nj: the factor of the half-sums is not unique: {hs}")
        return (int(hs[0][0] + hs[0][1]), 10 ** len(hs[0][1]))
    _fact(F, "njHalf", (0, 0), half)
    _fact(F, "njScanCmp", "?", lambda: cmp_of(raw))

    def min_rows():
        g = [x for x in (re.fullmatch(r"if distances\.shape\[0\](<=?|>=?)(\d+):", t) for t in raw) if x]
        if len(g) != 1:
            raise ValueError("nj: minimum size guard not found")
        return (g[0].group(1), int(g[0].group(2)))
    _fact(F, "njMinRowsCmp", ("?", 0), min_rows)
    # ---- tree.pyx: private helpers by role (found through their public callers)
    roles = {
        _role(tr, "as_binary", r"=(_\w+)\(tree_or_node\.root\)", "_as_binary"): "HELPER_as_binary",
        _role(tr, "lowest_common_ancestor", r"=(_\w+)\(self\)", "_create_path_to_root"): "HELPER_path_to_root",
        _role(tr, "get_leaves", r"^(_\w+)\(self,", "_get_leaves"): "HELPER_get_leaves",
        _role(tr, "__cinit__", r"\.(_\w+)\(self,", "_set_parent"): "HELPER_set_parent",
    }
    inv = {v: k for k, v in roles.items()}
    sig = []
    for name, nth in (("__init__", 0), ("get_distance", 0), ("to_newick", 0), ("from_newick", 0), ("__cinit__", 0),
                      ("distance_to", 0), ("lowest_common_ancestor", 0), ("to_newick", 1), ("from_newick", 1),
                      ("as_binary", 0), ("copy", 0)):
        sig.append(_render(tr[_find_def(tr, name, nth)][1]))
    F["signatures"] = sig
    for fact, name, nth, private in (("treeInit", "__init__", 0, False), ("treeCopy", "__copy_create__", 0, False),
                                     ("treeLeaves", "leaves", 0, False), ("treeGetDistance", "get_distance", 0, False),
                                     ("treeToNewick", "to_newick", 0, False), ("treeFromNewick", "from_newick", 0, False),
                                     ("nodeSetParent", inv["HELPER_set_parent"], 0, True), ("nodeCopy", "copy", 0, False),
                                     ("nodeAsRoot", "as_root", 0, False), ("nodeDistanceTo", "distance_to", 0, False),
                                     ("nodeLca", "lowest_common_ancestor", 0, False),
                                     ("createPathToRoot", inv["HELPER_path_to_root"], 0, True),
                                     ("getLeavesRec", inv["HELPER_get_leaves"], 0, True),
                                     ("nodeToNewick", "to_newick", 1, False), ("nodeFromNewick", "from_newick", 1, False),
                                     ("asBinary", "as_binary", 0, False), ("asBinaryRec", inv["HELPER_as_binary"], 0, True)):
        F[fact] = _normal_form(tr, name, nth, private=private, roles=roles)[1]
    _, b = _normal_form(tr, "__cinit__", roles=roles)
    F["nodeInitChecks"] = _checks(b)
    F["nodeInitAssign"] = [t for t in b if t.startswith("self._") or "HELPER_set_parent" in t or t.startswith("for v")]
    m = re.search(r"v\d+=\[([^\]]*)\]for v\d+ in v\d+:if v\d+ in v\d+:raise ValueError", "".join(F["nodeToNewick"]))
    m = m or re.search(r"=\[((?:[\"'].[\"'],?)+)\]", "".join(F["nodeToNewick"]))
    if not m:
        raise ValueError("illegal_chars list not found in TreeNode.to_newick")
    chars = re.findall(r"""["'](.)["']""", m.group(1))
    if not chars:
        raise ValueError("illegal_chars list is empty / not literal")
    F["illegalChars"] = [ord(c) for c in chars]
    return F


def gen_lean():
    F = source_facts()
    body = ["/- REGENERATED on every run by harness/props/c19.py from sequence/phylo/{upgma,nj,tree}.pyx. Do not edit.",
            "   Statements are in the normal form described in the plugin (locals renamed v0, v1, …; messages, comments,",
            "   docstrings and layout dropped; comparisons and guard clauses canonicalised). -/",
            "namespace BiotiteModel.Gen.C19"]
    for name, val in F.items():
        body.append(f"def {name} : {_lean_type(val)} := {_lean_val(val)}")
    body += ["/-- Code points Python's `str.isspace` accepts (what `str.split()`/`strip()` remove), from the running interpreter. -/",
             "def whitespace : List Nat := [" + ", ".join(str(c) for c in range(0x110000) if chr(c).isspace()) + "]",
             "/-- `neighbor_joining` raises ValueError below this many rows. -/",
             f"def njMinNodes : Nat := {F['njMinRowsCmp'][1]}",
             "end BiotiteModel.Gen.C19", ""]
    return {"BiotiteModel/Gen/C19.lean": "\n".join(body)}


# ---------------------------------------------------------------- encodings
def _rat(x):
    x = Fraction(x)
    return str(x.numerator) if x.denominator == 1 else f"{x.numerator}/{x.denominator}"


def _tok(tree):
    if isinstance(tree, int):
        return "L%d" % tree
    return ",".join(["N%d" % len(tree)] + [_rat(Fraction(d)) + "," + _tok(c) for d, c in tree])


def _str(s):
    return ".".join(str(ord(c)) for c in s) if s else "_"


def _labels(ls):
    if ls is None:
        return "-"
    if not ls:
        return "!"
    return ";".join(_str(l) for l in ls)


def _path(p):
    return ".".join(str(k) for k in p) if p else "_"


def _leaves(tree):
    if isinstance(tree, int):
        return [tree]
    return [x for _, c in tree for x in _leaves(c)]


def _nodes(tree, p=()):
    """All node paths of a JSON tree."""
    yield list(p)
    if not isinstance(tree, int):
        for k, (_, c) in enumerate(tree):
            yield from _nodes(c, p + (k,))


def _py_newick(tree, labels, inc, edge="0.0"):
    """Independent, tiny Newick writer used only to produce *inputs* for the `read` op."""
    if isinstance(tree, int):
        s = str(tree) if labels is None else labels[tree]
    else:
        s = "(" + ",".join(_py_newick(c, labels, inc, _dec(Fraction(d))) for d, c in tree) + ")"
    return s + (":" + edge if inc else "")


def _dec(x):
    """Finite decimal expansion of a dyadic rational."""
    x = Fraction(x)
    sign = "-" if x < 0 else ""
    x = abs(x)
    ip = x.numerator // x.denominator
    fr = x - ip
    digits = ""
    while fr and len(digits) < 40:
        fr *= 10
        digits += str(fr.numerator // fr.denominator)
        fr -= fr.numerator // fr.denominator
    return f"{sign}{ip}.{digits or '0'}"


# ---------------------------------------------------------------- generator
def _lcm_products(n):
    l = 1
    for a in range(1, n):
        for b in range(1, n - a + 1):
            l = l * (a * b) // math.gcd(l, a * b)
    return l


def _sym_matrix(rng, n, hi):
    m = [[0] * n for _ in range(n)]
    for i in range(n):
        for j in range(i):
            m[i][j] = m[j][i] = rng.randint(0 if rng.random() < 0.2 else 1, hi)
    return m


def _rand_topology(rng, n_leaves, unary=0.15, max_arity=4):
    """Random rooted tree shape with n_leaves leaves: nested lists, leaves are None."""
    items = [None] * n_leaves
    while len(items) > 1:
        k = min(len(items), rng.choice([2, 2, 2, 3, max_arity]))
        idx = sorted(rng.sample(range(len(items)), k))
        group = [items[i] for i in idx]
        for i in reversed(idx):
            items.pop(i)
        node = group
        if rng.random() < unary:
            node = [node]
            while rng.random() < 0.5:            # chains of directly nested one-child nodes
                node = [node]
        items.insert(rng.randint(0, len(items)), node)
    t = items[0]
    if rng.random() < unary:
        t = [t]
        while rng.random() < 0.4:
            t = [t]
    if rng.random() < unary and t is None:
        t = [t]
    # a leaf hanging on a chain of one-child nodes
    if rng.random() < unary and isinstance(t, list) and len(t) >= 2:
        k = rng.randrange(len(t))
        if t[k] is None:
            t[k] = [[None]] if rng.random() < 0.5 else [[[None]]]
    return t


def _dyadic(rng):
    r = rng.random()
    if r < 0.12:
        # negative branch lengths are legal ("any branch lengths"; neighbour joining produces them)
        return -Fraction(rng.randint(1, 40), rng.choice([1, 2, 4, 8]))
    if r < 0.25:
        return Fraction(0)
    if r < 0.6:
        return Fraction(rng.randint(1, 9))
    return Fraction(rng.randint(1, 200), rng.choice([2, 4, 8, 16, 64]))


def _rand_tree(rng, n_leaves, dist=_dyadic, unary=0.15):
    order = list(range(n_leaves))
    rng.shuffle(order)
    shape = _rand_topology(rng, n_leaves, unary)

    def deco(s):
        if s is None:
            return order.pop()
        out = []
        for c in s:
            d = dist(rng)
            out.append([d if isinstance(d, float) else _rat(d), deco(c)])
        return out
    return deco(shape)


LABEL_POOL = ["A", "b", "Homo_sapiens", "x1", "1e5", "0.5", "nan", "inf", "-", "'q'", "[z]", "é", "名前", "a.b", "E", "+", "0", "_", "a|b", "ß", "\U0001F600"]


def _rand_labels(rng, n):
    out = []
    while len(out) < n:
        r = rng.random()
        if r < 0.5:
            l = rng.choice(LABEL_POOL) + (str(len(out)) if rng.random() < 0.7 else "")
        else:
            l = "".join(rng.choice("ABCabc019._-+e'\"[]{}|/\\<>=*&^%$#@!~`?é名") for _ in range(rng.randint(1, 6)))
        if l not in out:
            out.append(l)
    return out


def _inject_ws(rng, s, p=0.25):
    out = []
    for c in s:
        while rng.random() < p * 0.5:
            out.append(rng.choice(WS_CHARS))
        out.append(c)
    while rng.random() < p:
        out.append(rng.choice(WS_CHARS))
    return "".join(out)


def _additive(tree, n):
    """Leaf-to-leaf path lengths (Fractions or floats) of a JSON tree."""
    depth = {}

    def walk(t, acc):
        if isinstance(t, int):
            depth[t] = list(acc)
            return
        for k, (d, c) in enumerate(t):
            walk(c, acc + [(id(t), k, d)])
    walk(tree, [])
    D = [[0] * n for _ in range(n)]
    for i in range(n):
        for j in range(n):
            if i == j:
                continue
            a, b = depth[i], depth[j]
            k = 0
            while k < min(len(a), len(b)) and a[k][:2] == b[k][:2]:
                k += 1
            tot = 0
            for _, _, d in a[k:] + b[k:]:
                tot = tot + (d if isinstance(d, float) else Fraction(d))
            D[i][j] = tot
    return D


def _matrix_case(kind, algo, m, exact, **kw):
    n = len(m)
    flat = [x for row in m for x in row]
    c = {"kind": kind, "algo": algo, "matrix": [[(x if isinstance(x, float) else _rat(x)) for x in row] for row in m],
         "exact": exact, **kw}
    if exact:
        c["ops"] = [f"{algo} {n} " + (",".join(_rat(x) for x in flat) if flat else "_")]
    return c


def _tree_cases(rng, tier):
    """One bundle of tree cases (newick / dist / binary / copy) around one random tree."""
    n = rng.choice([1, 2, 3, 3, 4, 5, 6, 8, 11])
    tree = _rand_tree(rng, n)
    tok = _tok(tree)
    out = []
    # --- Newick round trip
    labels = None if rng.random() < 0.35 else _rand_labels(rng, n + rng.choice([0, 0, 1]))
    for inc in (1, 0):
        ws_seed = rng.randint(0, 10**9) if rng.random() < 0.7 else None
        import random as _r
        s = _py_newick(tree, labels, bool(inc)) + ";"
        if ws_seed is not None:
            s = _inject_ws(_r.Random(ws_seed), s)
        out.append({"kind": "newick", "tree": tree, "labels": labels, "inc": inc, "ws_seed": ws_seed,
                    "ops": [f"write {inc} {_labels(labels)} {tok}", f"read {_labels(labels)} {_str(s)}",
                            f"nread {_labels(labels)} {_str(s.rstrip().rstrip(';'))}"]})
    # --- distances / LCA
    ops = []
    pairs = []
    for _ in range(4):
        i, j = rng.randrange(n), rng.randrange(n)
        topo = rng.choice([0, 0, 1])
        pairs.append([i, j, topo])
        ops.append(f"dist {topo} {i} {j} {tok}")
    nodes = list(_nodes(tree))
    npairs = []
    for _ in range(4):
        p, q = rng.choice(nodes), rng.choice(nodes)
        topo = rng.choice([0, 1])
        npairs.append([p, q, topo])
        ops.append(f"ndist {topo} {_path(p)} {_path(q)} {tok}")
        ops.append(f"lca {_path(p)} {_path(q)} {tok}")
    out.append({"kind": "dist", "tree": tree, "pairs": pairs, "npairs": npairs, "ops": ops})
    # --- as_binary, copy
    out.append({"kind": "binary", "tree": tree, "ops": [f"binary {tok}"]})
    out.append({"kind": "copy", "tree": tree, "ops": [f"copy {tok}"]})
    out.append({"kind": "accessors", "tree": tree})
    out.append({"kind": "api", "tree": tree, "seed": rng.randint(0, 10**9)})
    out.append({"kind": "refused", "tree": tree, "seed": rng.randint(0, 10**9)})
    return out


def _f32_exact_tokens(s):
    """Every decimal token of s is a float32-exact value (so float() -> float32 does not round)."""
    import struct
    s = "".join(s.split())          # the reader deletes all whitespace first: `0. 01` is the token `0.01`
    for tok in re.findall(r"[0-9.]+", s):
        if tok.count(".") > 1 or not any(c.isdigit() for c in tok):
            continue
        x = float(tok)
        if x > 1e30 or struct.unpack("f", struct.pack("f", x))[0] != x or Fraction(x) != Fraction(tok if not tok.endswith(".") else tok + "0"):
            return False
    return True


def _mutate_newick(rng, s):
    s = list(s)
    for _ in range(rng.randint(1, 3)):
        r = rng.random()
        pos = rng.randrange(len(s) + 1)
        if r < 0.4 and s:
            s.pop(min(pos, len(s) - 1))
        elif r < 0.8:
            s.insert(pos, rng.choice("(),:;A1. -"))
        elif s:
            s[min(pos, len(s) - 1)] = rng.choice("(),:;A1.")
    return "".join(s)


def cases(rng, tier):
    quick = tier == "quick"
    # ---------------- UPGMA exact stream (correspondence + oracle)
    for _ in range(110 if quick else 1500):
        n = rng.choice([2, 3, 3, 4, 4, 5, 5, 6, 7, 8, 9])
        hi = rng.choice([2, 3, 5, 12])
        L = _lcm_products(n)
        m = [[x * L for x in row] for row in _sym_matrix(rng, n, hi)]
        yield _matrix_case("upgma", "upgma", m, True)
    # ---------------- large UPGMA (oracle only): one cluster grows by single additions past 256 members while
    # an outlier's distances force a genuinely size-weighted mean (all means are integers => float32 exact)
    for n_big in ([258, 300, 400] if quick else [258, 259, 300, 320, 400, 400]):
        yield {"kind": "upgma_large", "algo": "upgma", "exact": True,
               "big": {"m": n_big - 1, "base": rng.choice([1000, 1500]), "seed": rng.randint(0, 10**9)}}
    # ---------------- NJ exact stream: scaled integer matrices and additive matrices of random trees
    for _ in range(70 if quick else 1000):
        n = rng.choice([4, 4, 5, 5, 6, 7, 8])
        S = 2 ** (n - 2)
        for k in range(1, n - 1):
            S = S * k // math.gcd(S, k)
        m = [[x * S for x in row] for row in _sym_matrix(rng, n, rng.choice([2, 4, 9]))]
        yield _matrix_case("nj", "nj", m, True)
    for _ in range(70 if quick else 1000):
        n = rng.choice([4, 4, 5, 6, 7, 8, 10])
        tree = _rand_tree(rng, n, dist=lambda r: Fraction(r.choice([0, 1, 1, 2, 3, 5, 8])) if r.random() < 0.7
                          else Fraction(r.randint(1, 40), r.choice([2, 4])), unary=0.1)
        yield _matrix_case("nj_additive", "nj", _additive(tree, n), True, additive=True, source=tree)
        if rng.random() < 0.5:
            yield _matrix_case("upgma_additive", "upgma", [[x * _lcm_products(n) for x in row] for row in _additive(tree, n)], True) \
                if n <= 8 else _matrix_case("upgma_float", "upgma", [[float(x) for x in row] for row in _additive(tree, n)], False)
    # ---------------- zero distances: identical taxa, star trees with zero branches, Q-minimum 0 or positive
    for n in range(4, 9):
        z = [[0] * n for _ in range(n)]
        yield _matrix_case("nj_zero", "nj", z, True, additive=True)
        yield _matrix_case("upgma_zero", "upgma", z, True)
    for _ in range(40 if quick else 400):
        n = rng.choice([4, 5, 5, 6, 7, 8])
        r = rng.random()
        if r < 0.4:
            # star tree: a few taxa on positive branches, the others identical (length 0) at the centre
            lens = [Fraction(rng.choice([0, 0, 0, 1, 2, 3])) for _ in range(n)]
            if rng.random() < 0.5:
                lens = sorted(lens, reverse=True)
            m = [[(0 if i == j else lens[i] + lens[j]) for j in range(n)] for i in range(n)]
            yield _matrix_case("nj_star_zero", "nj", m, True, additive=True)
        elif r < 0.75:
            # additive matrix of a random tree with mostly zero-length branches (duplicated taxa)
            tree = _rand_tree(rng, n, dist=lambda rr: Fraction(rr.choice([0, 0, 0, 0, 1, 2, 4])), unary=0.1)
            m = _additive(tree, n)
            yield _matrix_case("nj_dup_taxa", "nj", m, True, additive=True, source=tree)
            if n <= 8:
                L = _lcm_products(n)
                yield _matrix_case("upgma_dup_taxa", "upgma", [[x * L for x in row] for row in m], True)
        else:
            # blocks of identical taxa at a common distance: the corrected (Q) minimum is 0 or positive late in the run
            k = rng.randint(1, n - 1)
            c = rng.choice([0, 4, 8])
            S = 2 ** (n - 2)
            for q in range(1, n - 1):
                S = S * q // math.gcd(S, q)
            m = [[(0 if (i < k) == (j < k) else c * S) for j in range(n)] for i in range(n)]
            yield _matrix_case("nj_blocks", "nj", m, True, additive=True)
    # ---------------- audit: regions the theorems' hypotheses exclude but the API accepts
    # (a) symmetric only up to np.allclose (rounding noise) -- oracle only, judged against the symmetrised matrix
    for _ in range(12 if quick else 150):
        n = rng.choice([3, 4, 5, 8])
        algo = rng.choice(["upgma", "nj"]) if n >= 4 else "upgma"
        tree = _rand_tree(rng, n, dist=lambda r: r.choice([r.random(), r.random() * 10, 1.0]), unary=0.1)
        m = [[float(x) for x in row] for row in _additive(tree, n)]
        for i in range(n):
            for j in range(n):
                if i != j:
                    m[i][j] *= 1 + rng.uniform(-2e-7, 2e-7)
        yield _matrix_case(algo + "_nearsym", algo, m, False, additive=True)
    # (b) non-zero diagonal: never checked by the code; exact correspondence (the model reads it like nj.pyx)
    for _ in range(12 if quick else 150):
        n = rng.choice([2, 3, 4, 5, 6])
        algo = rng.choice(["upgma", "nj"])
        S = 2 ** max(n - 2, 0) * _lcm_products(max(n, 2))
        for q in range(1, max(n - 1, 1)):
            S = S * q // math.gcd(S, q)
        m = _sym_matrix(rng, n, 6)
        for i in range(n):
            m[i][i] = rng.choice([0, 1, 3, 7])
        yield _matrix_case("matrix_diag", algo, [[x * S for x in row] for row in m], True)
    # (c) larger neighbour joining inputs than the exact stream allows (oracle only)
    for n in ([30, 60] if quick else [20, 30, 45, 60, 90, 120]):
        tree = _rand_tree(rng, n, dist=lambda r: float(r.choice([0, 1, 2, 3, 5, 8])) if r.random() < 0.5
                          else r.randint(1, 64) / 8.0, unary=0.05)
        yield _matrix_case("nj_large", "nj", [[float(x) for x in row] for row in _additive(tree, n)], False, additive=True)
    # (d) duplicate labels / duplicate leaf indices
    for _ in range(6 if quick else 60):
        n = rng.choice([2, 3, 4])
        tree = _rand_tree(rng, n)
        labels = _rand_labels(rng, n)
        a, b = rng.sample(range(n), 2)
        labels[b] = labels[a]
        inc = rng.choice([0, 1])
        yield {"kind": "label_dup", "tree": tree, "labels": labels, "inc": inc, "ws_seed": None,
               "ops": [f"write {inc} {_labels(labels)} {_tok(tree)}",
                       f"read {_labels(labels)} {_str(_py_newick(tree, labels, bool(inc)) + ';')}"]}
        dup = _tok(tree).replace("L%d" % b, "L%d" % a)
        yield {"kind": "tree_dup_index", "tok": dup, "a": a, "b": b,
               "ops": [f"write 1 - {dup}", f"dist 0 {a} {b} {dup}", f"dist 0 {b} {a} {dup}", f"binary {dup}", f"copy {dup}"]}
    # (e) Newick tokens `float()` / `int()` accept beyond plain decimals
    for _ in range(10 if quick else 100):
        toks = [rng.choice(["1e-05", "2.5E+3", "inf", "nan", "1_000.5", ".5", "5.", "+3", "-0.0", "Infinity",
                            "1e400", "-inf", "٣.٥", "1e-46", "3.4e38", "0.1", "1E2"]) for _ in range(3)]
        labs = [rng.choice(["+0", "0_0", "00", "٠", "-0"]), "1", rng.choice(["2", "+2", "0_2", "٢"])]
        yield {"kind": "newick_tokens", "toks": toks, "labs": labs}
    for _ in range(10 if quick else 100):
        # exponent notation that is float32-exact: also through the model
        forms = [("2.5e2", "250"), ("25E-1", "5/2"), ("1.25E+2", "125"), ("5e0", "5"), ("-75e-2", "-3/4"), ("+1e1", "10")]
        pick = [rng.choice(forms) for _ in range(3)]
        text = f"(0:{pick[0][0]},(1:{pick[1][0]},+2:{pick[2][0]}):1E0);"
        yield {"kind": "newick_exponent", "ops": [f"read - {_str(text)}", f"nread - {_str(text[:-1])}"]}
    # ---------------- finite but huge entries: float32 sums overflow (oracle only)
    for _ in range(4 if quick else 30):
        n = rng.choice([4, 5, 6])
        mag = rng.choice([1e38, 2e38, 3e38, 8e37])
        m = [[0.0 if i == j else mag * (1.0 if rng.random() < 0.7 else 0.5) for j in range(n)] for i in range(n)]
        m = [[m[min(i, j)][max(i, j)] for j in range(n)] for i in range(n)]
        yield _matrix_case("matrix_overflow", rng.choice(["upgma", "nj"]), m, False)
    # ---------------- wrong shapes (oracle only): must be refused cleanly, never crash
    for shape in ([3, 4], [4], [4, 4, 2], [4, 3], [1, 1], [2, 2, 2]):
        for algo in ("upgma", "nj"):
            yield {"kind": "matrix_shape", "algo": algo, "shape": shape}
    yield {"kind": "deep_tree", "depth": 300000}
    # ---------------- NJ on non-additive matrices that force negative branch lengths (one taxon close to
    # everything while the others are far apart)
    for _ in range(25 if quick else 300):
        n = rng.choice([4, 5, 5, 6, 7, 8])
        S = 2 ** (n - 2)
        for q in range(1, n - 1):
            S = S * q // math.gcd(S, q)
        hub = rng.randrange(n)
        near, far = rng.choice([1, 1, 2]), rng.choice([8, 10, 20])
        m = [[0] * n for _ in range(n)]
        for i in range(n):
            for j in range(i):
                v = near if hub in (i, j) else far + rng.choice([0, 0, 1, 2])
                m[i][j] = m[j][i] = v * S
        yield _matrix_case("nj_negative_branch", "nj", m, True)
    # ---------------- malformed matrices (both sides must agree on the rejection)
    for _ in range(30 if quick else 300):
        n = rng.choice([0, 1, 2, 3, 4, 5])
        m = _sym_matrix(rng, n, 6)
        r = rng.random()
        if n >= 2 and r < 0.35:
            i, j = rng.sample(range(n), 2)
            m[i][j] += rng.choice([3, 7, -3 if m[i][j] >= 3 else 5])
        elif n >= 2 and r < 0.7:
            i, j = rng.sample(range(n), 2)
            m[i][j] = m[j][i] = -rng.randint(1, 4)
        algo = rng.choice(["upgma", "nj"])
        L = _lcm_products(max(n, 2)) * 2 ** max(n, 2) * 60
        yield _matrix_case("matrix_edge", algo, [[x * L for x in row] for row in m], True)
    for _ in range(8 if quick else 60):
        n = rng.choice([2, 4, 5])
        m = [[float(x) for x in row] for row in _sym_matrix(rng, n, 6)]
        i, j = rng.sample(range(n), 2)
        m[i][j] = m[j][i] = rng.choice([float("nan"), float("inf"), 3.5e38])
        yield _matrix_case("matrix_nonfinite", rng.choice(["upgma", "nj"]), m, False, nonfinite=True)
    # ---------------- float stream (oracle only)
    for _ in range(60 if quick else 1500):
        n = rng.choice([2, 3, 5, 8, 12])
        algo = rng.choice(["upgma", "nj"]) if n >= 4 else "upgma"
        if algo == "nj" or rng.random() < 0.3:
            tree = _rand_tree(rng, n, dist=lambda r: r.choice([0.0, r.random(), r.random() * 10, 1.0]), unary=0.1)
            m = _additive(tree, n)
            yield _matrix_case(algo + "_float", algo, [[float(x) for x in row] for row in m], False, additive=True)
        else:
            m = [[0.0] * n for _ in range(n)]
            for i in range(n):
                for j in range(i):
                    m[i][j] = m[j][i] = rng.choice([rng.random(), rng.random() * 100, float(rng.randint(0, 3))])
            yield _matrix_case(algo + "_float", algo, m, False)
        # small unscaled integers: many ties, thirds (not exact in float32)
        n = rng.choice([3, 4, 6, 9, 12])
        yield _matrix_case("upgma_float", "upgma", [[float(x) for x in row] for row in _sym_matrix(rng, n, rng.choice([2, 4, 9]))], False)
    # ---------------- trees
    for _ in range(70 if quick else 1200):
        yield from _tree_cases(rng, tier)
    # larger trees than the bundles above (the sizes were capped at 11 leaves)
    for n_big in ([120, 300] if quick else [60, 120, 300, 500]):
        tree = _rand_tree(rng, n_big)
        tok = _tok(tree)
        yield {"kind": "binary", "tree": tree, "ops": [f"binary {tok}"]}
        yield {"kind": "copy", "tree": tree, "ops": [f"copy {tok}"]}
        s_big = _py_newick(tree, None, True) + ";"
        yield {"kind": "newick", "tree": tree, "labels": None, "inc": 1, "ws_seed": rng.randint(0, 10**9),
               "ops": [f"write 1 - {tok}", f"read - {_str(s_big)}"]}
    # float-valued trees: oracle only
    for _ in range(25 if quick else 400):
        n = rng.choice([2, 3, 5, 9])
        tree = _rand_tree(rng, n, dist=lambda r: r.choice([r.random(), r.random() * 1e-3, r.random() * 1e4, 0.1, 1 / 3,
                                                             1e20, 3e38, 1e-30, 1e-45, -r.random(), 123456789.0]))
        labels = None if rng.random() < 0.5 else _rand_labels(rng, n)
        yield {"kind": "newick_float", "tree": tree, "labels": labels, "inc": 1, "ws_seed": rng.randint(0, 10**9)}
        yield {"kind": "binary_float", "tree": tree}
    # ---------------- malformed Newick / labels
    for _ in range(60 if quick else 800):
        n = rng.choice([1, 2, 3, 4])
        tree = _rand_tree(rng, n)
        labels = None if rng.random() < 0.5 else ["A", "B1", "c", "D"][:n]
        base = _py_newick(tree, labels, rng.random() < 0.6) + ";"
        s = _mutate_newick(rng, base)
        for _ in range(20):
            if _f32_exact_tokens(s):
                break
            s = _mutate_newick(rng, base)
        else:
            s = base
        yield {"kind": "newick_malformed", "ops": [f"read {_labels(labels)} {_str(s)}", f"nread {_labels(labels)} {_str(s)}"]}
    for _ in range(20 if quick else 200):
        n = rng.choice([1, 2, 3])
        tree = _rand_tree(rng, n)
        labels = _rand_labels(rng, n)
        k = rng.randrange(n)
        r = rng.random()
        if r < 0.4:
            labels[k] = labels[k][:1] + rng.choice(ILLEGAL) + labels[k][1:]
            kind = "label_illegal"
        elif r < 0.7:
            labels[k] = labels[k][:1] + rng.choice(WS_CHARS) + labels[k][1:]
            kind = "label_ws"
        elif r < 0.85:
            labels[k] = ""
            kind = "label_empty"
        else:
            labels = labels[:n - 1]
            kind = "label_short"
        inc = rng.choice([0, 1])
        yield {"kind": kind, "tree": tree, "labels": labels, "inc": inc, "ws_seed": None,
               "ops": [f"write {inc} {_labels(labels)} {_tok(tree)}"]}
    # trees the Tree constructor must refuse / node-level as_binary
    for _ in range(10 if quick else 60):
        n = rng.choice([2, 3, 4])
        tree = _rand_tree(rng, n)
        bad = _tok(tree).replace("L%d" % (n - 1), "L%d" % (n + rng.randint(0, 3)))
        yield {"kind": "tree_bad_index", "ops": [f"write 0 - {bad}", f"binary {bad}", f"copy {bad}"]}
        yield {"kind": "binnode", "tree": tree, "ops": [f"binnode {_tok(tree)}"]}


# '((((0:1,1:2):10):5):3,2:8);' -- two directly nested one-child nodes; and a three-fold chain over a leaf
_CHAIN = [["3", [["5", [["10", [["1", 0], ["2", 1]]]]]]], ["8", 2]]
_CHAIN3 = [["1/2", [["3/4", [["2", [["4", 0]]]]]]], ["1", [["7", [["1/4", 1], ["0", 2], ["6", [["5", 3]]]]]]]]


def corpus():
    t = [["1", [["1/2", 0], ["3/2", 1]]], ["5/2", 2], ["0", [["1", 3]]]]
    return [
        {"kind": "upgma", "algo": "upgma", "exact": True, "matrix": [[_rat(x * 12) for x in r] for r in
                                                                    [[0, 1, 7, 7, 9], [1, 0, 7, 6, 8], [7, 7, 0, 2, 4], [7, 6, 2, 0, 3], [9, 8, 4, 3, 0]]],
         "ops": ["upgma 5 " + ",".join(str(x * 12) for r in [[0, 1, 7, 7, 9], [1, 0, 7, 6, 8], [7, 7, 0, 2, 4], [7, 6, 2, 0, 3], [9, 8, 4, 3, 0]] for x in r)]},
        {"kind": "upgma", "algo": "upgma", "exact": True, "matrix": [["0", "2", "2"], ["2", "0", "2"], ["2", "2", "0"]],
         "ops": ["upgma 3 0,2,2,2,0,2,2,2,0"]},
        {"kind": "newick", "tree": t, "labels": ["a", "b", "c", "d"], "inc": 1, "ws_seed": 5,
         "ops": [f"write 1 {_labels(['a', 'b', 'c', 'd'])} {_tok(t)}", f"write 0 - {_tok(t)}",
                 f"read - {_str(' ( (0:0.5 ,1:1.5):1.0, 2:2.5,(3:1.0):0.0 ) ; ')}", f"read - {_str('((0,1),2,(3));')}"]},
        {"kind": "binary", "tree": t, "ops": [f"binary {_tok(t)}"]},
        {"kind": "binary", "tree": _CHAIN, "ops": [f"binary {_tok(_CHAIN)}"]},
        {"kind": "binary", "tree": _CHAIN3, "ops": [f"binary {_tok(_CHAIN3)}"]},
        {"kind": "copy", "tree": _CHAIN3, "ops": [f"copy {_tok(_CHAIN3)}"]},
    ]


# ---------------------------------------------------------------- implementation adapter
def _build(tree):
    """JSON tree -> TreeNode (children bottom-up through the real constructor)."""
    from biotite.sequence.phylo import TreeNode
    if isinstance(tree, int):
        return TreeNode(index=tree)
    return TreeNode([_build(c) for _, c in tree], [float(d) if isinstance(d, float) else float(Fraction(d)) for d, _ in tree])


def _dump(node):
    if node.is_leaf():
        return "L%d" % node.index
    ch = node.children
    return ",".join(["N%d" % len(ch)] + [_rat(Fraction(c.distance)) + "," + _dump(c) for c in ch])


def _min_leaf(node):
    return min(int(x) for x in node.get_indices())


def _dump_canon(node):
    if node.is_leaf():
        return "L%d" % node.index
    ch = sorted(node.children, key=_min_leaf)
    return ",".join(["N%d" % len(ch)] + [_rat(Fraction(c.distance)) + "," + _dump_canon(c) for c in ch])


def _parse_tok(s):
    toks = s.split(",")

    def go(i):
        t = toks[i]
        if t[0] == "L":
            return int(t[1:]), i + 1
        k = int(t[1:])
        out = []
        i += 1
        for _ in range(k):
            d = toks[i]
            c, i = go(i + 1)
            out.append([d, c])
        return out, i
    tree, i = go(0)
    assert i == len(toks)
    return tree


def _ustr(s):
    return "" if s == "_" else "".join(chr(int(x)) for x in s.split("."))


def _ulabels(s):
    if s == "-":
        return None
    if s == "!":
        return []
    return [_ustr(x) for x in s.split(";")]


def _upath(s):
    return [] if s == "_" else [int(x) for x in s.split(".")]


def _at(node, path):
    for k in path:
        node = node.children[k]
    return node


def _path_of(node):
    p = []
    while node.parent is not None:
        par = node.parent
        p.append(next(k for k, c in enumerate(par.children) if c is node))
        node = par
    return p[::-1]


def _err(e):
    return "ERR:" + type(e).__name__


def run_impl(case):
    import numpy as np
    from biotite.sequence import phylo

    out = []
    for op in case["ops"]:
        w = op.split(" ")
        try:
            if w[0] in ("upgma", "nj"):
                n = int(w[1])
                xs = [] if w[2] == "_" else [float(Fraction(x)) for x in w[2].split(",")]
                m = np.array(xs, dtype=np.float64).reshape(n, n)
                t = (phylo.upgma if w[0] == "upgma" else phylo.neighbor_joining)(m)
                out.append("ok " + _dump_canon(t.root) if isinstance(t, phylo.Tree) else "ok " + repr(t))
            elif w[0] == "write":
                t = phylo.Tree(_build(_parse_tok(w[3])))
                s = t.to_newick(labels=_ulabels(w[2]), include_distance=(w[1] == "1"))
                out.append("ok " + _str(s))
            elif w[0] == "read":
                t = phylo.Tree.from_newick(_ustr(w[2]), _ulabels(w[1]))
                out.append("ok " + _dump(t.root))
            elif w[0] == "nread":
                node, dist = phylo.TreeNode.from_newick(_ustr(w[2]), _ulabels(w[1]))
                out.append("ok " + _dump(node) + " " + _rat(Fraction(dist)))
            elif w[0] == "dist":
                t = phylo.Tree(_build(_parse_tok(w[4])))
                out.append("ok " + _rat(Fraction(t.get_distance(int(w[2]), int(w[3]), w[1] == "1"))))
            elif w[0] == "ndist":
                root = _build(_parse_tok(w[4]))
                out.append("ok " + _rat(Fraction(_at(root, _upath(w[2])).distance_to(_at(root, _upath(w[3])), w[1] == "1"))))
            elif w[0] == "lca":
                root = _build(_parse_tok(w[3]))
                a = _at(root, _upath(w[1])).lowest_common_ancestor(_at(root, _upath(w[2])))
                out.append("ok None" if a is None else "ok " + _path(_path_of(a)))
            elif w[0] == "binary":
                t = phylo.Tree(_build(_parse_tok(w[1])))
                out.append("ok " + _dump(phylo.as_binary(t).root))
            elif w[0] == "binnode":
                r = phylo.as_binary(_build(_parse_tok(w[1])))
                if isinstance(r, tuple):
                    out.append("ok tuple " + _dump(r[0]) + " " + ("None" if r[1] is None else _rat(Fraction(r[1]))))
                else:
                    out.append("ok node " + _dump(r))
            elif w[0] == "copy":
                out.append("ok " + _dump(_build(_parse_tok(w[1])).copy()))
            else:
                out.append("bad-op")
        except Exception as e:  # noqa: BLE001
            out.append(_err(e))
    return out


# ---------------------------------------------------------------- property oracle (independent of the model)
def _depths(root):
    """{id(node): (node, depth as Fraction)} by walking children (explicit path sums)."""
    out = {}
    stack = [(root, Fraction(0))]
    while stack:
        node, d = stack.pop()
        out[id(node)] = (node, d)
        if not node.is_leaf():
            for c in node.children:
                stack.append((c, d + Fraction(c.distance)))
    return out


def _ancestors(node):
    out = []
    while node is not None:
        out.append(node)
        node = node.parent
    return out


def _path_sum(a, b):
    """(distance, topological distance, lca) of two nodes of one tree by explicit walking."""
    anc_a = _ancestors(a)
    ids = {id(x) for x in anc_a}
    lca = next((x for x in _ancestors(b) if id(x) in ids), None)
    if lca is None:
        return None, None, None
    tot, cnt = Fraction(0), 0
    for start in (a, b):
        x = start
        while x is not lca:
            tot += Fraction(x.distance)
            cnt += 1
            x = x.parent
    return tot, cnt, lca


def _close(a, b, tol):
    return a == b if tol == 0 else abs(float(a) - float(b)) <= tol


def _big_matrix(spec):
    """Comb matrix on m taxa (D[i][j] = max(i,j)) plus one outlier z whose distance to member t is chosen so
    that the running mean over members 0..t is the integer A_t; indices shuffled by a seeded permutation."""
    import random as _r
    rr = _r.Random(spec["seed"])
    m, base = spec["m"], spec["base"]
    n = m + 1
    D = [[0] * n for _ in range(n)]
    for i in range(m):
        for j in range(i):
            D[i][j] = D[j][i] = i
    a_prev = base
    D[0][m] = D[m][0] = base
    for t in range(1, m):
        k = rr.choice([0, 1, 2])
        D[t][m] = D[m][t] = a_prev + (t + 1) * k
        a_prev += k
    perm = list(range(n))
    rr.shuffle(perm)
    P = [[0] * n for _ in range(n)]
    for i in range(n):
        for j in range(n):
            P[perm[i]][perm[j]] = D[i][j]
    return P


class _QueryRaised(Exception):
    pass


def _gd(tree, i, j, topo=False):
    try:
        return tree.get_distance(i, j, topo)
    except Exception as e:  # noqa: BLE001
        raise _QueryRaised(f"get_distance({i},{j},topological={topo}) raised {type(e).__name__}: {e}")


def _dt(a, b, topo=False):
    try:
        return a.distance_to(b, topo)
    except Exception as e:  # noqa: BLE001
        raise _QueryRaised(f"distance_to(topological={topo}) raised {type(e).__name__}: {e}")


def _lca(a, b):
    try:
        return a.lowest_common_ancestor(b)
    except Exception as e:  # noqa: BLE001
        raise _QueryRaised(f"lowest_common_ancestor raised {type(e).__name__}: {e}")


def _layout_variants(base, big):
    """The same matrix in other memory layouts / dtypes: (name, array) pairs; all must give the reference tree."""
    import numpy as np
    n = base.shape[0]
    out = [("float64-C", base.copy()), ("float64-F", np.asfortranarray(base)), ("float64-transposed-view", base.T),
           ("float32-C", base.astype(np.float32))]
    if big:
        return out
    wide = np.zeros((2 * n + 1, 3 * n + 2))
    wide[1::2, 2::3][:n, :n] = base
    out.append(("float64-strided", wide[1::2, 2::3][:n, :n]))
    cont = base[::-1, ::-1].copy()
    out.append(("float64-negative-strides", cont[::-1, ::-1]))
    ro = base.copy()
    ro.setflags(write=False)
    out.append(("float64-read-only", ro))
    out.append(("float64-byteswapped", base.astype(">f8")))
    out.append(("float32-F", np.asfortranarray(base.astype(np.float32))))
    out.append(("longdouble", base.astype(np.longdouble)))
    if n and np.all(base == np.floor(base)):
        mx = float(base.max()) if base.size else 0.0
        for dt, lim in ((np.int64, 2.0**62), (np.uint64, 2.0**62), (np.int32, 2.0**31 - 1), (np.uint16, 65535.0),
                        (np.int8, 127.0), (np.uint8, 255.0)):
            if mx <= lim:
                out.append((np.dtype(dt).name + "-C", base.astype(dt)))
        if mx <= 2.0**31 - 1:
            out.append(("int32-F", np.asfortranarray(base.astype(np.int32))))
    if base.size and float(base.max()) < 60000.0 and np.all(base.astype(np.float16).astype(np.float64) == base):
        out.append(("float16-C", base.astype(np.float16)))
    return out


def _input_checks(fn, algo, M, n, desc, big):
    """Memory layout and dtype of a valid matrix do not matter, the caller's array is never modified, and a
    second call on the same array gives the same tree."""
    import warnings
    import numpy as np
    from biotite.sequence import phylo
    base = np.array([[float(x) for x in row] for row in M], dtype=np.float64).reshape(n, n)
    ref = None
    for name, arr in _layout_variants(base, big):
        before = arr.tobytes()
        flags = (arr.flags.c_contiguous, arr.flags.f_contiguous, arr.flags.writeable, arr.dtype.str, arr.strides)
        try:
            with warnings.catch_warnings():
                warnings.simplefilter("ignore")      # float16 input: numpy warns when comparing with MAX_FLOAT
                t1 = fn(arr)
                same1 = arr.tobytes() == before
                t2 = fn(arr)
                same2 = arr.tobytes() == before
        except Exception as e:  # noqa: BLE001
            return [(f"C19/{algo}/rejects-valid-matrix-layout" if name != "float64-C" else f"C19/{algo}/rejects-valid-matrix",
                     f"{name} array: {type(e).__name__}: {e} for {desc}")]
        if not (same1 and same2) or flags != (arr.flags.c_contiguous, arr.flags.f_contiguous, arr.flags.writeable,
                                               arr.dtype.str, arr.strides):
            return [(f"C19/{algo}/input-matrix-modified",
                     f"the caller's {name} distance matrix was changed by {algo}: {desc}")]
        if not isinstance(t1, phylo.Tree) or not isinstance(t2, phylo.Tree):
            return [(f"C19/{algo}/returns-no-tree", f"{name} array: {t1!r} / {t2!r} for {desc}")]
        if t1.to_newick() != t2.to_newick():
            return [(f"C19/{algo}/second-call-differs",
                     f"two calls on the same {name} array give {t1.to_newick()[:120]} and {t2.to_newick()[:120]}: {desc}")]
        if ref is None:
            ref = t1.to_newick()
        elif t1.to_newick() != ref:
            return [(f"C19/{algo}/layout-or-dtype-changes-tree",
                     f"{name} array gives {t1.to_newick()[:150]} but the C-ordered float64 copy gives {ref[:150]}: {desc}")]
    return []


def _oracle_matrix(case):
    """Wrapper: finite matrices whose float32 row sums can overflow are reported under their own key."""
    raw = case.get("matrix")
    risk = False
    if raw is not None and not case.get("exact"):
        vals = [float(x) for row in raw for x in row]
        fin = [v for v in vals if math.isfinite(v)]
        risk = bool(fin) and len(fin) == len(vals) and max(fin) < 3.4e38 and max(fin) * 2 * max(len(raw), 2) > 3.4e38
    try:
        r = _oracle_matrix_inner(case)
    except (ValueError, OverflowError, ZeroDivisionError) as e:
        if not risk:
            raise
        r = [("nan-or-inf-in-result", f"{type(e).__name__}: {e} for {str(raw)[:300]}")]
    if risk and r:
        return [(f"C19/{case['algo']}/float32-overflow-on-finite-matrix", f"[{k}] {m}") for k, m in r[:1]]
    return r


def _oracle_shape(case):
    """Arrays that are not square matrices are refused with an exception (in a forked child: never a crash)."""
    from common import sandbox

    def call(algo, shape):
        import numpy as np
        from biotite.sequence import phylo
        a = np.zeros(shape)
        before = a.tobytes()
        try:
            r = (phylo.upgma if algo == "upgma" else phylo.neighbor_joining)(a)
        except (ValueError, IndexError, TypeError) as e:
            return ("refused", type(e).__name__, a.tobytes() == before)
        return ("returned", type(r).__name__, a.tobytes() == before)
    res = sandbox.run_forked(call, case["algo"], tuple(case["shape"]), timeout=60)
    if res[0] != "ok":
        return [(f"C19/{case['algo']}/crash-on-bad-shape", f"shape {case['shape']}: {res}")]
    verdict, what, same = res[1]
    if not same:
        return [(f"C19/{case['algo']}/input-matrix-modified", f"zeros{tuple(case['shape'])} changed by a refused call")]
    shape = case["shape"]
    square = len(shape) == 2 and shape[0] == shape[1]
    if verdict == "returned" and not (square and case["algo"] == "upgma" and what == "Tree"):
        return [(f"C19/{case['algo']}/accepts-non-square", f"shape {shape} returned {what}")]
    return []


def _oracle_deep(case):
    """A very deep tree must not kill the process (RecursionError is acceptable)."""
    from common import sandbox

    def run(depth):
        from biotite.sequence.phylo import Tree, TreeNode
        node = TreeNode(index=0)
        for _ in range(depth):
            node = TreeNode([node], [1.0])
        try:
            t = Tree(TreeNode([node, TreeNode(index=1)], [1.0, 1.0]))
            return t.get_distance(0, 1)
        except RecursionError:
            return "RecursionError"
    res = sandbox.run_forked(run, case["depth"], timeout=120)
    if res[0] == "crash":
        return [("C19/crash/deep-tree-recursion-segfault",
                 f"Tree() on a chain of {case['depth']} one-child nodes kills the process (signal {res[1]})")]
    if res[0] == "timeout":
        return [("C19/crash/deep-tree-hang", f"depth {case['depth']}")]
    if res[0] == "ok" and res[1] not in ("RecursionError", float(case["depth"] + 2)):
        return [("C19/distance/get_distance-vs-path-sum", f"deep chain: {res[1]} instead of {case['depth'] + 2}")]
    return []


def _oracle_matrix_inner(case):
    import numpy as np
    from biotite.sequence import phylo

    algo = case["algo"]
    big = "big" in case
    raw = _big_matrix(case["big"]) if big else case["matrix"]
    desc = ("big comb matrix " + str(case["big"])) if big else str(case["matrix"])[:600]
    M = [[(x if isinstance(x, float) else Fraction(x)) for x in row] for row in raw]
    n = len(M)
    arr = np.array([[float(x) for x in row] for row in M], dtype=np.float64).reshape(n, n)
    fn = phylo.upgma if algo == "upgma" else phylo.neighbor_joining
    finite = all(math.isfinite(float(x)) and float(x) < 3.4e38 for row in M for x in row)
    # --- classes the documented contract refuses: ValueError for asymmetric (beyond np.allclose), negative,
    #     NaN / infinite entries and, for neighbour joining, fewer than four taxa
    asym = finite and any(abs(float(M[j][i]) - float(M[i][j])) > 1e-8 + 1e-5 * abs(float(M[i][j]))
                          for i in range(n) for j in range(n))
    negative = any(float(x) < 0 for row in M for x in row if not math.isnan(float(x)))
    must_refuse = (not finite) or asym or negative or (algo == "nj" and n < 4) or n == 0
    if must_refuse:
        before = arr.tobytes()
        try:
            r = fn(arr)
        except Exception as e:  # noqa: BLE001
            if arr.tobytes() != before:
                return [(f"C19/{algo}/input-matrix-modified", f"a refused call changed the matrix {desc}")]
            if not isinstance(e, ValueError) and not (n == 0 and isinstance(e, IndexError)):
                return [(f"C19/{algo}/wrong-exception-for-invalid-matrix",
                         f"{type(e).__name__}: {e} (the documented refusal is ValueError) for {desc}")]
            return []
        return [(f"C19/{algo}/accepts-non-finite" if not finite else f"C19/{algo}/accepts-invalid-matrix",
                 f"{algo} returned {type(r).__name__} for a matrix that is "
                 f"{'non-finite' if not finite else 'asymmetric' if asym else 'negative' if negative else 'too small'}: {desc}")]
    # --- accepted although not a distance matrix in the strict sense: non-zero diagonal (never checked by the
    #     code).  UPGMA never reads the diagonal; NJ adds it to the divergences (model does the same).
    if any(M[i][i] != 0 for i in range(n)):
        try:
            t = fn(arr)
        except Exception as e:  # noqa: BLE001
            return [(f"C19/{algo}/rejects-valid-matrix", f"non-zero diagonal: {type(e).__name__}: {e} for {desc}")]
        if not isinstance(t, phylo.Tree) or sorted(int(x) for x in t.root.get_indices()) != list(range(n)):
            return [(f"C19/{algo}/leaves", f"non-zero diagonal: result {t!r} for {desc}")]
        if algo == "upgma":
            z = arr.copy()
            np.fill_diagonal(z, 0)
            if fn(z).to_newick() != t.to_newick():
                return [("C19/upgma/diagonal-changes-tree", f"{desc}")]
        return []
    if n == 1 and algo == "upgma":
        t = fn(arr)
        return [] if isinstance(t, phylo.Tree) and len(t) == 1 else [("C19/upgma/leaves", f"1x1 matrix gives {t!r}")]
    # --- symmetric only up to np.allclose (rounding noise): judged against the symmetrised matrix
    noise = max([abs(float(M[j][i]) - float(M[i][j])) for i in range(n) for j in range(n)] + [0.0])
    if noise:
        M = [[(float(M[i][j]) + float(M[j][i])) / 2 for j in range(n)] for i in range(n)]
    valid = True
    v = []
    arr_before = arr.tobytes()
    try:
        tree = fn(arr)
    except Exception as e:  # noqa: BLE001
        if arr.tobytes() != arr_before:
            return [(f"C19/{algo}/input-matrix-modified", f"a refused call changed the matrix {desc}")]
        return [(f"C19/{algo}/rejects-valid-matrix", f"{type(e).__name__}: {e} for {desc}")]
    if not isinstance(tree, phylo.Tree):
        return [(f"C19/{algo}/returns-no-tree", f"{algo} returned {tree!r} instead of a Tree for {desc}")]
    exact = bool(case.get("exact"))
    mx = max([float(x) for row in M for x in row] + [1.0])
    tol = 0 if exact else 2e-5 * mx * n + 4 * n * noise
    # (1) every input index is exactly one leaf
    idx = sorted(int(x) for x in tree.root.get_indices())
    if idx != list(range(n)) or len(tree) != n or any(tree.leaves[i] is None or tree.leaves[i].index != i for i in range(n)):
        return [(f"C19/{algo}/leaves", f"leaf indices {idx} for n={n}: {desc}")]
    dep = _depths(tree.root)
    # (2) distance queries equal explicit path sums
    probe = range(n) if n <= 40 else sorted({0, 1, 2, 100, 254, 255, 256, 257, n // 2, n - 3, n - 2, n - 1} & set(range(n)))
    for i in probe:
        for j in probe:
            ps, cnt, _ = _path_sum(tree.leaves[i], tree.leaves[j])
            got = Fraction(_gd(tree, i, j))
            if not _close(got, ps, tol) or _gd(tree, i, j, True) != cnt:
                return [(f"C19/{algo}/get_distance-vs-path-sum", f"({i},{j}): {float(got)} vs {float(ps)}")]
    if algo == "upgma":
        hroot = None
        for node, d in dep.values():
            if node.is_leaf():
                if hroot is None:
                    hroot = d
                if not _close(d, hroot, tol):
                    v.append(("C19/upgma/not-ultrametric", f"leaf depths {float(d)} and {float(hroot)}: {desc}"))
                    return v
        for node, d in dep.values():
            if node.is_leaf():
                continue
            ch = node.children
            if len(ch) != 2:
                return [("C19/upgma/not-binary", f"{len(ch)} children")]
            A = [int(x) for x in ch[0].get_indices()]
            B = [int(x) for x in ch[1].get_indices()]
            s = sum((M[a][b] for a in A for b in B), Fraction(0) if exact else 0.0)
            avg = (s / (len(A) * len(B))) if exact else s / (len(A) * len(B))
            height = hroot - d
            if not _close(height, avg / 2, tol):
                return [("C19/upgma/merge-height-vs-average-linkage",
                         f"clusters {A if len(A) <= 12 else str(A[:12]) + '…(' + str(len(A)) + ')'}|{B if len(B) <= 12 else str(B[:12]) + '…(' + str(len(B)) + ')'}: height {float(height)} but average linkage/2 = {float(avg) / 2}: {desc}")]
            for c in ch:
                if float(c.distance) < -tol:
                    return [("C19/upgma/negative-branch", f"{c.distance}")]
    if not noise:
        v += _input_checks(fn, algo, M, n, desc, big)
    if v:
        return v
    if algo == "nj":
        # leaves joined directly with each other: node_dist_i + node_dist_j = d(i,j) whatever the matrix
        # (C19_nj_join_lengths / the exact three-way join), also when one of the two lengths is negative
        for node, _d in dep.values():
            if node.is_leaf():
                continue
            kids = [c for c in node.children if c.is_leaf()]
            for a in kids:
                for b in kids:
                    if a is not b:
                        got = Fraction(a.distance) + Fraction(b.distance)
                        if not _close(got, M[a.index][b.index], tol):
                            return [("C19/nj/sibling-leaves-distance",
                                     f"leaves {a.index},{b.index} are joined directly with branches {a.distance} + {b.distance} "
                                     f"but d = {float(M[a.index][b.index])}: {desc}")]
    if case.get("additive") and algo == "nj":
        for i in range(n):
            for j in range(n):
                got = Fraction(_gd(tree, i, j))
                if not _close(got, M[i][j], tol):
                    return [("C19/nj/additive-distance-not-recovered",
                             f"d({i},{j}) = {float(got)} but matrix has {float(M[i][j])}: {desc}")]
    return v


def _fr(x):
    """Exact value of a float; non-finite values as tags (nan compares equal to nan here)."""
    x = float(x)
    return Fraction(x) if math.isfinite(x) else repr(x)


def _struct(node, with_dist):
    if node.is_leaf():
        return node.index
    return [[(_fr(c.distance) if with_dist else 0), _struct(c, with_dist)] for c in node.children]


def _pair_dists(tree):
    n = len(tree)
    return [[_fr(_gd(tree, i, j)) for j in range(n)] for i in range(n)]


def _oracle_newick(case):
    import random as _r
    from biotite.sequence import phylo

    labels, inc = case["labels"], bool(case["inc"])
    labels_before = None if labels is None else list(labels)
    r = _oracle_newick_inner(case, phylo, labels, inc)
    if labels != labels_before:
        return [("C19/newick/labels-list-modified", f"labels {labels_before!r} became {labels!r}")]
    return r


def _oracle_newick_inner(case, phylo, labels, inc):
    import random as _r
    tree = phylo.Tree(_build(case["tree"]))
    n = len(tree)
    used = labels[:n] if labels is not None else []
    has_illegal = any(ch in l for l in used for ch in ILLEGAL)
    try:
        s = tree.to_newick(labels=labels, include_distance=inc)
    except Exception as e:  # noqa: BLE001
        # documented/legitimate refusals only: ValueError for an illegal character, IndexError for a label list
        # that is too short (UnboundLocalError for the empty list: the source's loop variable)
        short = labels is not None and any(i >= len(labels) for i in _leaves(case["tree"]))
        if has_illegal and isinstance(e, ValueError):
            return []
        if short and isinstance(e, (IndexError, UnboundLocalError)):
            return []
        if has_illegal or short:
            return [("C19/newick/wrong-exception-for-bad-labels", f"{type(e).__name__}: {e} for labels {labels!r}")]
        return [("C19/newick/writer-rejects-valid-tree", f"{type(e).__name__}: {e}")]
    if has_illegal:
        return [("C19/newick/illegal-character-accepted", f"labels {labels!r} written as {s!r}")]
    s2 = _inject_ws(_r.Random(case["ws_seed"]), s) if case.get("ws_seed") is not None else s
    if any(c.isspace() for l in used for c in l):
        key = "C19/newick/label-with-whitespace"
    elif any(l == "" for l in used):
        key = "C19/newick/empty-label"
    elif len(set(used)) != len(used):
        key = "C19/newick/duplicate-labels-read-silently"
    else:
        key = "C19/newick/roundtrip"
    try:
        back = phylo.Tree.from_newick(s2, labels)
    except Exception as e:  # noqa: BLE001
        return [(key, f"{s2!r} (labels {labels!r}) cannot be read back: {type(e).__name__}: {e}")]
    if case.get("kind") == "newick" and not has_illegal:
        text = _py_newick(case["tree"], labels, inc) + ";"
        try:
            direct = phylo.Tree.from_newick(text, labels)
            if _struct(direct.root, inc) != _json_struct(case["tree"], inc):
                return [("C19/newick/read-differs-from-text" if key == "C19/newick/roundtrip" else key,
                         f"{text!r} is read as {_dump(direct.root)}")]
            if _struct(tree.root, True) != _json_struct(case["tree"]):
                return [("C19/construct/branch-length-altered", f"{_dump(tree.root)} built for {_tok(case['tree'])}")]
        except Exception as e:  # noqa: BLE001
            if key == "C19/newick/roundtrip":
                return [(key, f"{text!r} cannot be read: {type(e).__name__}: {e}")]
    if _struct(back.root, inc) != _struct(tree.root, inc):
        return [(key, f"{s2!r} reads back as a different tree: {back.to_newick(include_distance=inc)} vs {tree.to_newick(include_distance=inc)}")]
    if inc and (back != tree or _pair_dists(back) != _pair_dists(tree)):
        return [(key, f"{s2!r}: tree == / leaf distances differ after the round trip")]
    return []


def _json_struct(tree, with_dist=True):
    """The structure the JSON case describes (same shape as `_struct`)."""
    if isinstance(tree, int):
        return tree
    return [[(Fraction(d) if with_dist else 0), _json_struct(c, with_dist)] for d, c in tree]


def _oracle_dist(case):
    from biotite.sequence import phylo
    root = _build(case["tree"])
    tree = phylo.Tree(root)
    # the objects hold exactly the branch lengths they were constructed with (dyadic: float32 exact)
    if _struct(root, True) != _json_struct(case["tree"]):
        return [("C19/construct/branch-length-altered",
                 f"TreeNode(children, distances) stores {_dump(root)} for the requested {_tok(case['tree'])}")]
    n = len(tree)
    want = _additive(case["tree"], n)
    for i in range(n):
        for j in range(n):
            if Fraction(_gd(tree, i, j)) != want[i][j]:
                return [("C19/distance/differs-from-given-branch-lengths",
                         f"leaves {i},{j}: {_gd(tree, i, j)} but the branch lengths given add up to {float(want[i][j])}: {_tok(case['tree'])}")]
    for i, j, topo in case["pairs"]:
        ps, cnt, _ = _path_sum(tree.leaves[i], tree.leaves[j])
        got = _gd(tree, i, j, bool(topo))
        if Fraction(got) != (cnt if topo else ps):
            return [("C19/distance/get_distance-vs-path-sum", f"leaves {i},{j} topo={topo}: {got} vs {float(cnt if topo else ps)}")]
    for p, q, topo in case["npairs"]:
        a, b = _at(root, p), _at(root, q)
        ps, cnt, lca = _path_sum(a, b)
        if _lca(a, b) is not lca or _lca(b, a) is not lca:
            return [("C19/lca/not-lowest-common-ancestor", f"paths {p},{q}")]
        got = _dt(a, b, bool(topo))
        if Fraction(got) != (cnt if topo else ps) or _dt(b, a, bool(topo)) != got:
            return [("C19/distance/distance_to-vs-path-sum", f"paths {p},{q} topo={topo}: {got} vs {float(cnt if topo else ps)}")]
    return []


def _oracle_binary(case, tol=0):
    from biotite.sequence import phylo
    tree = phylo.Tree(_build(case["tree"]))
    before = _dump(tree.root)
    b = phylo.as_binary(tree)
    if not isinstance(b, phylo.Tree):
        return [("C19/as_binary/tree-result-type", type(b).__name__)]
    stack = [b.root]
    while stack:
        x = stack.pop()
        if not x.is_leaf():
            if len(x.children) != 2:
                return [("C19/as_binary/not-binary", f"{len(x.children)} children in {b.to_newick()}")]
            stack += list(x.children)
    if [int(x) for x in b.root.get_indices()] != [int(x) for x in tree.root.get_indices()] or len(b) != len(tree):
        return [("C19/as_binary/leaves-changed", f"{b.to_newick()} vs {tree.to_newick()}")]
    n = len(tree)
    for i in range(n):
        for j in range(n):
            x, y = _fr(_gd(b, i, j)), _fr(_gd(tree, i, j))
            if isinstance(x, str) or isinstance(y, str):
                if tol and (isinstance(x, str) or abs(float(x)) > 1e38) and (isinstance(y, str) or abs(float(y)) > 1e38):
                    continue        # float32 overflow of a sum of huge branch lengths: order of additions matters
                if x != y:
                    return [("C19/as_binary/distance-changed", f"d({i},{j}) {y} -> {x}: {tree.to_newick()[:200]}")]
                continue
            if not _close(x, y, tol * max(1.0, abs(float(y)))):
                return [("C19/as_binary/distance-changed", f"d({i},{j}) {float(y)} -> {float(x)}: {tree.to_newick()} -> {b.to_newick()}")]
    if _dump(tree.root) != before:
        return [("C19/as_binary/input-modified", before)]
    return []


def _oracle_copy(case):
    from biotite.sequence import phylo
    tree = phylo.Tree(_build(case["tree"]))
    c = tree.copy()
    if not (c == tree) or _dump(c.root) != _dump(tree.root) or len(c) != len(tree) or hash(c) != hash(tree):
        return [("C19/copy/not-equal", f"{c.to_newick()} vs {tree.to_newick()}")]
    ids = {id(x) for x, _ in _depths(tree.root).values()}
    if any(id(x) in ids for x, _ in _depths(c.root).values()):
        return [("C19/copy/shares-nodes", tree.to_newick())]
    if _pair_dists(c) != _pair_dists(tree):
        return [("C19/copy/distances-differ", tree.to_newick())]
    return []


def _snapshot(tree):
    n = len(tree)
    return (n, [tree.leaves[i].index if tree.leaves[i] is not None else None for i in range(n)],
            [[_gd(tree, i, j) for j in range(n)] for i in range(n)], tree.to_newick(), _dump(tree.root),
            tree.root.get_leaf_count(), [int(x) for x in tree.root.get_indices()])


def _scribble(x):
    """Damage a returned container in every way its type allows."""
    import numpy as np
    if isinstance(x, list):
        x.reverse()
        if x:
            x.pop()
        x.append(None)
        x.clear()
        x.extend([None, None, None])
    elif isinstance(x, np.ndarray):
        try:
            x[...] = -7
            x.sort()
        except Exception:  # noqa: BLE001  (read-only array is fine)
            pass
    elif isinstance(x, dict):
        x.clear()
    elif isinstance(x, set):
        x.clear()


def _oracle_accessors(case):
    """Nothing a Tree/TreeNode hands out gives write access to its internal state."""
    from biotite.sequence import phylo
    tree = phylo.Tree(_build(case["tree"]))
    ref = phylo.Tree(_build(case["tree"]))
    snap = _snapshot(tree)
    nodes = [x for x, _ in _depths(tree.root).values()]
    accessors = [("Tree.leaves", lambda: tree.leaves), ("Tree.root", lambda: tree.root),
                 ("TreeNode.get_leaves", lambda: tree.root.get_leaves()),
                 ("TreeNode.get_indices", lambda: tree.root.get_indices()),
                 ("TreeNode.get_leaf_count", lambda: tree.root.get_leaf_count()),
                 ("Tree.as_graph", lambda: tree.as_graph())]
    for k, node in enumerate(nodes[:6]):
        accessors.append(("TreeNode.children", lambda node=node: node.children))
        accessors.append(("TreeNode.get_leaves", lambda node=node: node.get_leaves()))
        accessors.append(("TreeNode.get_indices", lambda node=node: node.get_indices()))
    for name, get in accessors:
        try:
            got = get()
        except Exception as e:  # noqa: BLE001
            return [("C19/accessor/raises", f"{name} raised {type(e).__name__}: {e}")]
        try:
            _scribble(got)
        except Exception:  # noqa: BLE001
            pass
        try:
            now = _snapshot(tree)
            same = now == snap and tree == ref and len(tree.leaves) == snap[0]
        except Exception as e:  # noqa: BLE001
            return [(f"C19/accessor/{name}-exposes-internal-state",
                     f"after modifying the object returned by {name} the tree is broken: {type(e).__name__}: {e}; tree {snap[3]}")]
        if not same:
            return [(f"C19/accessor/{name}-exposes-internal-state",
                     f"modifying the object returned by {name} changed the tree {snap[3]}: "
                     f"len {snap[0]} -> {now[0]}, indices {snap[1]} -> {now[1]}, newick -> {now[3]}")]
    return []


def _perm_children(node, rr):
    """Rebuild a subtree with the children of every node in a shuffled order."""
    from biotite.sequence.phylo import TreeNode
    if node.is_leaf():
        return TreeNode(index=node.index)
    ch = list(node.children)
    rr.shuffle(ch)
    return TreeNode([_perm_children(c, rr) for c in ch], [c.distance for c in ch])


def _oracle_api(case):
    """Reuse of one object, other spellings of the same argument, and the less used entry points."""
    import random as _r
    import numpy as np
    from biotite.sequence import phylo
    rr = _r.Random(case["seed"])
    tree = phylo.Tree(_build(case["tree"]))
    fresh = phylo.Tree(_build(case["tree"]))
    n = len(tree)
    snap = _snapshot(tree)
    V = []

    def bad(key, msg):
        V.append((f"C19/api/{key}", f"{msg}; tree {snap[3][:200]}"))
    # --- state across calls on one object: every read twice, interleaved with the producers
    reads1 = (tree.to_newick(), str(tree), hash(tree), len(tree), tree.to_newick(include_distance=False))
    b1 = phylo.as_binary(tree)
    c1 = tree.copy()
    g1 = tree.as_graph()
    reads2 = (tree.to_newick(), str(tree), hash(tree), len(tree), tree.to_newick(include_distance=False))
    b2 = phylo.as_binary(tree)
    if reads1 != reads2 or _snapshot(tree) != snap or _snapshot(fresh) != snap:
        bad("state-across-calls", "reads on one Tree object changed after as_binary/copy/as_graph")
    if b1.to_newick() != b2.to_newick() or _snapshot(b1) != _snapshot(b2) or _snapshot(c1) != snap:
        bad("state-across-calls", "as_binary/copy twice on one object differ")
    if str(tree) != tree.to_newick() or str(tree.root) + ";" != tree.to_newick():
        bad("str", f"str(tree) = {str(tree)[:80]}")
    if not (tree == fresh and fresh == tree and hash(tree) == hash(fresh) and not (tree != fresh)):
        bad("eq-hash", "equal trees compare unequal or hash differently")
    # __eq__/__hash__ ignore the order of children, but not a branch length
    perm = phylo.Tree(_perm_children(tree.root, rr))
    if not (perm == tree and hash(perm) == hash(tree)):
        bad("eq-hash", f"tree with permuted children {perm.to_newick()[:120]} is not == / hash differs")
    if _pair_dists(perm) != snap[2]:
        bad("eq-hash", "permuting children changed leaf distances")
    nodes = [x for x, _ in _depths(tree.root).values()]
    inner = [x for x in nodes if not x.is_leaf()]
    if n >= 2 and inner:
        other = _build(case["tree"])
        victim = rr.choice([x for x, _ in _depths(other).values() if x.parent is not None])
        par = victim.parent
        rebuilt = None

        def rebuild(node):
            from biotite.sequence.phylo import TreeNode
            if node.is_leaf():
                return TreeNode(index=node.index)
            return TreeNode([rebuild(c) for c in node.children],
                            [c.distance + (0.25 if c is victim else 0.0) for c in node.children])
        rebuilt = phylo.Tree(rebuild(other))
        if rebuilt == tree and par is not None:
            bad("eq-hash", "a tree with one branch length changed by 0.25 still compares equal")
    # --- node properties
    for x in nodes:
        if x.is_leaf() != (x.children is None) or (x.index is None) != (not x.is_leaf()):
            bad("node-properties", "is_leaf / children / index disagree")
        if (x.parent is None) != (x is tree.root) or x.is_root() != (x is tree.root):
            bad("node-properties", "parent / is_root disagree")
        if x is not tree.root and (x.distance is None or not any(c is x for c in x.parent.children)):
            bad("node-properties", "distance / parent.children disagree")
        if x.get_leaf_count() != len(x.get_leaves()) or [l.index for l in x.get_leaves()] != [int(i) for i in x.get_indices()]:
            bad("node-properties", "get_leaf_count / get_leaves / get_indices disagree")
    if tree.root.distance is not None:
        bad("node-properties", "root.distance is not None")
    # --- as_graph: a tree with the same edge lengths
    if len(nodes) == 1:
        pass        # as_graph() only adds edges: a single-leaf tree gives the empty graph (nothing to compare)
    elif g1.number_of_nodes() != len(nodes) or g1.number_of_edges() != len(nodes) - 1:
        bad("as_graph", f"{g1.number_of_nodes()} nodes / {g1.number_of_edges()} edges for {len(nodes)} tree nodes")
    else:
        und = g1.to_undirected()
        import networkx as nx
        for _ in range(3):
            i, j = rr.randrange(n), rr.randrange(n)
            try:
                hop = nx.shortest_path(und, i, j)       # the unique path of a tree (weights may be negative)
                dg = sum(und[a][b]["distance"] for a, b in zip(hop, hop[1:]))
            except Exception as e:  # noqa: BLE001
                bad("as_graph", f"no path {i}-{j}: {type(e).__name__}")
                break
            if abs(dg - snap[2][i][j]) > 1e-9 * max(1.0, abs(snap[2][i][j])):
                bad("as_graph", f"graph distance {i}-{j} = {dg}, tree says {snap[2][i][j]}")
    # --- Tree level and TreeNode level of the same operation, every optional parameter
    labels = ["L%d_%s" % (k, "x" * (k % 3)) for k in range(n)]
    for kw in ({}, {"include_distance": False}, {"labels": labels}, {"labels": labels, "include_distance": False},
               {"round_distance": 2}, {"labels": labels, "round_distance": 0}):
        a = tree.to_newick(**kw)
        b = tree.root.to_newick(**kw) + ";"
        pos = tree.to_newick(kw.get("labels"), kw.get("include_distance", True), kw.get("round_distance"))
        if a != b or a != pos:
            bad("levels", f"Tree.to_newick({kw}) = {a[:80]} but TreeNode/positional give {b[:80]} / {pos[:80]}")
        lab = kw.get("labels")
        back = phylo.Tree.from_newick(a, lab)
        node_back, d_back = phylo.TreeNode.from_newick(a[:-1], lab)
        if _dump(back.root) != _dump(node_back) or d_back != 0:
            bad("levels", f"Tree.from_newick and TreeNode.from_newick differ on {a[:80]}")
        if _struct(back.root, False) != _struct(tree.root, False):
            bad("levels", f"{a[:80]} read back with another topology")
        if "round_distance" in kw:
            k = kw["round_distance"]
            ok = all(abs(float(x) - float(y)) <= 0.5 * 10 ** (-k) + 1e-6 * abs(float(y)) + 1e-12
                     for x, y in zip(_flat_dists(back.root), _flat_dists(tree.root)))
            if not ok or any(len(tok.split(".")[1]) != k if k else "." in tok
                             for tok in re.findall(r":(-?[0-9.]+)", a)):
                bad("round_distance", f"round_distance={k} wrote {a[:100]}")
    # --- same value, another spelling
    lab_variants = [tuple(labels), np.array(labels), [np.str_(l) for l in labels]]
    for lv in lab_variants:
        try:
            if tree.to_newick(labels=lv) != tree.to_newick(labels=labels):
                bad("spelling", f"labels as {type(lv).__name__} give another string")
        except Exception as e:  # noqa: BLE001
            bad("spelling", f"labels as {type(lv).__name__} of {type(lv[0]).__name__}: {type(e).__name__}: {e}")
    for _ in range(4):
        i, j = rr.randrange(n), rr.randrange(n)
        want = snap[2][i][j]
        wt = tree.get_distance(i, j, True)
        for conv in (np.int8, np.int16, np.int32, np.int64, np.uint8, np.uint16, np.uint32, np.uint64, np.intp):
            if i > 127 or j > 127:
                continue
            try:
                got = tree.get_distance(conv(i), conv(j))
                gt = tree.get_distance(conv(i), conv(j), np.bool_(True))
                g1_ = tree.get_distance(i, j, 1)
            except Exception as e:  # noqa: BLE001
                bad("spelling", f"get_distance({conv.__name__}({i}), {conv.__name__}({j})): {type(e).__name__}: {e}")
                continue
            if got != want or gt != wt or g1_ != wt:
                bad("spelling", f"get_distance({conv.__name__}({i}), {conv.__name__}({j})) = {got}, int arguments give {want}")
        try:
            neg = tree.get_distance(i - n, j - n)
            if neg != want:
                bad("spelling", f"get_distance({i - n}, {j - n}) = {neg} but get_distance({i}, {j}) = {want}")
        except Exception as e:  # noqa: BLE001
            bad("spelling", f"get_distance({i - n}, {j - n}): {type(e).__name__}: {e}")
        a, b = tree.leaves[i], tree.leaves[j]
        if a.distance_to(b) != want or a.distance_to(b, topological=True) != wt or b.distance_to(a, False) != want:
            bad("levels", "TreeNode.distance_to and Tree.get_distance differ")
    for conv in (np.int8, np.int32, np.int64, np.uint8, np.uint64, int):
        try:
            nd = phylo.TreeNode(index=conv(3))
            if nd.index != 3 or not nd.is_leaf():
                bad("spelling", f"TreeNode(index={conv.__name__}(3)).index = {nd.index}")
        except Exception as e:  # noqa: BLE001
            bad("spelling", f"TreeNode(index={conv.__name__}(3)): {type(e).__name__}: {e}")
    for val in (1.5, np.float64(1.5), 2, True):
        try:
            nd = phylo.TreeNode([phylo.TreeNode(index=0)], [val])
            if nd.children[0].distance != float(val):
                bad("spelling", f"distance given as {type(val).__name__} stored as {nd.children[0].distance}")
        except Exception as e:  # noqa: BLE001
            bad("spelling", f"distance given as {type(val).__name__}: {type(e).__name__}: {e}")
    for val in (np.float32(1.5), np.int64(2), np.float16(1.5)):
        # refused by the explicit isinstance(float|int) check: must stay a clean TypeError, never a wrong value
        try:
            nd = phylo.TreeNode([phylo.TreeNode(index=0)], [val])
            if nd.children[0].distance != float(val):
                bad("spelling", f"distance given as {type(val).__name__} stored as {nd.children[0].distance}")
        except TypeError:
            pass
    for seq in (tuple, list, np.array):
        try:
            kids = [phylo.TreeNode(index=0), phylo.TreeNode(index=1)]
            container = seq(kids) if seq is not np.array else np.array(kids, dtype=object)
            nd = phylo.TreeNode(container, seq([1.0, 2.5]) if seq is not np.array else [1.0, 2.5])
            if [c.distance for c in nd.children] != [1.0, 2.5] or nd.children[0] is not kids[0]:
                bad("spelling", f"children given as {seq.__name__}")
        except TypeError:
            pass
    if _snapshot(tree) != snap:
        bad("state-across-calls", "the tree changed during the API walk")
    return V[:1]


def _flat_dists(node):
    out = []
    if not node.is_leaf():
        for c in node.children:
            out.append(c.distance)
            out += _flat_dists(c)
    return out


def _oracle_refused(case):
    """A call that raises changes neither the receiver nor its arguments."""
    import random as _r
    from biotite import InvalidFileError
    from biotite.sequence import phylo
    rr = _r.Random(case["seed"])
    tree = phylo.Tree(_build(case["tree"]))
    n = len(tree)
    snap = _snapshot(tree)
    V = []
    labels = ["l%d" % k for k in range(n)]

    def refused(name, fn, excs, args_check=None):
        try:
            fn()
        except excs:
            pass
        except _QueryRaised:
            pass
        except Exception as e:  # noqa: BLE001
            V.append((f"C19/refused/{name}-unexpected-exception", f"{type(e).__name__}: {e}"))
            return
        else:
            V.append((f"C19/refused/{name}-not-refused", f"no exception; tree {snap[3][:150]}"))
            return
        if _snapshot(tree) != snap:
            V.append((f"C19/refused/{name}-changes-tree", f"tree {snap[3][:150]}"))
        if args_check is not None and not args_check():
            V.append((f"C19/refused/{name}-changes-arguments", f"tree {snap[3][:150]}"))
    bad_labels = list(labels)
    bad_labels[rr.randrange(n)] = "a" + rr.choice(ILLEGAL) + "b"
    keep = list(bad_labels)
    refused("to_newick-illegal-label", lambda: tree.to_newick(labels=bad_labels), (ValueError,), lambda: bad_labels == keep)
    short = labels[:n - 1]
    refused("to_newick-short-labels", lambda: tree.to_newick(labels=short), (IndexError, UnboundLocalError),
            lambda: short == labels[:n - 1])
    refused("get_distance-out-of-range", lambda: tree.get_distance(0, n + rr.randint(0, 3)), (IndexError,))
    refused("from_newick-garbage", lambda: phylo.Tree.from_newick("((0,1)", None), (InvalidFileError, ValueError))
    lab2 = list(labels)
    refused("from_newick-unknown-label", lambda: phylo.Tree.from_newick("(zz,l0);", lab2), (ValueError,), lambda: lab2 == labels)
    foreign = phylo.Tree(_build(case["tree"]))
    refused("distance_to-other-tree", lambda: tree.leaves[0].distance_to(foreign.leaves[0]), (phylo.TreeError,))
    inner = [x for x, _ in _depths(tree.root).values() if x.parent is not None]
    if inner:
        x = rr.choice(inner)
        refused("as_root-on-child", lambda: x.as_root(), (phylo.TreeError,))
        refused("Tree-on-child", lambda: phylo.Tree(x), (phylo.TreeError,))
        kids, ds = [phylo.TreeNode(index=0), x], [1.0, 2.0]
        refused("TreeNode-with-owned-child", lambda: phylo.TreeNode(kids, ds), (phylo.TreeError,),
                lambda: kids[1] is x and ds == [1.0, 2.0])
        # the fresh child listed before the owned one must stay free
        if kids[0].parent is not None:
            V.append(("C19/refused/TreeNode-constructor-adopts-earlier-children",
                      "TreeNode([fresh, owned], …) raises TreeError but `fresh` now has a parent and cannot be used again"))
    fresh_kids = [phylo.TreeNode(index=0), phylo.TreeNode(index=1)]
    for name, call, excs in (
            ("TreeNode-length-mismatch", lambda: phylo.TreeNode(fresh_kids, [1.0]), (ValueError,)),
            ("TreeNode-same-child-twice", lambda: phylo.TreeNode([fresh_kids[0], fresh_kids[0]], [1.0, 1.0]), (phylo.TreeError,)),
            ("TreeNode-bad-distance-type", lambda: phylo.TreeNode(fresh_kids, [1.0, "x"]), (TypeError,)),
            ("TreeNode-no-children", lambda: phylo.TreeNode([], []), (phylo.TreeError,)),
            ("TreeNode-negative-index", lambda: phylo.TreeNode(index=-1), (ValueError, OverflowError)),
            ("TreeNode-index-and-children", lambda: phylo.TreeNode(fresh_kids, [1.0, 1.0], index=2), (TypeError,))):
        refused(name, call, excs)
    if any(k.parent is not None for k in fresh_kids):
        V.append(("C19/refused/TreeNode-constructor-adopts-children", "a refused TreeNode(...) attached its children"))
    else:
        ok = phylo.TreeNode(fresh_kids, [1.0, 2.0])        # the next valid call behaves as on fresh objects
        if [c.distance for c in ok.children] != [1.0, 2.0]:
            V.append(("C19/refused/next-valid-call-differs", "children reused after refused constructors"))
    # Tree() refusing a root must leave the root usable
    root = phylo.TreeNode([phylo.TreeNode(index=0), phylo.TreeNode(index=n + 5)], [1.0, 1.0])
    try:
        phylo.Tree(root)
        V.append(("C19/refused/Tree-index-out-of-range-not-refused", ""))
    except phylo.TreeError:
        if root.is_root():
            V.append(("C19/refused/Tree-constructor-flags-root",
                      "Tree(root) raises TreeError (index out of range) but root.is_root() is True afterwards and the "
                      "node can no longer be used as a child"))
    return V[:3]


def _oracle_tokens(case):
    """`from_newick` reads every distance token `float()` accepts as float32(float(token)) and every index
    label `int()` accepts as that int."""
    import numpy as np
    from biotite.sequence import phylo
    toks, labs = case["toks"], case["labs"]
    text = f"({labs[0]}:{toks[0]},({labs[1]}:{toks[1]},{labs[2]}:{toks[2]}):1.0);"
    try:
        t = phylo.Tree.from_newick(text)
    except Exception as e:  # noqa: BLE001
        return [("C19/newick/rejects-python-number-token", f"{text!r}: {type(e).__name__}: {e}")]
    leaves = t.root.get_leaves()
    got_idx = [l.index for l in leaves]
    if got_idx != [int(x) for x in labs]:
        return [("C19/newick/index-label-misread", f"{text!r}: leaf indices {got_idx}")]
    with np.errstate(over="ignore"):
        want = [float(np.float32(float(x))) for x in toks]
    got = [float(l.distance) for l in leaves]
    for g, w in zip(got, want):
        if not (g == w or (math.isnan(g) and math.isnan(w))):
            return [("C19/newick/distance-token-misread", f"{text!r}: distances {got}, float32(float(token)) = {want}")]
    # written again and read again: the same values (nan-aware)
    back = phylo.Tree.from_newick(t.to_newick())
    got2 = [float(l.distance) for l in back.root.get_leaves()]
    if any(not (a == b or (math.isnan(a) and math.isnan(b))) for a, b in zip(got, got2)):
        return [("C19/newick/roundtrip", f"{text!r}: {got} -> {got2}")]
    return []


def _oracle_dup_index(case):
    from biotite.sequence import phylo
    try:
        t = phylo.Tree(_build(_parse_tok(case["tok"])))
    except phylo.TreeError:
        return []          # refusing would be the right thing
    if any(x is None for x in t.leaves) or len({l.index for l in t.root.get_leaves()}) != len(t):
        return [("C19/construct/duplicate-leaf-indices-accepted",
                 f"Tree() accepts {case['tok']}: len {len(t)}, leaves {[None if x is None else x.index for x in t.leaves]}")]
    return []


def _oracle_binnode(case):
    from biotite.sequence import phylo
    node = _build(case["tree"])
    try:
        r = phylo.as_binary(node)
    except TypeError as e:
        return [("C19/as_binary/treenode-one-child-typeerror", f"as_binary(TreeNode) raised TypeError: {e}")]
    if not isinstance(r, phylo.TreeNode):
        return [("C19/as_binary/treenode-returns-tuple", f"as_binary(TreeNode) returned {type(r).__name__}: {r!r}"[:200])]
    return []


def oracle(case):
    """An exception from a distance / LCA query on a valid tree is itself a violation."""
    if case.get("kind") in _FORKED_KINDS:
        # queries on hand-built node objects can dereference None inside the extension: a dead child is a verdict
        from common import sandbox
        res = sandbox.run_forked(_oracle_guarded, case, timeout=120)
        if res[0] == "ok":
            return res[1]
        if res[0] == "err":
            return [("oracle-crash/" + res[1], f"oracle raised {res[1]}: {res[2]}")]
        return [(f"C19/crash/{case['kind']}-query-kills-process",
                 f"a distance / LCA / constructor query of the `{case['kind']}` stream killed the interpreter ({res})")]
    return _oracle_guarded(case)


_FORKED_KINDS = ("refused", "api", "dist", "accessors")


def _oracle_guarded(case):
    try:
        return _oracle(case)
    except _QueryRaised as e:
        return [("C19/lca/raises", str(e))]


def _oracle(case):
    k = case.get("kind", "")
    if "matrix" in case or "big" in case:
        return _oracle_matrix(case)
    if k in ("newick", "newick_float", "label_illegal", "label_ws", "label_empty", "label_short", "label_dup"):
        return _oracle_newick(case)
    if k == "dist":
        return _oracle_dist(case)
    if k == "binary":
        return _oracle_binary(case)
    if k == "binary_float":
        return _oracle_binary(case, tol=1e-5)
    if k == "copy":
        return _oracle_copy(case)
    if k == "binnode":
        return _oracle_binnode(case)
    if k == "newick_tokens":
        return _oracle_tokens(case)
    if k == "tree_dup_index":
        return _oracle_dup_index(case)
    if k == "accessors":
        return _oracle_accessors(case)
    if k == "api":
        return _oracle_api(case)
    if k == "refused":
        return _oracle_refused(case)
    if k == "matrix_shape":
        return _oracle_shape(case)
    if k == "deep_tree":
        return _oracle_deep(case)
    return []


# ---------------------------------------------------------------- bookkeeping
def nontrivial(case, impl_out):
    if impl_out and any(o.startswith("ERR") for o in impl_out):
        return True
    if "matrix" in case:
        return len(case["matrix"]) >= 3
    if "big" in case:
        return True
    if "tree" in case:
        return len(_leaves(case["tree"])) >= 3
    return bool(case.get("ops"))


def signature(case):
    from common import util
    return util.jdump({k: v for k, v in case.items() if not k.startswith("_")})


def distribution(cases_, impl_outs):
    outcomes, sizes = {}, {}
    for c, o in zip(cases_, impl_outs):
        for line in o or []:
            k = line.split(" ")[0]
            outcomes[k] = outcomes.get(k, 0) + 1
        n = len(c["matrix"]) if "matrix" in c else (c["big"]["m"] + 1 if "big" in c else (len(_leaves(c["tree"])) if "tree" in c else None))
        if n is not None:
            b = str(n) if n <= 4 else "5-8" if n <= 8 else "9+"
            sizes[b] = sizes.get(b, 0) + 1
    return {"outcomes": outcomes, "sizes": sizes}


def search(rng, problems, tier):
    yield from cases(rng, tier)


def shrink(case, key):
    return case

"""Structural extraction from the Cython sources anchored by C10 (used by props/c10.py gen_lean()).

The .pyx text is cut into functions (class-qualified), comments and docstrings are removed, continuation lines are
joined into logical lines.  For each function the plugin asks for
  defaults(q)  -> [(parameter, default-expression)]          (signature defaults)
  raises(q)    -> [exception class, in source order]         (which refusals exist, which one comes first)
  guards(q)    -> [condition of the `if` that guards each raise]
  returns(q)   -> [returned expressions]
  lines(q, rx) -> [logical lines matching a regex]            (operators, loop domains, index expressions, formulas)
Every query raises ValueError when the function is missing: a broken tie, never a guess.
"""
import re


def _strip(text):
    """logical code lines: (indent, text) with comments / docstrings removed and continuations joined."""
    out = []
    in_doc = None
    pending = None
    depth = 0
    for raw in text.splitlines():
        line = raw.rstrip()
        s = line.strip()
        if in_doc:
            if in_doc in s:
                in_doc = None
            continue
        m = re.match(r'^[rRuUbBfF]{0,2}("""|\'\'\')', s)
        if m and pending is None:
            q = m.group(1)
            if q not in s[m.end():]:
                in_doc = q
            continue
        if not s or s.startswith("#"):
            continue
        # strip trailing comment (quote-aware enough for these sources)
        if "#" in line:
            i = line.find("#")
            before = line[:i]
            if before.count('"') % 2 == 0 and before.count("'") % 2 == 0:
                line = before.rstrip()
                s = line.strip()
                if not s:
                    continue
        indent = len(line) - len(line.lstrip())
        if pending is not None:
            pending = (pending[0], pending[1] + " " + s)
        else:
            pending = (indent, s)
        txt = pending[1]
        depth = txt.count("(") + txt.count("[") + txt.count("{") - txt.count(")") - txt.count("]") - txt.count("}")
        if depth > 0 or txt.endswith("\\"):
            if txt.endswith("\\"):
                pending = (pending[0], txt[:-1].rstrip())
            continue
        out.append((pending[0], re.sub(r"\s+", " ", pending[1]).replace("( ", "(").replace(" )", ")")))
        pending = None
    if pending is not None:
        out.append(pending)
    return out


class Source:
    def __init__(self, path):
        self.path = path
        self.functions = {}          # qualified name -> (signature line, [body logical lines])
        lines = _strip(open(path, encoding="utf-8").read())
        cls = None
        cls_indent = 0
        cur = None
        cur_indent = 0
        for indent, s in lines:
            if re.match(r"^(cdef )?class \w+", s) and indent == 0:
                cls = re.match(r"^(?:cdef )?class (\w+)", s).group(1)
                cls_indent = indent
                cur = None
                continue
            if indent == 0 and not s.startswith("@"):
                cls = None if not re.match(r"^(c?p?def|cdef inline)", s) else None
            m = re.match(r"^(?:def|cpdef|cdef(?: inline)?(?: [\w\.\[\],: ]+?)?) ?(\w+)\((.*)\) ?(?:except[^:]*)?:$", s)
            if m and (s.startswith("def ") or s.startswith("cdef ") or s.startswith("cpdef ")) and \
                    (indent == 0 or (cls is not None and indent == cls_indent + 4)):
                name = m.group(1)
                q = (cls + "." + name) if (cls is not None and indent > 0) else name
                cur = q
                cur_indent = indent
                self.functions[q] = (m.group(2), [])
                continue
            if cur is not None and indent > cur_indent:
                self.functions[cur][1].append((indent, s))
            elif cur is not None and indent <= cur_indent and not s.startswith("@"):
                cur = None

    def _fn(self, q):
        if q not in self.functions:
            raise ValueError(f"{self.path}: function {q} not found (source changed shape)")
        return self.functions[q]

    def defaults(self, q):
        sig, _ = self._fn(q)
        out = []
        depth = 0
        cur = ""
        for ch in sig + ",":
            if ch == "," and depth == 0:
                p = cur.strip()
                if "=" in p:
                    name, dv = p.split("=", 1)
                    out.append((name.strip().split(" ")[-1], dv.strip()))
                cur = ""
                continue
            depth += ch in "([{"
            depth -= ch in ")]}"
            cur += ch
        return out

    def params(self, q):
        sig, _ = self._fn(q)
        out = []
        depth = 0
        cur = ""
        for ch in sig + ",":
            if ch == "," and depth == 0:
                p = cur.strip()
                if p:
                    out.append(p.split("=")[0].strip())
                cur = ""
                continue
            depth += ch in "([{"
            depth -= ch in ")]}"
            cur += ch
        return out

    def raises(self, q):
        _, body = self._fn(q)
        return [re.match(r"raise (\w+)", s).group(1) for _, s in body if re.match(r"raise \w+", s)]

    def guards(self, q):
        """for each raise: the condition of the nearest enclosing `if` / `elif` (or `else` / `-`)"""
        _, body = self._fn(q)
        out = []
        for i, (ind, s) in enumerate(body):
            if not re.match(r"raise \w+", s):
                continue
            g = "-"
            for j in range(i - 1, -1, -1):
                ind2, s2 = body[j]
                if ind2 < ind and re.match(r"^(if|elif|else|for|while|except|try)\b", s2):
                    g = re.sub(r"^(if|elif) (.*):$", r"\2", s2)
                    break
            out.append(g)
        return out

    def returns(self, q):
        _, body = self._fn(q)
        return [s[len("return "):] for _, s in body if s.startswith("return ")]

    def lines(self, q, rx):
        _, body = self._fn(q)
        # raise statements carry message texts; classes and guards are extracted separately (raises / guards)
        return [s for _, s in body if re.search(rx, s) and not s.startswith("raise ") and not s.startswith("f\"") and not s.startswith("\"")]


def lean_str(s):
    return '"' + s.replace("\\", "\\\\").replace('"', '\\"') + '"'


def lean_list(xs):
    return "[" + ", ".join(lean_str(x) for x in xs) + "]"


def lean_pairs(ps):
    return "[" + ", ".join("(" + lean_str(a) + ", " + lean_str(b) + ")" for a, b in ps) + "]"

"""C12 — Sequence file formats return what was written (FASTA, FASTQ, GenBank/GenPept, GFF3) and
file objects stay consistent under edits.

Two layers (see harness/README.md):
  * correspondence: protocol ops executed on the real classes (run_impl) and on the Lean model
    (Driver/C12.lean) — FASTA/FASTQ file objects, wrap_string, score offsets, GenBank location
    strings, GFF quoting / lines / file object, GenBankFile as a list of fields;
  * oracle: written from the property statement only (write -> read == original; view of an edited
    file object == re-parse of its text == dict/list specification), on the real code, also for the
    parts that are not modelled in Lean (qualifier text, ORIGIN block, Sequence conversion,
    ID-grouped GFF locations).
"""
import io
import os
import re
import warnings

PROP = "C12"
PROPS_MODULE = "BiotiteModel.Props.C12"
DRIVER_MODULE = "BiotiteModel.Driver.C12"
EXT_MODULES = []
GEN_FILES = ["BiotiteModel/Gen/C12.lean"]
RULE = ("seeded entries (headers with inner blanks/'>'/';'/unicode; nucleotide, ambiguous, protein-with-stop "
        "sequences; score arrays over the whole range of every offset with forced '@'/'+' line starts; wrap widths "
        "1..80 and none), GenBank locations (single, joined, complement, </>, ./^, single-base, negative) and "
        "qualifiers (blanks, '/', '=', no value, multi-line), GFF entries/attributes with reserved characters, and "
        "edit histories (set/replace/insert/delete) on FastaFile/FastqFile/GFFFile/GenBankFile, each op compared "
        "with the Lean model; separate malformed-text streams. non-trivial = at least 2 ops or an error/"
        "normalisation branch; distinct = different op list or oracle spec")
TRUSTED = ["str.splitlines/'\\n'.join (TextFile.read/write) modelled as identity on lines without line breaks",
           "urllib.parse.quote/unquote modelled from their source (byte scanner); UTF-8 codec trusted",
           "re (qualifier splitting), float()/str(float), numpy int8 arithmetic modelled by documented semantics"]
ASSUMPTIONS = ["Sequence<->string conversion, the LOCUS line and GenPept specifics are exercised by the oracle only "
               "(not modelled in Lean)",
               "headers / identifiers / field values contain no line-break characters; qualifier values contain no '\"'"]
LEVEL_TEXT = ("Lean theorems (all inputs, no size bound): FASTA round trip for every wrap width >= 1; FASTQ length-driven state "
              "machine under any wrapping (no condition on score characters) + int8 offset arithmetic + full round trip; GenBank "
              "location print/parse round trip at character level; GenBank qualifier text round trip (writer lines vs the "
              "regex scanner + qualifier loop of get_annotation) for keys without whitespace/'='/'\"' and values without '\"'; "
              "feature table round trip (key column + location + qualifiers, list of features, order kept); ORIGIN block "
              "round trip for any length and any sequence_start incl. negative; GFF percent-quoting (quote, _quote_value) "
              "invertible and delimiter-free, GFF line round trip for all strings, ID-grouped locations; index = "
              "reindex(lines) after set/replace/insert/delete for FastaFile, FastqFile, GFFFile and GenBankFile. Gen "
              "obligations (regenerated with ast on every run): _NOT_QUOTED, _OFFSETS, column constants, line-start characters, "
              "score guard, regexes, location keywords/separators, GenBankFile widths and limits, GFF literals, Defect members, "
              "every default value, and a normal-form fingerprint (robust to renames, messages, docstrings) of all 94 public functions. Executable model tied to the real classes "
              "op by op (incl. get_annotation/set_annotation/set_sequence at line level); oracle write->read on whole "
              "formats. Not proved (oracle only): Sequence-object conversion, LOCUS line, GenPept specifics")
LEVEL_NOTE = "see notes/C12.md: 13 defects found and repaired in /repo (fix: commits), no open known findings"
TECHNIQUE = "Lean 4 proof (induction over lines / entries / characters) + correspondence + regenerated tables"

NUC = "ACGT"
AMB = "ACGTRYSWKMBDHVN"
PROT = "ACDEFGHIKLMNPQRSTVWYBZX*"
DEFECT_BITS = {"MISS_LEFT": 1, "MISS_RIGHT": 2, "BEYOND_LEFT": 4, "BEYOND_RIGHT": 8, "UNK_LOC": 16, "BETWEEN": 32}


# ------------------------------------------------------------------ protocol encoding
def es(s):
    return ",".join(str(ord(c)) for c in s) if s else "_"


def el(ls, sep="|"):
    return sep.join(es(x) for x in ls) if ls else "-"


def eb(b):
    return ",".join(str(x) for x in b) if len(b) else "_"


def ei(xs):
    return ",".join(str(int(x)) for x in xs) if len(xs) else "_"


def ds(t):
    return "" if t == "_" else "".join(chr(int(x)) for x in t.split(","))


def dl(t, sep="|"):
    return [] if t == "-" else [ds(x) for x in t.split(sep)]


def dpairs(t):
    return [] if t == "-" else [tuple(ds(x) for x in p.split("~")) for p in t.split("|")]


def dsubs(t):
    if t == "-":
        return None
    return {ds(p.split("~")[0]): dl(p.split("~")[1], "^") for p in t.split("|")}


def esubs(d):
    if not d:
        return "-"
    return "|".join(es(k) + "~" + (el(v, "^")) for k, v in d.items())


def err(e):
    return "ERR:" + type(e).__name__


# ------------------------------------------------------------------ translator (Gen)
def _const(src, name, path):
    m = re.search(r"^%s\s*=\s*(-?\d+)\s*$" % re.escape(name), src, re.M)
    if not m:
        raise ValueError(f"constant {name} not found in {path}")
    return int(m.group(1))


# ---- pass 7/8: literals and structure of the anchored source, regenerated with ast in a NORMALISED form:
# independent of names of locals / parameters of private helpers / private helpers and globals themselves (they are
# inlined where they are used), of comments, docstrings, annotations, formatting and the texts of exceptions and warnings.
_TIE_FILES = [
    ("file", "biotite/file.py"), ("fasta_file", "biotite/sequence/io/fasta/file.py"), ("fasta_convert", "biotite/sequence/io/fasta/convert.py"),
    ("fastq_file", "biotite/sequence/io/fastq/file.py"), ("fastq_convert", "biotite/sequence/io/fastq/convert.py"),
    ("gb_annotation", "biotite/sequence/io/genbank/annotation.py"), ("gb_sequence", "biotite/sequence/io/genbank/sequence.py"),
    ("gb_file", "biotite/sequence/io/genbank/file.py"), ("gb_metadata", "biotite/sequence/io/genbank/metadata.py"),
    ("gff_file", "biotite/sequence/io/gff/file.py"), ("gff_convert", "biotite/sequence/io/gff/convert.py"), ("general", "biotite/sequence/io/general.py"),
]


class _TieModule:
    """functions, classes and private globals of one source file"""

    def __init__(self, path):
        import ast
        self.tree = ast.parse(open(path).read())
        self.funcs, self.classes, self.globals = {}, {}, {}
        for n in self.tree.body:
            if isinstance(n, ast.FunctionDef):
                self.funcs[n.name] = n
            elif isinstance(n, ast.ClassDef):
                self.classes[n.name] = {m.name: m for m in n.body if isinstance(m, ast.FunctionDef)}
            elif isinstance(n, ast.Assign) and len(n.targets) == 1 and isinstance(n.targets[0], ast.Name):
                self.globals[n.targets[0].id] = n.value

    def public(self):
        """(qualified name, node, class name or None) of every public function and every public / dunder method"""
        out = [(k, v, None) for k, v in self.funcs.items() if not k.startswith("_")]
        for c, ms in self.classes.items():
            if c.startswith("_"):
                continue
            out += [(f"{c}.{k}", v, c) for k, v in ms.items() if not k.startswith("_") or (k.startswith("__") and k.endswith("__"))]
        return out

    def all_functions(self):
        return list(self.funcs.items()) + [(f"{c}.{k}", v) for c, ms in self.classes.items() for k, v in ms.items()]


def _const_repr(n):
    import ast
    if isinstance(n, ast.Constant):
        return repr(n.value)
    if isinstance(n, ast.UnaryOp) and isinstance(n.op, ast.USub) and isinstance(n.operand, ast.Constant):
        return repr(-n.operand.value)
    if isinstance(n, ast.Tuple) and all(_const_repr(e) is not None for e in n.elts):
        return "(" + ",".join(_const_repr(e) for e in n.elts) + ")"
    return None


def _tie_normal_form(mod, fn, cls=None, stack=()):
    """(set of atoms, ordered list of checks) of a function with private helpers and private globals inlined"""
    import ast
    atoms, checks = set(), []
    a = fn.args
    local = {x.arg for x in a.args + a.kwonlyargs} | ({a.vararg.arg} if a.vararg else set()) | ({a.kwarg.arg} if a.kwarg else set())
    lists = set()
    nested = {n.name for n in ast.walk(fn) if isinstance(n, ast.FunctionDef) and n is not fn}
    for n in ast.walk(fn):
        if isinstance(n, (ast.Assign, ast.AugAssign, ast.For, ast.comprehension, ast.With, ast.NamedExpr)):
            tg = n.targets if isinstance(n, ast.Assign) else [getattr(n, "target", None)]
            for t in tg:
                for x in ast.walk(t) if t is not None else []:
                    if isinstance(x, ast.Name):
                        local.add(x.id)
            if isinstance(n, ast.Assign) and isinstance(n.value, ast.List) and not n.value.elts:
                lists |= {t.id for t in n.targets if isinstance(t, ast.Name)}
        elif isinstance(n, ast.ExceptHandler) and n.name:
            local.add(n.name)

    def dotted(x):
        parts = []
        while isinstance(x, ast.Attribute):
            parts.append(x.attr)
            x = x.value
        if isinstance(x, ast.Name):
            return x.id, list(reversed(parts))
        return None, list(reversed(parts))

    def private_target(func):
        """the private helper a call goes to: (node, class) or None"""
        if isinstance(func, ast.Name) and func.id.startswith("_") and func.id in mod.funcs:
            return mod.funcs[func.id], None
        if isinstance(func, ast.Attribute) and func.attr.startswith("_") and not func.attr.startswith("__"):
            root, _ = dotted(func)
            owner = cls if root in ("self", "cls", "clone", "file") else (root if root in mod.classes else None)
            if owner is None and isinstance(func.value, ast.Name):
                owner = next((c for c, ms in mod.classes.items() if func.attr in ms), None)
            if owner in mod.classes and func.attr in mod.classes[owner]:
                return mod.classes[owner][func.attr], owner
        return None

    def inline(node, owner, key):
        if key in stack or len(stack) > 6:
            atoms.add("rec")
            return
        sa, sc = _tie_normal_form(mod, node, owner, stack + (key,))
        atoms.update(sa)
        checks.extend(sc)

    def test_atoms(t):
        """atoms of a test expression alone (they are also added to the atoms of the function)"""
        nonlocal atoms
        saved, atoms = atoms, set()
        n_checks = len(checks)
        visit(t)
        sub, atoms = atoms, saved
        atoms |= sub
        del checks[n_checks:]        # checks of helpers called inside a test are not separate steps
        return sorted(sub)

    def visit(n):
        if n is None:
            return
        if isinstance(n, ast.Raise):
            c = n.exc
            name = "reraise" if c is None else (dotted(c.func if isinstance(c, ast.Call) else c)[0] or "?")
            atoms.add("raise:" + name)
            checks.append("raise:" + name)
            return                                   # the message is not part of the tie
        if isinstance(n, ast.Assert):
            atoms.add("assert")
            checks.append("assert{" + ",".join(test_atoms(n.test)) + "}")
            return
        if isinstance(n, ast.If):
            ta = test_atoms(n.test)
            has_raise = any(isinstance(x, ast.Raise) for b in (n.body, n.orelse) for st in b for x in ast.walk(st))
            if has_raise:
                checks.append("if{" + ",".join(ta) + "}")
            for st in n.body + n.orelse:
                visit(st)
            return
        if isinstance(n, ast.Call):
            tgt = private_target(n.func)
            root, parts = dotted(n.func)
            if tgt is not None:
                inline(tgt[0], tgt[1], (tgt[1], tgt[0].name))
            elif isinstance(n.func, ast.Name) and n.func.id in nested:
                pass                                 # a helper defined inside this function: its body is part of the function, its name is a local
            elif parts[-1:] == ["warn"]:
                atoms.add("call:.warn")
                return                               # warning texts are not part of the tie
            elif parts[-1:] in (["append"], ["extend"]) and root in lists:
                pass                                 # building a local list: comprehension or loop, the same thing
            else:
                priv_global = root is not None and root.startswith("_") and root in mod.globals      # its value is inlined below, its name is not a fact
                name = (("." + parts[-1]) if parts and (root is None or root in local or root in ("self", "cls") or priv_global) else ".".join([root or "?"] + parts))
                cargs = [r for r in (_const_repr(x) for x in n.args) if r is not None]
                kws = [k.arg + ("=" + _const_repr(k.value) if _const_repr(k.value) is not None else "") for k in n.keywords if k.arg]
                atoms.add("call:" + name + "".join(":" + x for x in cargs + sorted(kws)))
                if not (isinstance(n.func, ast.Name)):
                    visit(n.func.value if isinstance(n.func, ast.Attribute) else n.func)
            for x in n.args:
                if _const_repr(x) is None:
                    visit(x)
            for k in n.keywords:
                if _const_repr(k.value) is None:
                    visit(k.value)
            return
        if isinstance(n, ast.Compare):
            cs = sorted(r for r in (_const_repr(x) for x in [n.left] + n.comparators) if r is not None)
            atoms.add("cmp:" + ",".join(type(o).__name__ for o in n.ops) + "".join(":" + c for c in cs))
            for x in [n.left] + n.comparators:
                if _const_repr(x) is None:
                    visit(x)
            return
        if isinstance(n, (ast.BinOp, ast.AugAssign)):
            l, r = (n.left, n.right) if isinstance(n, ast.BinOp) else (n.target, n.value)
            cs = [c for c in (_const_repr(l), _const_repr(r)) if c is not None]
            atoms.add("bin:" + type(n.op).__name__ + "".join(":" + c for c in cs))
            for x in (l, r):
                if _const_repr(x) is None:
                    visit(x)
            return
        if isinstance(n, ast.BoolOp):
            atoms.add("bool:" + type(n.op).__name__)
        elif isinstance(n, ast.UnaryOp) and isinstance(n.op, ast.Not):
            atoms.add("un:Not")
        elif isinstance(n, ast.IfExp):
            if all(isinstance(x, ast.Constant) and isinstance(x.value, bool) for x in (n.body, n.orelse)):
                visit(n.test)                # `True if c else False` is `c`
                return
        elif isinstance(n, ast.Subscript):
            sl = n.slice
            if isinstance(sl, ast.Slice):
                atoms.add("slice:" + ":".join((_const_repr(x) or "x") if x is not None else "" for x in (sl.lower, sl.upper, sl.step)))
                visit(n.value)
                for x in (sl.lower, sl.upper, sl.step):
                    if x is not None and _const_repr(x) is None:
                        visit(x)
                return
            if _const_repr(sl) is not None:
                atoms.add("idx:" + _const_repr(sl))
                visit(n.value)
                return
        elif isinstance(n, ast.JoinedStr):
            for v in n.values:
                if isinstance(v, ast.Constant):
                    atoms.add("fstr:" + repr(v.value))
                else:
                    visit(v.value)
                    if v.format_spec is not None:
                        for fv in v.format_spec.values:
                            if isinstance(fv, ast.Constant):
                                atoms.add("fmt:" + repr(fv.value))
            return
        elif isinstance(n, (ast.For, ast.While, ast.ListComp, ast.GeneratorExp, ast.DictComp, ast.SetComp)):
            atoms.add("loop")
        elif isinstance(n, ast.Constant):
            atoms.add("c:" + repr(n.value))
            return
        elif isinstance(n, (ast.Attribute, ast.Name)):
            root, parts = dotted(n)
            if root is not None and root not in local and root not in ("self", "cls", "True", "False", "None"):
                if root.startswith("_") and root in mod.globals:
                    key = (None, root)
                    if key not in stack:
                        sub_mod_fn = ast.FunctionDef(name=root, args=ast.arguments(posonlyargs=[], args=[], kwonlyargs=[], kw_defaults=[], defaults=[]),
                                                     body=[ast.Expr(mod.globals[root])], decorator_list=[])
                        inline(sub_mod_fn, None, key)
                else:
                    atoms.add("name:" + ".".join([root] + parts))
            return
        elif isinstance(n, (ast.FunctionDef, ast.Lambda)) and n is not fn:
            # nested helper (the generator inside write_iter): part of this function
            for st in (n.body if isinstance(n.body, list) else [n.body]):
                visit(st)
            return
        elif isinstance(n, ast.arguments):
            return
        for ch in ast.iter_child_nodes(n):
            if isinstance(ch, (ast.expr_context, ast.operator, ast.cmpop, ast.boolop, ast.unaryop)):
                continue
            visit(ch)

    body = fn.body
    if body and isinstance(body[0], ast.Expr) and isinstance(body[0].value, ast.Constant) and isinstance(body[0].value.value, str):
        body = body[1:]
    for st in body:
        visit(st)
    return atoms, checks


def _tie_signature(fn):
    """parameter names and defaults of a PUBLIC function (its public interface); annotations are not part of the tie"""
    import ast
    a = fn.args
    dd = [None] * (len(a.args) - len(a.defaults)) + list(a.defaults)
    out = [x.arg + ("=" + ast.unparse(d) if d is not None else "") for x, d in zip(a.args, dd)]
    out += ["*" + a.vararg.arg] if a.vararg else []
    out += [x.arg + ("=" + ast.unparse(d) if d is not None else "") for x, d in zip(a.kwonlyargs, a.kw_defaults)]
    return out


def _walk_nomsg(node):
    """ast.walk without the arguments of `raise …(…)` and `….warn(…)`: message texts are not facts about the format"""
    import ast
    todo = [node]
    while todo:
        n = todo.pop(0)
        yield n
        if isinstance(n, ast.Raise):
            continue
        if isinstance(n, ast.Call) and isinstance(n.func, ast.Attribute) and n.func.attr == "warn":
            continue
        todo.extend(ast.iter_child_nodes(n))


def _with_private(mod, fn):
    """nodes of a function together with those of the private globals and private helpers of the module it uses (message texts left out)"""
    import ast
    seen, todo, nodes = set(), [fn], []
    while todo:
        f = todo.pop()
        for n in _walk_nomsg(f):
            nodes.append(n)
            if isinstance(n, ast.Name) and n.id.startswith("_") and n.id not in seen:
                seen.add(n.id)
                if n.id in mod.globals:
                    todo.append(mod.globals[n.id])
                elif n.id in mod.funcs:
                    todo.append(mod.funcs[n.id])
    return nodes


def _tie_find(mod, pred, what, cls=None):
    """the one function of a module (or class) whose body satisfies pred: helpers are found by what they contain.
    `pred` may be a list of predicates: the first one that singles out exactly one function wins (a restructured helper is
    still found by a second trait); a predicate sees the function node and may use `_with_private(mod, f)`."""
    preds = pred if isinstance(pred, (list, tuple)) else [pred]
    found = []
    for p in preds:
        cands = [(q, f) for q, f in mod.all_functions() if (cls is None or q.startswith(cls + ".")) and p(f)]
        if len(cands) == 1:
            return cands[0]
        found.append([q for q, _ in cands])
    raise ValueError(f"{what}: expected exactly one function of that shape, found {found[0] if len(found) == 1 else found}")


def _tie_facts(src_root):
    """named literals of the anchored source that the hand-written Lean model hard-codes, found structurally"""
    import ast
    import hashlib

    facts, fps, dump = {}, {}, []
    mods = {m: _TieModule(os.path.join(src_root, rel)) for m, rel in _TIE_FILES}
    for m, mod in mods.items():
        rows = []
        for q, fn, cls in mod.public():
            atoms, checks = _tie_normal_form(mod, fn, cls)
            text = "A|" + "|".join(sorted(atoms)) + "|C|" + "|".join(checks) + "|S|" + ",".join(_tie_signature(fn))
            h = int(hashlib.sha256(text.encode()).hexdigest()[:14], 16)
            rows.append((q, h))
            dump.append(f"{m}:{q} [{h}] " + text.replace("-/", "- /"))
        fps[m] = rows

    def W(fn):
        return list(_walk_nomsg(fn))

    def strs(fn, maxlen):
        return [n.value for n in W(fn) if isinstance(n, ast.Constant) and isinstance(n.value, str) and 0 < len(n.value) <= maxlen]

    def one(xs, what):
        xs = list(dict.fromkeys(xs))
        if len(xs) != 1:
            raise ValueError(f"{what}: expected exactly one value in the source, found {xs}")
        return xs[0]

    def cmp_sub0(nodes):
        return [c.value for n in nodes if isinstance(n, ast.Compare) and isinstance(n.left, ast.Subscript) and isinstance(n.left.slice, ast.Constant)
                and n.left.slice.value == 0 for c in n.comparators if isinstance(c, ast.Constant) and isinstance(c.value, str)]

    def add_left(nodes):
        return [n.left.value for n in nodes if isinstance(n, ast.BinOp) and isinstance(n.op, ast.Add) and isinstance(n.left, ast.Constant) and isinstance(n.left.value, str)]

    def with_globals(mod, fn):
        return _with_private(mod, fn)

    def in_order(nodes):
        return sorted((n for n in nodes if hasattr(n, "lineno")), key=lambda n: (n.lineno, n.col_offset))

    # a fact that cannot be found any more does not stop the extraction: it gets a value no source can have, so that exactly the
    # NAMED obligation about it breaks (and the reason is written next to it in Gen/C12.lean)
    missing = []
    SENTINEL = {"char": "?", "str": "<not found>", "strs": ["<not found>"], "nat": 0, "nats": [], "int": 0}

    def fact(name, kind, thunk):
        try:
            facts[name] = thunk()
        except Exception as e:  # noqa: BLE001
            facts[name] = SENTINEL[kind]
            missing.append(f"{name}: {type(e).__name__}: {e}")

    fa, fq = mods["fasta_file"], mods["fastq_file"]
    fa_nodes = [n for _, f in fa.all_functions() for n in with_globals(fa, f)]
    fact("fastaHeaderPrefix", "char", lambda: one(add_left(fa_nodes), "FASTA header prefix ('>' + header)"))

    def fasta_comment():
        ch = sorted(set(cmp_sub0(fa_nodes)))
        if facts["fastaHeaderPrefix"] not in ch or len(ch) != 2:
            raise ValueError(f"FASTA line-start tests: expected the header prefix and one comment character, found {ch}")
        return next(c for c in ch if c != facts["fastaHeaderPrefix"])
    facts["fastaHeaderChar"] = facts["fastaHeaderPrefix"]
    fact("fastaCommentChar", "char", fasta_comment)
    fq_nodes = [n for _, f in fq.all_functions() for n in with_globals(fq, f)]
    fact("fastqIdPrefix", "char", lambda: one(add_left(fq_nodes), "FASTQ identifier prefix ('@' + identifier)"))
    fact("fastqLineStartChars", "strs", lambda: sorted(set(cmp_sub0(fq_nodes))))

    def score_guards():
        # (x < lo) | (x > hi)  elementwise, or  x.min() < lo or x.max() > hi : both are a disjunction of two comparisons with integer literals
        ors = [(n.left, n.right) for n in fq_nodes if isinstance(n, ast.BinOp) and isinstance(n.op, ast.BitOr)]
        ors += [tuple(n.values) for n in fq_nodes if isinstance(n, ast.BoolOp) and isinstance(n.op, ast.Or)]
        gs = sorted({(type(x.ops[0]).__name__, x.comparators[0].value) for pair in ors for x in pair if isinstance(x, ast.Compare) and len(x.ops) == 1
                     and isinstance(x.ops[0], (ast.Lt, ast.Gt)) and isinstance(x.comparators[0], ast.Constant) and isinstance(x.comparators[0].value, int)})
        if sorted(o for o, _ in gs) != ["Gt", "Lt"]:
            raise ValueError(f"score range guard not of the form (x < lo) | (x > hi): {gs}")
        return gs
    fact("scoreLo", "int", lambda: next(v for o, v in score_guards() if o == "Lt"))
    fact("scoreHi", "int", lambda: next(v for o, v in score_guards() if o == "Gt"))

    def dtypes(f):
        return sorted({(n.attr if isinstance(n, ast.Attribute) else n.id) for c in ast.walk(f) if isinstance(c, ast.Call) for n in list(c.args) + [k.value for k in c.keywords]
                       if (isinstance(n, ast.Attribute) and n.attr.startswith(("int", "uint"))) or (isinstance(n, ast.Name) and n.id == "int")})

    def score_dtypes():
        _, enc = _tie_find(fq, _PRIV_PREDS["fastq.encode"], "FASTQ score encoder (…tobytes())")
        _, dec = _tie_find(fq, _PRIV_PREDS["fastq.decode"], "FASTQ score decoder (np.frombuffer)")
        return dtypes(enc) + ["|"] + dtypes(dec)
    fact("scoreDtypes", "strs", score_dtypes)

    an, sq, gf = mods["gb_annotation"], mods["gb_sequence"], mods["gb_file"]

    def regexes(mod):
        # compiled inside a function or once at module level
        roots = [f for _, f in mod.all_functions()] + list(mod.globals.values())
        return [c.args[0].value for r in roots for c in ast.walk(r) if isinstance(c, ast.Call) and isinstance(c.func, ast.Attribute)
                and c.func.attr == "compile" and c.args and isinstance(c.args[0], ast.Constant)]
    fact("qualifierRegex", "str", lambda: one(regexes(an), "qualifier regex (re.compile in genbank/annotation.py)"))
    fact("originRegex", "str", lambda: one(regexes(sq), "ORIGIN regex (re.compile in genbank/sequence.py)"))
    fact("originNumberFormat", "str", lambda: one([v for _, f in sq.all_functions() for v in strs(f, 12) if "{" in v and "}" in v and "d" in v], "position number format of set_sequence"))

    def loc_keywords():
        sw = [c.args[0] for _, f in an.all_functions() for c in ast.walk(f) if isinstance(c, ast.Call) and isinstance(c.func, ast.Attribute) and c.func.attr == "startswith" and c.args]
        return sorted({e.value for x in sw for e in (x.elts if isinstance(x, ast.Tuple) else [x]) if isinstance(e, ast.Constant)})
    fact("locKeywords", "strs", loc_keywords)

    def loc_separators():
        # the parser of one location: the private function that mentions the separators and calls int(); the order in which
        # the separators first appear in it is the order they are looked for (`'..' in s` … elif …, or a loop over a literal table)
        seps = ("..", ".", "^")
        def is_parser(f):
            ns = W(f)
            return ({".." , "^"} <= {n.value for n in ns if isinstance(n, ast.Constant) and isinstance(n.value, str)}
                    and any(isinstance(c, ast.Call) and getattr(c.func, "id", "") == "int" for c in ns))
        _, single = _tie_find(an, is_parser, "the location parser that tests the separators")
        return list(dict.fromkeys(n.value for n in in_order(W(single)) if isinstance(n, ast.Constant) and isinstance(n.value, str) and n.value in seps))
    fact("locSeparators", "strs", loc_separators)

    def loc_print_literals():
        _, prn = _tie_find(an, _PRIV_PREDS["gb.loc_print"], "the location printer (f-string 'complement(')")
        return sorted({v for v in strs(prn, 12) if v.strip() and " " not in v.strip()})
    fact("locPrintLiterals", "strs", loc_print_literals)

    def field_writer():
        return _tie_find(gf, lambda f: any(isinstance(n, ast.FormattedValue) and n.format_spec is not None for n in ast.walk(f)), "GenBankFile field writer (format spec of the name column)")[1]
    fact("gbLimits", "nats", lambda: sorted({n.comparators[0].value for n in W(field_writer()) if isinstance(n, ast.Compare) and isinstance(n.ops[0], ast.Gt)
                                             and isinstance(n.comparators[0], ast.Constant) and isinstance(n.comparators[0].value, int)}, reverse=True))
    fact("gbNameColumn", "nat", lambda: one([int(n.format_spec.values[0].value) for n in W(field_writer()) if isinstance(n, ast.FormattedValue) and n.format_spec is not None
                                             and n.format_spec.values and isinstance(n.format_spec.values[0], ast.Constant) and str(n.format_spec.values[0].value).isdigit()], "name column width"))
    fact("gbHeaderPad", "nat", lambda: one([n.right.value for n in W(field_writer()) if isinstance(n, ast.BinOp) and isinstance(n.op, ast.Mult) and isinstance(n.right, ast.Constant)], "padding of the FEATURES header"))
    gb_nodes = [n for q, f in gf.all_functions() if q.startswith("GenBankFile.") for n in _walk_nomsg(f)]
    fact("gbSliceWidths", "nats", lambda: sorted({x.value for n in gb_nodes if isinstance(n, ast.Slice) for x in (n.lower, n.upper) if isinstance(x, ast.Constant) and isinstance(x.value, int)}
                                                 | {k.value.value for n in gb_nodes if isinstance(n, ast.Call) for k in n.keywords if k.arg == "indent" and isinstance(k.value, ast.Constant)}))
    fact("gbTerminator", "str", lambda: one([n.value for _, f in gf.all_functions() for n in _walk_nomsg(f) if isinstance(n, ast.Constant) and isinstance(n.value, str) and n.value.strip() == "//"], "terminator literal"))
    g = mods["gff_file"]
    gi = g.classes.get("GFFFile", {}).get("__getitem__")
    fact("gffColumns", "nat", lambda: one([n.comparators[0].value for n in W(gi) if isinstance(n, ast.Compare) and isinstance(n.left, ast.Call)
                                           and getattr(n.left.func, "id", "") == "len" and isinstance(n.comparators[0], ast.Constant)], "column count of GFFFile.__getitem__"))
    fact("gffGetitemLiterals", "strs", lambda: sorted({n.value for n in with_globals(g, gi) if isinstance(n, ast.Constant) and isinstance(n.value, str) and 0 < len(n.value) <= 2}))

    def create_line_literals():
        _, cl = _tie_find(g, _PRIV_PREDS["gff.create_line"], "the GFF line writer ('\\t'.join)")
        return sorted({n.value for n in with_globals(g, cl) if isinstance(n, ast.Constant) and isinstance(n.value, str) and 0 < len(n.value) <= 3 and n.value != "%;=&,"})
    fact("gffCreateLineLiterals", "strs", create_line_literals)

    def index_literals():
        _, ix = _tie_find(g, lambda f: any(isinstance(n, ast.Compare) and any(isinstance(c, ast.Constant) and c.value == "FASTA" for c in n.comparators) for n in ast.walk(f)), "the GFF line indexer (== 'FASTA')")
        return sorted({n.value for n in with_globals(g, ix) if isinstance(n, ast.Constant) and isinstance(n.value, str) and 0 < len(n.value) <= 5})
    fact("gffIndexLiterals", "strs", index_literals)
    fact("gffInitDirective", "strs", lambda: [x.value for c in W(g.classes["GFFFile"]["__init__"]) if isinstance(c, ast.Call) and getattr(c.func, "attr", "") == "append_directive" for x in c.args])
    gc = mods["gff_convert"]
    fact("gffIdKey", "str", lambda: one([n.value for _, f in gc.all_functions() for n in _walk_nomsg(f) if isinstance(n, ast.Constant) and n.value == "ID"], "the 'ID' attribute name in gff/convert.py"))

    def defect_members():
        p_ann = os.path.join(src_root, "biotite/sequence/annotation.py")
        dcls = next((c for n in ast.parse(open(p_ann).read()).body if isinstance(n, ast.ClassDef) and n.name == "Location" for c in n.body
                     if isinstance(c, ast.ClassDef) and c.name == "Defect"), None)
        if dcls is None:
            raise ValueError("Location.Defect not found")
        return [f"{t.id}={ast.unparse(x.value)}" for x in dcls.body if isinstance(x, ast.Assign) for t in x.targets]
    fact("defectMembers", "strs", defect_members)
    defs = []
    for m, mod in mods.items():
        for q, fn, _ in mod.public():
            defs += [f"{m}:{q}({x})" for x in _tie_signature(fn) if "=" in x]
    facts["defaults"] = defs
    facts["_missing"] = missing
    return facts, fps, dump


def _lstr(x):
    return '"' + "".join({"\\": "\\\\", '"': '\\"', "\t": "\\t", "\n": "\\n"}.get(c, c) for c in x) + '"'


def _lchar(x, what):
    if len(x) != 1:
        raise ValueError(f"{what}: a single character expected, found {x!r}")
    return "'" + {"'": "\\'", "\\": "\\\\", "\t": "\\t"}.get(x, x) + "'"


def _tie_lean(facts, fps, dump):
    L = ["", "/-! ## pass 7: literals and structure of the anchored functions (Python `ast`) -/"]
    for k in ("fastaHeaderChar", "fastaCommentChar", "fastaHeaderPrefix", "fastqIdPrefix"):
        L.append(f"def {k} : Char := {_lchar(facts[k], k)}")
    L.append("def fastqLineStartChars : List Char := [" + ", ".join(_lchar(c, "fastqLineStartChars") for c in facts["fastqLineStartChars"]) + "]")
    L.append(f"def scoreLo : Int := {facts['scoreLo']}")
    L.append(f"def scoreHi : Int := {facts['scoreHi']}")
    for k in ("qualifierRegex", "originRegex", "originNumberFormat", "gbTerminator", "gffIdKey"):
        L.append(f"def {k} : String := {_lstr(facts[k])}")
    for k in ("scoreDtypes", "locKeywords", "locSeparators", "locPrintLiterals", "gffGetitemLiterals", "gffCreateLineLiterals", "gffIndexLiterals",
              "gffInitDirective", "defectMembers", "defaults"):
        L.append(f"def {k} : List String := [" + ", ".join(_lstr(x) for x in facts[k]) + "]")
    for k in ("gbLimits", "gbSliceWidths"):
        L.append(f"def {k} : List Nat := [" + ", ".join(str(x) for x in facts[k]) + "]")
    for k in ("gbNameColumn", "gbHeaderPad", "gffColumns"):
        L.append(f"def {k} : Nat := {facts[k]}")
    L.append("/-- per public function / method: hash of its normal form = set of atoms (constants with the operator, call or subscript they")
    L.append("occur in; public names; raised classes; `assert`), ordered list of checks (`if{atoms of the test}` followed by what is raised),")
    L.append("parameter names and defaults; private helpers and private globals are inlined where they are used.  Independent of names of")
    L.append("locals / private helpers / private globals, of comments, docstrings, annotations, formatting, message texts, of temporaries,")
    L.append("hoisted invariants, comprehension vs loop.  The normal forms are at the end of this file. -/")
    for mod, rows in fps.items():
        L.append(f"def fp_{mod} : List (String × Nat) := [" + ", ".join(f"({_lstr(n)}, {h})" for n, h in rows) + "]")
    L.append("/- token lists behind the hashes (for reading a diff):")
    L += [d.replace("/-", "/ -") for d in dump]
    L.append("-/")
    return L


def gen_lean():
    """Everything is found by shape (what an expression contains), not by the private name it is bound to.  A fact that is
    not found gets a value no source can have and a line in `extractionNotes`: the NAMED obligation about it breaks, the
    extraction as a whole does not."""
    import ast
    import string
    from common import paths

    notes = []

    def one(xs, what):
        xs = list(dict.fromkeys(xs))
        if len(xs) != 1:
            raise ValueError(f"{what}: expected exactly one, found {len(xs)}")
        return xs[0]

    def guarded(name, default, thunk):
        try:
            return thunk()
        except Exception as e:  # noqa: BLE001
            notes.append(f"{name}: {type(e).__name__}: {e}")
            return default

    def mod(rel):
        return _TieModule(os.path.join(paths.SRC, rel))

    def not_quoted():
        g = mod("biotite/sequence/io/gff/file.py")
        nq = one([v for v in g.globals.values() if any(isinstance(n, ast.Attribute) and n.attr == "punctuation" for n in ast.walk(v))],
                 "module-level global of gff/file.py built from string.punctuation (the `safe` set of quote)")
        # evaluate the defining expression with nothing but `string` in scope (it is a pure str expression)
        val = eval(compile(ast.Expression(nq), "gff/file.py", "eval"), {"__builtins__": {}, "string": string})
        if not isinstance(val, str):
            raise ValueError("the safe set of gff/file.py is not a str")
        return val

    def quoted_columns():
        # which of the first three columns of the line writer go through quote(): the tie for the `type` fix
        g = mod("biotite/sequence/io/gff/file.py")
        _, fn = _tie_find(g, _PRIV_PREDS["gff.create_line"], "the GFF line writer ('\\t'.join)")
        params = [x.arg for x in fn.args.args][:3]
        if params != ["seqid", "source", "type"]:
            raise ValueError(f"the GFF line writer no longer starts with the columns seqid, source, type: {params}")
        quoted = []
        for n in ast.walk(fn):
            if isinstance(n, ast.Assign) and isinstance(n.targets[0], ast.Name) and n.targets[0].id in params:
                if any(isinstance(c, ast.Call) and getattr(c.func, "id", "") == "quote" for c in ast.walk(n.value)):
                    quoted.append(n.targets[0].id)
        return sorted(set(quoted))

    def fastq_offsets():
        q = mod("biotite/sequence/io/fastq/file.py")
        return ast.literal_eval(one([v for v in q.globals.values() if isinstance(v, ast.Dict) and v.keys and all(isinstance(k, ast.Constant) and isinstance(k.value, str) for k in v.keys)
                                     and all(isinstance(x, ast.Constant) and isinstance(x.value, int) for x in v.values)], "the name -> offset dict of fastq/file.py"))

    def feature_columns():
        an = mod("biotite/sequence/io/genbank/annotation.py")
        ints = sorted(v.value for v in an.globals.values() if isinstance(v, ast.Constant) and isinstance(v.value, int) and not isinstance(v.value, bool))
        if len(ints) != 2:
            raise ValueError(f"genbank/annotation.py: expected two integer column constants (key start, qualifier start), found {ints}")
        return tuple(ints)

    def origin_columns():
        sq = mod("biotite/sequence/io/genbank/sequence.py")
        int_globals = {k: v.value for k, v in sq.globals.items() if isinstance(v, ast.Constant) and isinstance(v.value, int) and not isinstance(v.value, bool)}
        if len(int_globals) != 2:
            raise ValueError(f"genbank/sequence.py: expected two integer constants (symbols per chunk, chunks per line), found {int_globals}")
        # the chunk width is the constant that is the step of a range / the width `i : i + W` of a slice of the sequence text
        # (the other one only occurs in the product); independent of how the writer loops
        used = set()
        for _, f in sq.all_functions():
            for n in ast.walk(f):
                if isinstance(n, ast.Call) and getattr(n.func, "id", "") == "range" and len(n.args) == 3 and isinstance(n.args[2], ast.Name):
                    used.add(n.args[2].id)
                if isinstance(n, ast.Slice) and isinstance(n.upper, ast.BinOp) and isinstance(n.upper.op, ast.Add):
                    used |= {x.id for x in (n.upper.left, n.upper.right) if isinstance(x, ast.Name)}
        step = one(sorted(used & set(int_globals)), "the chunk width (step of the chunk loop / width of the slice) among the integer constants")
        chunk = int_globals[step]
        chunks = one([v for k, v in int_globals.items() if k != step], "chunks per line")
        prod = [v for v in sq.globals.values() if isinstance(v, ast.BinOp) and isinstance(v.op, ast.Mult) and all(isinstance(x, ast.Name) and x.id in int_globals for x in (v.left, v.right))]
        one(prod, "symbols per line as the product of the two constants")
        return chunk, chunks, chunk * chunks

    nqs = guarded("notQuoted", "", not_quoted)
    quoted = guarded("quotedColumns", ["<not found>"], quoted_columns)
    offsets = guarded("fastqOffsets", {}, fastq_offsets)
    key_start, qual_start = guarded("keyStart/qualStart", (0, 0), feature_columns)
    chunk, chunks, per_line = guarded("symbolsPerChunk/chunksPerLine/symbolsPerLine", (0, 0, 0), origin_columns)
    body = [
        "/- REGENERATED on every run by harness/props/c12.py from sequence/io/{gff/file.py, fastq/file.py, genbank/annotation.py, genbank/sequence.py}. Do not edit. -/",
        "namespace BiotiteModel.Gen.C12",
        "/-- character codes of `_NOT_QUOTED` (gff/file.py), the `safe` argument of `urllib.parse.quote`. -/",
        "def notQuoted : List Nat := [" + ", ".join(str(ord(c)) for c in nqs) + "]",
        "/-- the columns among seqid/source/type that `_create_line` passes through `quote`. -/",
        "def quotedColumns : List String := [" + ", ".join(f'"{c}"' for c in quoted) + "]",
        "/-- `_OFFSETS` (fastq/file.py): format name ↦ ASCII offset. -/",
        "def fastqOffsets : List (String × Int) := [" + ", ".join(f'("{k}", {int(v)})' for k, v in offsets.items()) + "]",
        "/-- GenBank column constants. -/",
        f"def keyStart : Nat := {key_start}",
        f"def qualStart : Nat := {qual_start}",
        f"def symbolsPerChunk : Nat := {chunk}",
        f"def chunksPerLine : Nat := {chunks}",
        f"def symbolsPerLine : Nat := {per_line}",
    ]
    facts, fps, dump = _tie_facts(paths.SRC)
    body += _tie_lean(facts, fps, dump)
    _PRIV_CACHE.clear()
    helpers = _missing_helpers()
    body += ["/-- private helpers / globals the adapter and the oracles call directly and that were NOT found by any of their traits",
             "(the cases that need them are then judged by the oracles alone, or not at all). -/",
             "def helpersMissing : List String := [" + ", ".join(_lstr(h.split(":")[0]) for h in helpers) + "]"]
    allnotes = notes + facts.get("_missing", []) + helpers
    if allnotes:
        body += ["/- extraction notes (facts that were not found got a value no source can have):"] + [x.replace("-/", "- /").replace("/-", "/ -") for x in allnotes] + ["-/"]
    body += ["end BiotiteModel.Gen.C12", ""]
    return {"BiotiteModel/Gen/C12.lean": "\n".join(body)}


# ------------------------------------------------------------------ generators
_PRIV_CACHE = {}


class _Unavailable(ValueError):
    """a private helper of biotite the harness wants to call directly was not found by any of its traits"""


def _has(f, test):
    import ast
    return any(test(n) for n in ast.walk(f))


def _mk_priv_preds():
    import ast
    call_attr = lambda name: (lambda n: isinstance(n, ast.Call) and getattr(n.func, "attr", "") == name)      # noqa: E731
    call_id = lambda name: (lambda n: isinstance(n, ast.Call) and getattr(n.func, "id", "") == name)          # noqa: E731
    const = lambda v: (lambda n: isinstance(n, ast.Constant) and type(n.value) is type(v) and n.value == v)   # noqa: E731
    tabjoin = lambda n: (isinstance(n, ast.Call) and isinstance(n.func, ast.Attribute) and n.func.attr == "join"   # noqa: E731
                         and isinstance(n.func.value, ast.Constant) and n.func.value.value == "\t")
    priv = lambda f: f.name.startswith("_") and not f.name.startswith("__")                                   # noqa: E731
    return {
        # each list: traits tried in order, the first that singles out exactly one function wins
        "fastq.encode": [lambda f: _has(f, lambda n: isinstance(n, ast.Attribute) and n.attr == "tobytes"),
                         lambda f: priv(f) and _has(f, call_attr("decode")) and _has(f, call_attr("astype"))],
        "fastq.decode": [lambda f: _has(f, lambda n: isinstance(n, ast.Attribute) and n.attr == "frombuffer"),
                         lambda f: priv(f) and _has(f, call_attr("encode")) and _has(f, call_attr("astype")),
                         lambda f: priv(f) and _has(f, call_id("bytearray"))],
        "gb.loc_print": [lambda f: _has(f, const("complement(")),
                         lambda f: priv(f) and _has(f, lambda n: isinstance(n, ast.Constant) and isinstance(n.value, str) and "complement" in n.value) and _has(f, call_id("str"))],
        "gb.loc_parse": [lambda f: _has(f, lambda n: call_attr("startswith")(n) and n.args and isinstance(n.args[0], ast.Tuple)),
                         lambda f: priv(f) and _has(f, const("complement")) and _has(f, call_attr("startswith"))],
        "gb.seq_start": [lambda f: priv(f) and _has(f, call_id("int")) and _has(f, call_attr("split")),
                         lambda f: priv(f) and _has(f, call_id("int")) and len(f.args.args) == 1],
        "gff.create_line": [lambda f: _has(f, tabjoin),
                            lambda f: priv(f) and [x.arg for x in f.args.args][-9:-6] == ["seqid", "source", "type"]],
    }


_PRIV_PREDS = _mk_priv_preds()
_PRIV_WHERE = {
    "fastq.encode": ("biotite.sequence.io.fastq.file", "biotite/sequence/io/fastq/file.py"),
    "fastq.decode": ("biotite.sequence.io.fastq.file", "biotite/sequence/io/fastq/file.py"),
    "gb.loc_print": ("biotite.sequence.io.genbank.annotation", "biotite/sequence/io/genbank/annotation.py"),
    "gb.loc_parse": ("biotite.sequence.io.genbank.annotation", "biotite/sequence/io/genbank/annotation.py"),
    "gb.seq_start": ("biotite.sequence.io.genbank.sequence", "biotite/sequence/io/genbank/sequence.py"),
    "gff.create_line": ("biotite.sequence.io.gff.file", "biotite/sequence/io/gff/file.py"),
    "gff.safe": ("biotite.sequence.io.gff.file", "biotite/sequence/io/gff/file.py"),
    "fastq.offsets": ("biotite.sequence.io.fastq.file", "biotite/sequence/io/fastq/file.py"),
}
# which private helper an operation of the adapter calls directly; without the helper the cases that use the operation are
# judged by the oracles alone (no `ops`), and gen_lean() reports the missing helper under the obligation C12_gen_helpers_found
_OP_NEEDS = {"fq_enc": ["fastq.encode"], "fq_dec": ["fastq.decode"], "loc_rt": ["gb.loc_print", "gb.loc_parse"], "loc_parse": ["gb.loc_parse"],
             "gff_rt": ["gff.create_line"], "org_read": ["gb.seq_start"]}


def _gb_seq_string(lines):
    """the sequence text of an ORIGIN block through the PUBLIC reader (no private helper needed)"""
    from biotite.sequence.io.genbank import sequence as gbs
    return gbs.get_raw_sequence(_GbStub(lines))


def _priv(role):
    """A private helper / global of biotite the adapter has to call, found by what it contains (same
    patterns as the Gen extractor), not by its name: a rename of a private name must not disturb the check.
    Raises _Unavailable when nothing fits (the callers then abstain; see _missing_helpers)."""
    import ast
    import importlib
    from common import paths
    if role in _PRIV_CACHE:
        if isinstance(_PRIV_CACHE[role], _Unavailable):
            raise _PRIV_CACHE[role]
        return _PRIV_CACHE[role]
    if role == "gb.seq_string":
        return _gb_seq_string
    gspec = {
        "gff.safe": lambda v: any(isinstance(n, ast.Attribute) and n.attr == "punctuation" for n in ast.walk(v)),
        "fastq.offsets": lambda v: (isinstance(v, ast.Dict) and v.keys and all(isinstance(k, ast.Constant) and isinstance(k.value, str) for k in v.keys)
                                    and all(isinstance(x, ast.Constant) and isinstance(x.value, int) for x in v.values)),
    }
    modname, rel = _PRIV_WHERE[role]
    try:
        mod = _TieModule(os.path.join(paths.SRC, rel))
        if role in _PRIV_PREDS:
            q, _ = _tie_find(mod, _PRIV_PREDS[role], role)
            obj = importlib.import_module(modname)
            for part in q.split("."):
                obj = getattr(obj, part)
        else:
            names = [k for k, v in mod.globals.items() if gspec[role](v)]
            if len(names) != 1:
                raise ValueError(f"{role}: expected exactly one module-level global of that shape, found {names}")
            obj = getattr(importlib.import_module(modname), names[0])
    except Exception as e:  # noqa: BLE001
        _PRIV_CACHE[role] = _Unavailable(f"{role}: {type(e).__name__}: {e}")
        raise _PRIV_CACHE[role]
    _PRIV_CACHE[role] = obj
    return obj


def _missing_helpers():
    out = []
    for role in _PRIV_WHERE:
        try:
            _priv(role)
        except _Unavailable as e:
            out.append(str(e))
    return out


def _oracle_only_where_helpers_miss(cases):
    """cases whose operations need a private helper that was not found keep their oracle but lose their `ops`"""
    gone = {r.split(":")[0] for r in _missing_helpers()}
    if not gone:
        return cases
    out = []
    for c in cases:
        ops = c.get("ops") or []
        if any(set(_OP_NEEDS.get(o.split(" ")[0], [])) & gone for o in ops):
            c = {k: v for k, v in c.items() if k != "ops"}
        out.append(c)
    return out


def _safe_codes():
    try:
        safe = _priv("gff.safe")
    except _Unavailable:
        # the set the model was written against (gen_lean reports the missing global under C12_gen_helpers_found / C12_gen_not_quoted)
        import string
        safe = "".join(c for c in string.punctuation if c not in "%;=&,") + " "
    return ",".join(str(ord(c)) for c in safe)


def g_header(rng, edge=False):
    pool = "abcXYZ019 _|.:-" + "><;@+=/%#,&"
    n = rng.choice([0, 1, 2, 3, 5, 8, 12])
    h = "".join(rng.choice(pool) for _ in range(n))
    if rng.random() < 0.1:
        h += rng.choice(["é", "Ω", "字"])
    h = h.strip()
    if edge:
        h = rng.choice([" ", "\t", "", "  "]) + h + rng.choice([" ", "", "\n", " \n", "\t", "\r", "\r\n"])
        if rng.random() < 0.4 and len(h) > 2:
            # every character str.splitlines() breaks at must be removed by the writer
            h = h[:1] + rng.choice(["\n", "\r", "\x0b", "\x0c", "\x1c", "\x1e", "\x85", "\u2028", "\u2029", "\r\n"]) + h[1:]
    return h


def g_seq(rng, alphabet=None, nonempty=False):
    alphabet = alphabet or rng.choice([NUC, AMB, PROT, NUC + "-"])
    n = rng.choice([0, 1, 2, 3, 4, 7, 10, 25, 61, 130])
    if nonempty and n == 0:
        n = 1
    return "".join(rng.choice(alphabet) for _ in range(n))


def g_seq_w(rng, cpl, alphabet=None, nonempty=False):
    """sequence whose length is, in a third of the cases, an exact multiple of the line width"""
    if cpl and rng.random() < 0.35:
        alphabet = alphabet or rng.choice([NUC, AMB, PROT])
        return "".join(rng.choice(alphabet) for _ in range(cpl * rng.choice([1, 1, 2, 3])))
    return g_seq(rng, alphabet, nonempty)


def g_fasta(rng):
    n = rng.choice([1, 1, 2, 3, 5])
    heads = []
    while len(heads) < n:
        h = g_header(rng)
        if h not in heads:
            heads.append(h)
    cpl = rng.choice([1, 2, 3, 5, 10, 60, 80, 80])
    return [[h, g_seq_w(rng, cpl)] for h in heads], cpl


def c_fasta_rt(rng):
    entries, cpl = g_fasta(rng)
    ops = [f"fa_new {cpl}"] + [f"fa_set {es(h)} {es(s)}" for h, s in entries] + ["fa_reread", "fa_items"]
    return {"kind": "fasta_rt", "ops": ops, "spec": {"o": "fasta", "cpl": cpl, "hist": [["set", h, s] for h, s in entries]}}


def c_fasta_edit(rng):
    cpl = rng.choice([1, 3, 7, 80, 80, 0])       # 0: every set must be refused
    pool = [g_header(rng) for _ in range(3)] + [g_header(rng, edge=True) for _ in range(2)]
    ops, hist = [f"fa_new {cpl}"], []
    for _ in range(rng.randint(2, 7)):
        r = rng.random()
        h = rng.choice(pool)
        if r < 0.55:
            s = g_seq_w(rng, cpl)
            ops.append(f"fa_set {es(h)} {es(s)}")
            hist.append(["set", h, s])
        elif r < 0.8:
            ops.append(f"fa_del {es(h)}")
            hist.append(["del", h])
        else:
            ops.append(rng.choice([f"fa_get {es(h)}", "fa_copy"]))
    ops += ["fa_poke", "fa_items", "fa_reread"]
    return {"kind": "fasta_edit", "ops": ops, "spec": {"o": "fasta", "cpl": cpl, "hist": hist}}


def c_raw_symbols(rng):
    """sequence strings with characters the formats reserve ('>' ';' blanks in FASTA, '+' '@' blanks in FASTQ):
    outside the theorems' SeqOk / QSeqOk; no oracle claim, the model must still agree with the code op by op"""
    if rng.random() < 0.5:
        cpl = rng.choice([1, 2, 3, 80])
        ops = [f"fa_new {cpl}"]
        for i in range(rng.randint(1, 3)):
            s = "".join(rng.choice("ACGT>; \t") for _ in range(rng.choice([1, 2, 3, 5, 8])))
            ops.append(f"fa_set {es('h' + str(i))} {es(s)}")
        ops += ["fa_items", f"fa_del {es('h0')}", "fa_reread"]
        return {"kind": "raw_symbols", "ops": ops}
    cpl = rng.choice([None, 1, 2, 3])
    ops = [f"fq_new 33 {'-' if cpl is None else cpl}"]
    for i in range(rng.randint(1, 3)):
        s = "".join(rng.choice("ACGT+@ ") for _ in range(rng.choice([1, 2, 3, 5, 8])))
        ops.append(f"fq_set {es('r' + str(i))} {es(s)} {ei([rng.randint(0, 60) for _ in s])}")
    ops += ["fq_items", "fq_reread"]      # no further edit: with a '+' at a line start the text is no FASTQ text any more
    return {"kind": "raw_symbols", "ops": ops}


def c_fasta_text(rng):
    """malformed-ish stream: arbitrary small texts; only read() vs read_iter() consistency is asserted"""
    lines = []
    for _ in range(rng.randint(0, 7)):
        r = rng.random()
        if r < 0.3:
            lines.append(">" + "".join(g_header(rng, edge=rng.random() < 0.3).splitlines()))
        elif r < 0.6:
            lines.append(rng.choice(["", " "]) * (rng.random() < 0.2) + g_seq(rng, NUC, True) + rng.choice(["", " ", "  "]))
        elif r < 0.75:
            lines.append(";" + g_header(rng))
        elif r < 0.9:
            lines.append(rng.choice(["", " ", "\t"]))
        else:
            lines.append(rng.choice([" >x", "x>y", " ;c", "A;B"]))
    return {"kind": "fasta_text", "ops": [f"fa_read 80 {el(lines)}", "fa_items"], "spec": {"o": "fasta_text", "lines": lines}}


def g_scores(rng, off, n, cpl):
    lo, hi = 33 - off, 126 - off     # exactly the scores the writer accepts: printable, non-blank ASCII
    qs = [rng.choice([lo, hi, rng.randint(lo, hi), rng.randint(lo, hi)]) for _ in range(n)]
    # force '@' and '+' at line starts inside the score block
    step = cpl if cpl else n
    for i in range(0, n, max(step, 1)):
        if rng.random() < 0.5:
            qs[i] = rng.choice([64, 43]) - off
    return [q for q in qs]


def g_fastq(rng):
    off = rng.choice([33, 64, 33, 64, rng.choice([0, 20, 40, -10, -100, 200, -1000, 127, -128])])
    cpl = rng.choice([None, None, 1, 2, 3, 5, 20, 80])
    ents = []
    heads = []
    for _ in range(rng.choice([1, 1, 2, 3])):
        h = g_header(rng)
        if h in heads:
            continue
        heads.append(h)
        s = g_seq_w(rng, cpl, rng.choice([NUC, AMB, NUC + "@"]), nonempty=True)
        ents.append([h, s, g_scores(rng, off, len(s), cpl)])
    return off, cpl, ents


def c_fastq_rt(rng):
    off, cpl, ents = g_fastq(rng)
    c = "-" if cpl is None else str(cpl)
    ops = [f"fq_new {off} {c}"] + [f"fq_set {es(h)} {es(s)} {ei(q)}" for h, s, q in ents] + ["fq_reread", "fq_items"]
    return {"kind": "fastq_rt", "ops": ops, "spec": {"o": "fastq", "off": off, "cpl": cpl, "hist": [["set", h, s, q] for h, s, q in ents]}}


def c_fastq_edit(rng):
    off = rng.choice([33, 64])
    cpl = rng.choice([None, 1, 3, 10, 0])       # 0: every set must be refused
    c = "-" if cpl is None else str(cpl)
    pool = [g_header(rng) for _ in range(3)] + [g_header(rng, edge=True)]
    ops, hist = [f"fq_new {off} {c}"], []
    for _ in range(rng.randint(2, 6)):
        r = rng.random()
        h = rng.choice(pool)
        if r < 0.6:
            s = g_seq_w(rng, cpl, NUC, nonempty=rng.random() < 0.9)     # an empty sequence must be rejected (ValueError)
            q = g_scores(rng, off, len(s), cpl)
            ops.append(f"fq_set {es(h)} {es(s)} {ei(q)}")
            hist.append(["set", h, s, q])
        elif r < 0.8:
            ops.append(f"fq_del {es(h)}")
            hist.append(["del", h])
        elif r < 0.9:
            # a replacement / addition that must be refused: score not encodable, or lengths differ
            s = g_seq(rng, NUC, nonempty=True)
            q = g_scores(rng, off, len(s), cpl)
            if rng.random() < 0.6:
                q[rng.randrange(len(q))] = rng.choice([127 - off, 128 - off, 256 + 65 - off, 32 - off, 10 - off, 9 - off, -off - 1])
            else:
                q = q + [0]
            ops.append(f"fq_set {es(h)} {es(s)} {ei(q)}")
            hist.append(["set", h, s, q])
        else:
            ops.append(rng.choice([f"fq_get {es(h)}", "fq_copy"]))
    ops += ["fq_poke", "fq_items", "fq_reread"]
    return {"kind": "fastq_edit", "ops": ops, "spec": {"o": "fastq", "off": off, "cpl": cpl, "hist": hist}}


def c_fastq_text(rng):
    lines = []
    for _ in range(rng.randint(0, 3)):
        s = g_seq(rng, NUC, True)
        w = rng.choice([1, 2, 3, 100])
        lines.append("@" + g_header(rng))
        lines += [s[i:i + w] for i in range(0, len(s), w)]
        lines.append(rng.choice(["+", "+", "+id", "+ x"]))
        q = "".join(rng.choice("@+I!~5") for _ in range(len(s) + rng.choice([0, 0, 0, 0, 1, -1])))
        w = rng.choice([1, 2, 3, 100])
        lines += [q[i:i + w] for i in range(0, len(q), w)]
        if rng.random() < 0.2:
            lines.append(rng.choice(["", "  ", "x"]))
    return {"kind": "fastq_text", "ops": [f"fq_read 33 - {el(lines)}", "fq_items"], "spec": {"o": "fastq_text", "lines": lines}}


def c_fastq_offset(rng):
    off = rng.choice([33, 64, 0, 100, -30, 127, -128, 200])
    qs = [rng.randint(-140, 140) for _ in range(rng.randint(0, 6))]
    s = "".join(chr(rng.choice([33, 126, 64, 43, 10, 32, 200, rng.randint(0, 127)])) for _ in range(rng.randint(0, 6)))
    return {"kind": "fastq_offset", "ops": [f"fq_enc {off} {ei(qs)}", f"fq_dec {off} {es(s)}"]}


def g_loc(rng, expressible=True):
    a = rng.choice([1, 5, 9, 10, 99, 100, 12345, 0, -3, -120])
    b = a + rng.choice([0, 0, 1, 2, 9, 90, 1000])
    d = 0
    if rng.random() < 0.35:
        d |= 4
    if rng.random() < 0.35:
        d |= 8
    r = rng.random()
    if r < 0.2:
        d |= 16
    elif r < 0.4:
        d |= 32
    if not expressible:
        d |= rng.choice([1, 2, 3, 48])
    return [a, b, 1 if rng.random() < 0.4 else 0, d]


def g_locs(rng, expressible=True):
    n = rng.choice([1, 1, 1, 2, 3, 5])
    out = []
    while len(out) < n:
        l = g_loc(rng, expressible)
        if l not in out:
            out.append(l)
    return out


def c_loc(rng):
    locs = g_locs(rng, expressible=rng.random() < 0.85)
    return {"kind": "loc", "ops": ["loc_rt " + ";".join(":".join(str(x) for x in l) for l in locs)],
            "spec": {"o": "loc", "locs": locs}}


def c_loc_parse(rng):
    def single():
        a, b = rng.choice(["1", "5", "<5", ">5", "-3", "12", "", "x", "+4", " 7"]), rng.choice(["9", ">9", "<9", "-1", "", "20", "3"])
        return rng.choice([a, a + ".." + b, a + "." + b, a + "^" + b, a + ".." + b + ".." + a, a + "..." + b, a + "^" + b + "^1"])

    def compl():
        return rng.choice(["complement(", "complement", "complement(("]) + rng.choice([single(), "join(" + single() + "," + single() + ")"]) + rng.choice([")", "", "))"])

    r = rng.random()
    if r < 0.3:
        s = single()
    elif r < 0.5:
        s = compl()
    else:
        parts = [rng.choice([single(), compl(), " " + single() + " "]) for _ in range(rng.randint(0, 4))]
        s = rng.choice(["join(", "order(", "join", "joinx("]) + ",".join(parts) + rng.choice([")", "", ") "])
    return {"kind": "loc_parse", "ops": [f"loc_parse {es(s)}"]}


def g_text(rng, extra=""):
    pool = "abcXYZ019 _.-" + "%;=&,\t" + "#>/\"'+" + extra
    s = "".join(rng.choice(pool) for _ in range(rng.choice([0, 1, 2, 4, 8])))
    if rng.random() < 0.1:
        s += rng.choice(["é", "%41", "%zz", "字", "%"])
    if rng.random() < 0.05:
        s = rng.choice([".", "##x", "#", ">", "a\tb", ";", "=", "ID"])      # looks like a delimiter / placeholder of the format
    return s


def g_gff_entry(rng, valid=True):
    def col():
        t = g_text(rng).strip()
        if valid:
            t = t.lstrip("#>") .strip() or "x"
        return t
    attrs = {}
    for _ in range(rng.choice([0, 1, 2, 3])):
        k = g_text(rng) or "k"
        v = g_text(rng)
        attrs[k] = v
    if rng.random() < 0.5:
        attrs = {"ID": "f" + str(rng.randint(0, 9)), **attrs}
    if rng.random() < 0.25:
        attrs = rng.choice([{"ID": "cds1", "product": "some protein"}, {"ID": "m1"}, {"Parent": "g", "note": "x y"}])   # shared by several entries
    score = rng.choice([None, None, 1.0, 0.5, 1e-30, 12345.678])
    strand = rng.choice(["+", "-", "."])
    phase = rng.choice([None, 0, 1, 2])
    a = rng.choice([1, 10, 999, -5])
    return [col(), col(), col(), a, a + rng.choice([0, 1, 50]), score, strand, phase, attrs]


def enc_entry(e):
    sid, src, ty, a, b, score, strand, phase, attrs = e
    at = "|".join(es(k) + "~" + es(v) for k, v in attrs.items()) if attrs else "-"
    return " ".join([es(sid), es(src), es(ty), str(a), str(b), "-" if score is None else es(str(score)), strand,
                     "." if phase is None else str(phase), at])


def c_gff_quote(rng):
    s = g_text(rng)
    q = "".join(rng.choice("ab%4zA1F ;=") for _ in range(rng.randint(0, 8)))
    return {"kind": "gff_quote", "ops": [f"gff_quote {_safe_codes()} {es(s)}", f"gff_unquote {es(q)}"], "spec": {"o": "quote", "s": s}}


def c_gff_line(rng):
    valid = rng.random() < 0.8
    e = g_gff_entry(rng, valid)
    return {"kind": "gff_line", "ops": [f"gff_rt {_safe_codes()} {enc_entry(e)}"], "spec": {"o": "gff_entries", "entries": [e]} if valid else None}


def c_gff_parse(rng):
    cols = [g_text(rng).replace("\t", "") or "x", "src", "t%41", rng.choice(["1", "x", "", " 2"]), rng.choice(["5", "-1"]),
            rng.choice([".", "1.5"]), rng.choice(["+", "-", ".", "?"]), rng.choice([".", "0", "x"]),
            rng.choice([".", "ID=a", "ID=a;b=c%3D", "ID", "a=b=c", "a=1;a=2", "=", ";"])]
    if rng.random() < 0.2:
        cols = cols[:rng.randint(0, 8)]
    line = rng.choice(["", " "]) + "\t".join(cols) + rng.choice(["", " ", "\t"])
    # escapes of single bytes >= 0x80 are not valid UTF-8: `unquote` then substitutes U+FFFD, which is the
    # codec's business (outside the model, which works on bytes) -> keep hand-made escapes in the ASCII range
    line = re.sub(r"%([89a-fA-F])(?=[0-9a-fA-F])", "%4", line)
    return {"kind": "gff_parse", "ops": [f"gff_parse {es(line)}"]}


def c_gff_edit(rng):
    safe = _safe_codes()
    ops, hist = ["gff_new"], []
    n = 0
    for _ in range(rng.randint(2, 7)):
        r = rng.random()
        if r < 0.4 or n == 0:
            e = g_gff_entry(rng, valid=n == 0 or rng.random() < 0.85)      # an invalid entry (empty column, '#'/'>' seqid) must be refused
            if e[0].strip()[:1] in ("#", ">", "") or not e[1].strip() or not e[2].strip():
                ops.append(f"gff_append {safe} {enc_entry(e)}")
                hist.append(["append", e])
                continue
            ops.append(f"gff_append {safe} {enc_entry(e)}")
            hist.append(["append", e])
            n += 1
        elif r < 0.55:
            i = rng.randint(-n - 1, n + 1)
            e = g_gff_entry(rng)
            ops.append(f"gff_insert {i} {safe} {enc_entry(e)}")
            hist.append(["insert", i, e])
            if -n <= i <= n:
                n += 1
        elif r < 0.7:
            i = rng.randint(-n - 1, n)
            e = g_gff_entry(rng)
            ops.append(f"gff_set {i} {safe} {enc_entry(e)}")
            hist.append(["set", i, e])
        elif r < 0.85:
            i = rng.randint(-n - 1, n)
            ops.append(f"gff_del {i}")
            hist.append(["del", i])
            if -n <= i < n:
                n -= 1
        elif r < 0.93:
            d = rng.choice(["sequence-region", "note", "FASTAx", "x"])
            args = [rng.choice(["a", "1", "b c"]) for _ in range(rng.randint(0, 2))]
            ops.append(f"gff_directive {es(d)} {es(d + ' ' + ' '.join(args))}")
            hist.append(["directive", d, args])
        else:
            ops.append(rng.choice([f"gff_get {rng.randint(-n - 1, n)}", "gff_poke", "gff_copy"]))
    ops += ["gff_poke", "gff_reread"]
    return {"kind": "gff_edit", "ops": ops, "spec": {"o": "gff_hist", "hist": hist}}


def c_gff_group(rng):
    """entries as get_annotation sees them: consecutive entries with the same ID form one feature"""
    ents = []
    for _ in range(rng.randint(0, 6)):
        a = rng.choice([1, 5, 20, 100])
        at = {}
        r = rng.random()
        if r < 0.7:
            at["ID"] = rng.choice(["a", "b", "a", "c"])
        if rng.random() < 0.5:
            at[rng.choice(["Name", "note"])] = rng.choice(["x", "y z", ""])
        if r >= 0.7 and r < 0.8:
            at = {"Name": "n", "ID": "a"}
        ents.append([rng.choice(["gene", "CDS", "exon"]), a, a + rng.choice([0, 3, 10]), rng.choice(["+", "-", "+", "."]), at])
    enc = ";".join(":".join([es(t), str(a), str(b), sd, ("|".join(es(k) + "~" + es(v) for k, v in at.items()) if at else "-")])
                   for t, a, b, sd, at in ents) if ents else "-"
    return {"kind": "gff_group", "ops": [f"gff_group {enc}"]}


# ---- GenBank feature table / ORIGIN at line level
def g_gb_quals(rng, valid=True):
    q = {}
    for _ in range(rng.choice([0, 1, 2, 3, 4])):
        k = rng.choice(["gene", "product", "note", "pseudo", "codon_start", "db_xref", "a/b", "x-1", "partial", "k_9"])
        r = rng.random()
        if r < 0.3:
            q[k] = None
        else:
            v = "".join(rng.choice("abAB19 /=:;,.()-_'%<>@+") for _ in range(rng.choice([0, 1, 3, 8, 20])))
            if rng.random() < 0.1:
                v += rng.choice(["é", "字", "\u00a0x", "Ω "])
            if r < 0.45:
                v += "\n" + "".join(rng.choice("xyz /= ") for _ in range(rng.choice([0, 2, 6])))
            if r > 0.9:
                v = rng.choice([" ", "  x ", "/k=", "/", "="]) + v
            q[k] = v
    return q


def enc_quals(q):
    return "|".join(es(k) + "~" + ("!" if v is None else es(v)) for k, v in q.items()) if q else "-"


def enc_feat(f):
    return es(f["key"]) + "@" + ";".join(":".join(str(x) for x in l) for l in f["locs"]) + "@" + enc_quals(f["qual"])


def g_gb_feat(rng, single=False, excluded=False):
    f = {"key": rng.choice(["gene", "CDS", "source", "misc_feature", "a-15-char-key__", "5'UTR", "x y"]),
         "locs": [g_loc(rng)] if single else g_locs(rng), "qual": g_gb_quals(rng)}
    if excluded and rng.random() < 0.08:
        # what the feature table syntax cannot express: set_annotation must refuse it (ValueError)
        r = rng.random()
        if r < 0.4:
            f["key"] = rng.choice(["averyveryverylongkey", "a-16-char-key___", "", " gene", "gene "])
        elif r < 0.8:
            f["qual"] = {**f["qual"], rng.choice(["a b", "a=b", 'q"', " k", "t\tk"]): rng.choice([None, "v"])}
        else:
            f["qual"] = {**f["qual"], "note": rng.choice(['a"b', '"', 'x ""y"" z'])}
    return f


def gb_feat_refused(f):
    """mirror of the documented restriction, written from the format: 15-column key, /key="value" syntax"""
    k = f["key"]
    if not k or len(k) > 15 or k != k.strip():
        return True
    for q, val in f["qual"].items():
        if any(c.isspace() for c in q) or "=" in q or '"' in q or (val is not None and '"' in val):
            return True
    return False


def c_gbf_rt(rng):
    feats = [g_gb_feat(rng, excluded=True) for _ in range(rng.choice([0, 1, 1, 2, 3]))]
    if not feats:
        return {"kind": "gbf_rt", "ops": ["gbf_parse -"]}
    return {"kind": "gbf_rt", "ops": ["gbf_rt " + "#".join(enc_feat(f) for f in feats)],
            "spec": {"o": "genbank", "format": "gb", "seq": "ACGT", "start": 1, "features": feats}}


def c_gbf_print(rng):
    return {"kind": "gbf_print", "ops": ["gbf_print " + enc_feat(g_gb_feat(rng, single=True, excluded=True))]}


def c_gbf_parse(rng):
    """malformed-ish stream: hand-made FEATURES content"""
    lines = []
    for j in range(rng.randint(0, 7)):
        r = rng.random()
        if r < 0.3 or (j == 0 and r < 0.85):
            lines.append("     " + rng.choice(["gene", "CDS", "x", "averyveryverylongkey"]).ljust(16) + rng.choice(
                ["1..5", "complement(3..9)", "join(1..2,", "7", "<1..>9", "x", "", "9..5", "1..5 /pseudo", "1..5 /a=\"b\""]))
        elif r < 0.85:
            lines.append(" " * 21 + rng.choice(
                ['/gene="a"', '/gene="a', 'b c"', '/pseudo', '/pseudo /x', '/codon_start=1', '/note="x=y /z"', '/note=""', '/a=b=c',
                 '/k', '/k="1"', '/k="2"', '"', '=', '/', '/=', '/="v"', 'text', '/n="a" /m="b"', '/n="a"/m', ' /sp ="q" ', '/q=" x "',
                 '3..4)', '/u=v w', '/gene ="a"']))
        elif r < 0.92:
            lines.append(rng.choice(["", "  x", "     ", "      y"]))
        else:
            lines.append(" " * rng.choice([5, 20, 22]) + rng.choice(['/gene="a"', "zz", ""]))
    return {"kind": "gbf_parse", "ops": [f"gbf_parse {el(lines)}"]}


def c_org_print(rng):
    n = rng.choice([0, 1, 9, 10, 11, 59, 60, 61, 119, 120, 121, 185])
    seq = "".join(rng.choice("ACGTNacgtRYKM*XZ") for _ in range(n))
    start = rng.choice([1, 1, 0, 7, -5, -61, 99999990, 999999999, 1000000000, -99999999])
    return {"kind": "org_print", "ops": [f"org_print {start} {es(seq)}"],
            "spec": {"o": "origin", "start": start, "seq": seq}}


def c_org_read(rng):
    lines = []
    for _ in range(rng.randint(0, 4)):
        lines.append(rng.choice(["        1 acgt", "       -5 acgt nn", "x-5 a", "- 5 ac", "", "  ", "1", "a 1", "  +7 ac", "12ab-34-c", "-", "--3a",
                                 "       61 acgtacgtac acgt", "abc", "9-"]))
    return {"kind": "org_read", "ops": [f"org_read {el(lines)}"]}


def c_gff_edit_dir(rng):
    """several directive lines interleaved with entries, then edits before and after them"""
    safe = _safe_codes()
    ops, hist = ["gff_new"], []
    n = 0

    def app():
        nonlocal n
        e = g_gff_entry(rng)
        ops.append(f"gff_append {safe} {enc_entry(e)}"); hist.append(["append", e]); n += 1

    def direc():
        d = rng.choice(["sequence-region", "note", "species"])
        args = [rng.choice(["chr1", "1", "99"]) for _ in range(rng.randint(0, 2))]
        ops.append(f"gff_directive {es(d)} {es(d + ' ' + ' '.join(args))}"); hist.append(["directive", d, args])
    for _ in range(rng.randint(1, 3)):
        for _ in range(rng.randint(0, 2)):
            app()
        direc()
    app()
    for _ in range(rng.randint(1, 4)):
        r = rng.random()
        i = rng.randint(0, max(n - 1, 0))
        e = g_gff_entry(rng)
        if r < 0.5:
            ops.append(f"gff_insert {i} {safe} {enc_entry(e)}"); hist.append(["insert", i, e]); n += 1
        elif r < 0.7:
            ops.append(f"gff_set {i} {safe} {enc_entry(e)}"); hist.append(["set", i, e])
        elif r < 0.85 and n > 1:
            ops.append(f"gff_del {i}"); hist.append(["del", i]); n -= 1
        else:
            direc()
    ops += ["gff_poke", "gff_reread"]
    return {"kind": "gff_edit", "ops": ops, "spec": {"o": "gff_hist", "hist": hist}}


def c_gff_fasta(rng):
    """a GFF text with directives, comments and (mostly) a '##FASTA' section; then copy() and edits"""
    safe = _safe_codes()
    ent = lambda i: "\t".join(["chr1", "src", rng.choice(["gene", "CDS"]), str(1 + i), str(9 + i), ".", "+", ".", f"ID=e{i}"])
    lines = ["##gff-version 3"]
    n = rng.randint(0, 3)
    for i in range(n):
        if rng.random() < 0.3:
            lines.append(rng.choice(["##sequence-region chr1 1 99", "#comment", ""]))
        lines.append(ent(i))
    has_fasta = rng.random() < 0.75
    if has_fasta:
        lines += ["##FASTA", ">chr1", "ACGTACGTAC", "GGTT"] + ([ent(7)] if rng.random() < 0.3 else [])
    ops, hist = [f"gff_read {el(lines)}"], []
    for _ in range(rng.randint(1, 5)):
        r = rng.random()
        e = g_gff_entry(rng)
        if r < 0.3:
            ops.append("gff_copy"); hist.append(["copy"])
        elif r < 0.5:
            ops.append(f"gff_append {safe} {enc_entry(e)}"); hist.append(["append", e])
            n += 0 if has_fasta else 1
        elif r < 0.65:
            i = rng.choice([n, 0, -1])
            ops.append(f"gff_insert {i} {safe} {enc_entry(e)}"); hist.append(["insert", i, e])
            if not (has_fasta and i == n) and -n <= i <= n:
                n += 1
        elif r < 0.75 and n:
            i = rng.randint(0, n - 1)
            ops.append(f"gff_set {i} {safe} {enc_entry(e)}"); hist.append(["set", i, e])
        elif r < 0.85 and n:
            i = rng.randint(0, n - 1)
            ops.append(f"gff_del {i}"); hist.append(["del", i]); n -= 1
        else:
            ops.append(f"gff_directive {es('note')} {es('note x')}"); hist.append(["directive", "note", ["x"]])
    ops += ["gff_get -1", "gff_reread"]
    return {"kind": "gff_edit", "ops": ops, "spec": {"o": "gff_hist", "start": lines, "hist": hist}}


def c_gff_text(rng):
    lines = []
    for _ in range(rng.randint(0, 7)):
        r = rng.random()
        if r < 0.4:
            lines.append("\t".join(["s", "src", "t", "1", "2", ".", "+", ".", rng.choice([".", "ID=a"])]))
        elif r < 0.55:
            lines.append("#" + g_header(rng))
        elif r < 0.75:
            lines.append("##" + rng.choice(["gff-version 3", "FASTA", "FASTA ", "x y", ""]))
        elif r < 0.85:
            lines.append(rng.choice(["", " ", " x"]))
        else:
            lines.append(rng.choice([">seq", "ACGT", "a\tb"]))
    return {"kind": "gff_text", "ops": [f"gff_read {el(lines)}", "gff_get 0", "gff_get -1"]}


def g_gb_field(rng):
    name = rng.choice(["LOCUS", "definition", "ACCESSION", "Source", " Source ", "comment  ", "REFERENCE", "COMMENT", "X", "ABCDEFGHIJKL", "FEATURES", "ORIGIN"])
    def ln():
        return rng.choice(["one line", "x", "a  b ", "1..2", "     gene            1..5", "        1 acgt", "//", "// x", "ORIGIN", "FEATURES  x", ""])
    if rng.random() < 0.08:
        # what _to_lines must refuse: name too long / terminator-like, unindented FEATURES content, long subfield name
        return rng.choice([("VERYLONGFIELDNAME", ["x"], {}), ("ABCDEFGHIJKLM", ["x"], {}), ("//x", ["y"], {}), ("//", ["y"], {}),
                           ("FEATURES", ["gene 1..5"], {}), ("origin", ["        1 acgt", "2 acgt"], {}),
                           ("SOURCE", ["x"], {"averylongsubfield": ["q"]}), ("", ["x"], {}), ("  ", ["x"], {})])
    if name in ("FEATURES", "ORIGIN"):
        # content of these two fields is stored without indentation: valid lines start with a blank
        content = [rng.choice(["     gene            1..5", "        1 acgt", "                     /note=\"x\""]) for _ in range(rng.choice([0, 1, 2]))]
    else:
        content = [ln() for _ in range(rng.choice([1, 1, 1, 2, 3, 0]))]     # [] must be rejected (ValueError)
    subs = {}
    if name.upper() not in ("FEATURES", "ORIGIN") and rng.random() < 0.4:
        for _ in range(rng.choice([1, 2])):
            subs[rng.choice(["ORGANISM", "authors", "TITLE", "Journal"])] = [ln() for _ in range(rng.choice([1, 2, 1, 2, 0]))]
    return name, content, subs


def c_gb_edit(rng):
    ops, hist = ["gb_new"], []
    n = 0
    for _ in range(rng.randint(2, 8)):
        r = rng.random()
        name, content, subs = g_gb_field(rng)
        enc = f"{es(name)} {el(content)} {esubs(subs)}"
        if r < 0.3 or n == 0:
            ops.append("gb_append " + enc); hist.append(["append", name, content, subs]); n += 1
        elif r < 0.45:
            i = rng.randint(-n, n + 1)
            ops.append(f"gb_insert {i} " + enc); hist.append(["insert", i, name, content, subs])
            if -n <= i <= n:
                n += 1
        elif r < 0.6:
            i = rng.randint(-n, n)
            ops.append(f"gb_set {i} " + enc); hist.append(["set", i, name, content, subs])
        elif r < 0.72:
            ops.append("gb_setfield " + enc); hist.append(["setfield", name, content, subs])
            n += 1  # upper bound only; used for index ranges
        elif r < 0.87:
            i = rng.randint(-n, n)
            ops.append(f"gb_del {i}"); hist.append(["del", i])
            if -n <= i < n:
                n -= 1
        else:
            ops.append(rng.choice([f"gb_get {rng.randint(-n, n)}", "gb_poke", "gb_copy"]))
    ops += ["gb_poke", "gb_reread"]
    return {"kind": "gb_edit", "ops": ops, "spec": {"o": "gb_hist", "hist": hist}}


def c_gb_text(rng):
    lines = []
    for _ in range(rng.randint(0, 8)):
        r = rng.random()
        if r < 0.35:
            lines.append(rng.choice(["LOCUS", "DEFINITION", "SOURCE", "X", "VERYLONGFIELDNAME"]).ljust(12) + "text")
        elif r < 0.55:
            lines.append(" " * 12 + "more text")
        elif r < 0.7:
            lines.append("  ORGANISM  Homo")
        elif r < 0.8:
            lines.append(rng.choice(["", " ", "//", "// x"]))
        elif r < 0.9:
            lines.append(rng.choice(["FEATURES             Location/Qualifiers", "ORIGIN", "     gene            1..5", "        1 acgt"]))
        else:
            lines.append("//")
    return {"kind": "gb_text", "ops": [f"gb_read {el(lines)}", "gb_get 0", "gb_get -1"]}


def c_wrap(rng):
    s = g_seq(rng)
    return {"kind": "wrap", "ops": [f"wrap {rng.choice([0, 1, 2, 3, 7, 80, len(s), len(s) + 1])} {es(s)}"]}


# ---- oracle-only cases (whole formats, Sequence objects)
def g_qual(rng):
    q = {}
    for _ in range(rng.choice([0, 1, 2, 3])):
        k = rng.choice(["gene", "product", "note", "pseudo", "codon_start", "db_xref", "locus_tag"])
        r = rng.random()
        if r < 0.2:
            q[k] = None
        else:
            v = "".join(rng.choice("abcAB19 /=:;,.()-_'%") for _ in range(rng.choice([0, 1, 3, 8, 20])))
            if r < 0.35:
                v += "\n" + "".join(rng.choice("xyz /=") for _ in range(rng.choice([0, 2, 6])))
            q[k] = v
    return q


def c_genbank(rng):
    fmt = rng.choice(["gb", "gb", "gp"])
    seq = g_seq(rng, AMB if fmt == "gb" else PROT, nonempty=True)
    feats = []
    for _ in range(rng.choice([0, 1, 2, 3])):
        feats.append({"key": rng.choice(["gene", "CDS", "source", "misc_feature", "regulatory", "a-15-char-key__"]),
                      "locs": g_locs(rng), "qual": g_qual(rng)})
    return {"kind": "genbank_rt", "spec": {"o": "genbank", "format": fmt, "seq": seq, "start": rng.choice([1, 1, 0, 7, 100, 999999, -5, -61, -1000]), "features": feats}}


def c_gff_annot(rng):
    feats = []
    for i in range(rng.choice([1, 2, 3])):
        locs = [[a, b, r, 0] for a, b, r, _ in g_locs(rng)]
        q = {k: v for k, v in g_gff_entry(rng)[8].items() if k != "ID"}
        if len(locs) > 1 or rng.random() < 0.5:
            q = {"ID": f"feat{i}", **q}
        feats.append({"key": rng.choice(["gene", "CDS", "exon", "a b", "x%41y", "t;=,&"]), "locs": locs, "qual": q})
    r = rng.random()
    if r < 0.08 and len(feats) > 1:
        feats[-1]["qual"] = {**feats[-1]["qual"], "ID": feats[0]["qual"].get("ID", "dup")}      # two features, one ID: must be refused
        feats[0]["qual"] = {**feats[0]["qual"], "ID": feats[-1]["qual"]["ID"]}
    elif r < 0.11:
        feats[-1]["qual"] = {**feats[-1]["qual"], "pseudo": None}                                  # a qualifier without value: must be refused up front
    elif r < 0.16:
        feats[0]["locs"] = [[1, 5, 0, 0], [9, 12, 0, 0]]                                          # several locations without an ID: must be refused
        feats[0]["qual"] = {k: x for k, x in feats[0]["qual"].items() if k != "ID"}
    return {"kind": "gff_annot_rt", "spec": {"o": "gff_annot", "features": feats, "seqid": rng.choice([None, "chr1", "a%b"]), "source": rng.choice([None, "me", "a b"])}}


def c_seq_conv(rng):
    fmt = rng.choice(["fasta", "fastq"])
    ents = []
    for i in range(rng.choice([1, 2, 3])):
        kind = rng.choice(["nuc", "amb", "prot"]) if fmt == "fasta" else rng.choice(["nuc", "amb"])
        s = g_seq(rng, {"nuc": NUC, "amb": AMB, "prot": PROT}[kind], nonempty=True)
        ents.append([(f"s{i} " + g_header(rng)).strip(), kind, s])
    ents = [[h, k, (x + "T" if k == "prot" and rng.random() < 0.7 else x)] for h, k, x in ents]     # threonine must stay T also with as_rna
    return {"kind": "seq_conv_rt", "spec": {"o": "seq_conv", "fmt": fmt, "entries": ents, "as_rna": rng.random() < 0.5, "cpl": rng.choice([None, 1, 4, 80]), "off": rng.choice(["Sanger", "Solexa", "Illumina-1.3", "Illumina-1.5", "Illumina-1.8"]), "seed": rng.randint(0, 10**6)}}


# ---- less-used entry points of the anchored modules (oracle only)
def c_api(rng):
    sub = rng.choice(["multifile", "alignment", "metadata", "general", "options", "path_io"])
    spec = {"o": "api", "sub": sub, "seed": rng.randint(0, 10**6)}
    if sub == "multifile":
        recs = []
        for i in range(rng.choice([1, 2, 3, 4])):
            recs.append({"locus": f"REC{i}", "definition": f"record {i} " + rng.choice([g_header(rng), "see https://example.org//x", "\\\\host//share", "a//b"]),
                         "seq": g_seq(rng, NUC, nonempty=True), "extra": rng.random() < 0.5,
                         "comment": rng.choice([None, ["http://x.org/a", "//", "tail"], ["x // y"], ["//"]]),
                         "features": [dict(g_gb_feat(rng), qual={"note": rng.choice(["see https://example.org/a//b", "plain", "//"]), "db_xref": "x//y"})
                                      for _ in range(rng.choice([0, 1, 2]))]})
        spec["records"] = recs
    elif sub == "alignment":
        n = rng.choice([2, 2, 3, 4]); ln = rng.choice([1, 4, 9, 80, 81])
        rows = []
        for _ in range(n):
            rows.append("".join(rng.choice("ACGT-") for _ in range(ln)))
        rows[0] = rows[0].replace("-", "A") if all(c == "-" for c in rows[0]) else rows[0]
        spec["rows"] = rows; spec["names"] = [f"s{i} " + g_header(rng) for i in range(n)]; spec["cpl"] = rng.choice([1, 7, 80])
    elif sub == "metadata":
        spec.update({"name": rng.choice(["AJ311647", "X", "SEQ_1"]), "length": rng.choice([1, 12, 1224, 4558953]),
                     "mol_type": rng.choice([None, "DNA", "RNA", "Protein", "mRNA"]), "circular": rng.random() < 0.5,
                     "division": rng.choice([None, "BCT", "VRT", "PRI"]), "date": rng.choice([None, "14-NOV-2006"]),
                     "definition": rng.choice(["Gallus gallus AVD gene.", "x", "two words"]), "accession": rng.choice(["AJ311647", "CP001509"]),
                     "version": rng.choice(["AJ311647.1", "CP1.2"]), "gi": rng.choice([None, 13397825]), "source": rng.choice(["Gallus gallus (chicken)", "E. coli"]),
                     "dblink": {"BioProject": "PRJNA20713", "BioSample": "SAMN02603478"} if rng.random() < 0.6 else {}})
    elif sub == "general":
        spec["suffix"] = rng.choice([".fasta", ".fa", ".fastq", ".fq", ".gb", ".gp", ".gbk"])
        spec["seqs"] = [[f"n{i}", g_seq(rng, PROT if spec["suffix"] == ".gp" else NUC, nonempty=True)] for i in range(rng.choice([1, 2, 3]))]
    elif sub == "options":
        spec["feats"] = [g_gb_feat(rng) for _ in range(rng.choice([1, 2, 3]))]
        spec["seq"] = g_seq(rng, NUC, nonempty=True)
    else:
        ents, cpl = g_fasta(rng)
        spec["entries"] = ents; spec["cpl"] = cpl
    return {"kind": "api_" + sub, "spec": spec}


GENS = [(c_api, 10), (c_raw_symbols, 3), (c_fasta_rt, 8), (c_fasta_edit, 8), (c_fasta_text, 4), (c_fastq_rt, 8), (c_fastq_edit, 6), (c_fastq_text, 4),
        (c_fastq_offset, 2), (c_loc, 10), (c_loc_parse, 6), (c_gff_quote, 4), (c_gff_line, 8), (c_gff_parse, 3),
        (c_gff_edit, 8), (c_gff_edit_dir, 5), (c_gff_fasta, 5), (c_gff_group, 5), (c_gff_text, 3), (c_gbf_rt, 8), (c_gbf_print, 4), (c_gbf_parse, 6), (c_org_print, 4), (c_org_read, 3), (c_gb_edit, 8), (c_gb_text, 3), (c_wrap, 2), (c_genbank, 10), (c_gff_annot, 5),
        (c_seq_conv, 4)]


def cases(rng, tier):
    n = 2000 if tier == "quick" else 40000
    fns = [f for f, w in GENS for _ in range(w)]
    for _ in range(n):
        yield from _oracle_only_where_helpers_miss([rng.choice(fns)(rng)])


def corpus():
    return _oracle_only_where_helpers_miss(_corpus())


def _corpus():
    safe = _safe_codes()
    inexpr = [{"key": "misc", "locs": [[7, 7, 0, 0]], "qual": {"note": 'a"b'}}, {"key": "misc", "locs": [[7, 7, 0, 0]], "qual": {"a=b": "v"}}]
    mult = []
    for cpl, ln in ((80, 80), (80, 160), (1, 3), (3, 6), (60, 60)):
        sq = ("ACGT" * 50)[:ln]
        hist = [["set", "a", sq], ["set", "b", "ACG"], ["set", "a", sq[::-1]], ["del", "b"], ["del", "a"]]
        mult.append({"kind": "fasta_edit", "ops": [f"fa_new {cpl}", f"fa_set {es('a')} {es(sq)}", f"fa_set {es('b')} {es('ACG')}",
                                                     f"fa_set {es('a')} {es(sq[::-1])}", f"fa_del {es('b')}", "fa_items", "fa_reread"],
                     "spec": {"o": "fasta", "cpl": cpl, "hist": hist[:4]}})
    for cpl, ln in ((4, 8), (1, 2), (5, 5), (80, 80)):
        sq = ("ACGT" * 20)[:ln]
        q = [10 + (i % 30) for i in range(ln)]
        hist = [["set", "r1", sq, q], ["set", "r2", "AC", [1, 2]], ["set", "r1", sq[::-1], q], ["del", "r2"]]
        mult.append({"kind": "fastq_edit", "ops": [f"fq_new 33 {cpl}", f"fq_set {es('r1')} {es(sq)} {ei(q)}", f"fq_set {es('r2')} {es('AC')} 1,2",
                                                     f"fq_set {es('r1')} {es(sq[::-1])} {ei(q)}", f"fq_del {es('r2')}", "fq_items", "fq_reread"],
                     "spec": {"o": "fastq", "off": 33, "cpl": cpl, "hist": hist}})
    e1 = ["chr1", "src", "gene", 1, 9, None, "+", None, {"ID": "g1"}]
    e2 = ["chr1", "src", "exon", 2, 5, None, "+", None, {"ID": "x1"}]
    dirs = {"kind": "gff_edit", "ops": ["gff_new", f"gff_append {safe} {enc_entry(e1)}", f"gff_directive {es('sequence-region')} {es('sequence-region chr1 1 99')}",
                                        f"gff_append {safe} {enc_entry(e2)}", f"gff_directive {es('note')} {es('note ')}", f"gff_insert 0 {safe} {enc_entry(e2)}",
                                        f"gff_insert 1 {safe} {enc_entry(e1)}", "gff_del 0", "gff_reread"],
            "spec": {"o": "gff_hist", "hist": [["append", e1], ["directive", "sequence-region", ["chr1", "1", "99"]], ["append", e2], ["directive", "note", []],
                                                ["insert", 0, e2], ["insert", 1, e1], ["del", 0]]}}
    at = {"ID": "cds1", "product": "some protein"}
    c1 = ["chr1", "demo", "CDS", 10, 50, None, "+", 0, at]
    c2 = ["chr1", "demo", "CDS", 80, 120, None, "+", 1, at]
    shared = {"kind": "gff_edit", "ops": ["gff_new", f"gff_append {safe} {enc_entry(c1)}", f"gff_append {safe} {enc_entry(c2)}", "gff_poke", "gff_get 1", "gff_reread"],
              "spec": {"o": "gff_hist", "hist": [["append", c1], ["append", c2]]}}
    brk = ["\n", "\r", "\r\n", "\x0b", "\x0c", "\x1c", "\x1d", "\x1e", "\x85", "\u2028", "\u2029"]
    fa_hist = [["set", f"h{i}" + c + "tail", "ACGT"] for i, c in enumerate(brk)]
    fq_hist = [["set", f"r{i}" + c + "tail", "ACGT", [1, 2, 3, 4]] for i, c in enumerate(brk)]
    linebreaks = [{"kind": "fasta_edit", "ops": ["fa_new 80"] + [f"fa_set {es(h)} {es(x)}" for _, h, x in fa_hist] + ["fa_items", "fa_reread"],
                   "spec": {"o": "fasta", "cpl": 80, "hist": fa_hist}},
                  {"kind": "fastq_edit", "ops": ["fq_new 33 -"] + [f"fq_set {es(h)} {es(x)} {ei(q)}" for _, h, x, q in fq_hist] + ["fq_items", "fq_reread"],
                   "spec": {"o": "fastq", "off": 33, "cpl": None, "hist": fq_hist}}]
    return mult + [dirs, shared] + linebreaks + [
        # what the qualifier syntax cannot express (C12_qualifiers_quote_inexpressible): model == real code, no oracle claim
        {"kind": "gbf_rt", "ops": ["gbf_rt " + enc_feat(inexpr[0]), "gbf_rt " + enc_feat(inexpr[1])]},
        {"kind": "org_print", "ops": [f"org_print -5 {es('ACGTACGTACGT')}", f"org_print 1 {es('')}", f"org_print 999999999 {es('ACGT' * 31)}"],
         "spec": {"o": "origin", "start": -5, "seq": "ACGTACGTACGT"}},
        {"kind": "fastq_rt", "ops": ["fq_new 33 2", f"fq_set {es('r')} {es('ACGT')} 31,10,10,31", "fq_reread", "fq_items"],
         "spec": {"o": "fastq", "off": 33, "cpl": 2, "hist": [["set", "r", "ACGT", [31, 10, 10, 31]]]}},
        {"kind": "loc", "ops": ["loc_rt 5:9:1:12;12:12:0:0;7:8:0:32"], "spec": {"o": "loc", "locs": [[5, 9, 1, 12], [12, 12, 0, 0], [7, 8, 0, 32]]}},
        {"kind": "gff_line", "ops": [f"gff_rt {safe} {enc_entry(['chr 1', 'a;b', 'CDS', 1, 99, 0.5, '-', 0, {'ID': 'x=1,2', 'n': 'A protein'}])}"],
         "spec": {"o": "gff_entries", "entries": [["chr 1", "a;b", "CDS", 1, 99, 0.5, "-", 0, {"ID": "x=1,2", "n": "A protein"}]]}},
    ]


def search(rng, problems, tier):
    yield from cases(rng, "quick")


# ------------------------------------------------------------------ implementation adapter
def _fa_state(f):
    items = list(f.items())
    return "ok L=" + el(f.lines) + " E=" + ("|".join(es(k) + "~" + es(v) for k, v in items) if items else "-")


def _fq_state(f):
    items = list(f.items())
    return "ok L=" + el(f.lines) + " E=" + ("|".join(es(k) + "~" + es(s) + "~" + ei(q) for k, (s, q) in items) if items else "-")


def _gff_entry_out(t):
    sid, src, ty, a, b, score, strand, phase, attrs = t
    from biotite.sequence.annotation import Location
    sd = "+" if strand == Location.Strand.FORWARD else "-" if strand == Location.Strand.REVERSE else "."
    at = "|".join(eb(k.encode("utf-8")) + "~" + eb(v.encode("utf-8")) for k, v in attrs.items()) if attrs else "-"
    return " ".join([eb(sid.encode("utf-8")), eb(src.encode("utf-8")), eb(ty.encode("utf-8")), str(a), str(b),
                     "-" if score is None else es(str(score)), sd, "." if phase is None else str(phase), at])


def _gff_view(g):
    out = []
    for i in range(len(g)):
        try:
            out.append(_gff_entry_out(g[i]).replace(" ", "/"))
        except Exception as e:  # noqa: BLE001
            out.append(err(e))
    return out


def _gff_state(g):
    d = g.directives()
    return ("ok L=" + el(g.lines) + " D=" + (";".join(es(t) + ":" + str(i) for t, i in d) if d else "-")
            + " V=" + (";".join(_gff_view(g)) or "-"))


def _gb_item(t):
    name, content, subs = t
    return f"{es(name)} {el(content)} {esubs(subs)}"


def _gb_state(g):
    out = []
    for i in range(len(g)):
        try:
            out.append(_gb_item(g[i]).replace(" ", "/"))
        except Exception as e:  # noqa: BLE001
            out.append(err(e))
    return "ok L=" + el(g.lines) + " V=" + (";".join(out) or "-")


def _dec_entry(w):
    from biotite.sequence.annotation import Location
    sid, src, ty, a, b, sc, sd, ph, at = w
    strand = {"+": Location.Strand.FORWARD, "-": Location.Strand.REVERSE, ".": None}[sd]
    import numpy as np
    return (ds(sid), ds(src), ds(ty), _sp_int(int(a)), _sp_int(int(b)), None if sc == "-" else (float, np.float64)[_SPELL[0] % 2](ds(sc)), strand,
            None if ph == "." else _sp_int(int(ph)), dict(dpairs(at)))


def _mkloc(l):
    from biotite.sequence.annotation import Location
    a, b, r, d = l
    return Location(a, b, Location.Strand.REVERSE if r else Location.Strand.FORWARD, Location.Defect(d))


def _locout(loc):
    from biotite.sequence.annotation import Location
    return f"{loc.first}:{loc.last}:{1 if loc.strand == Location.Strand.REVERSE else 0}:{loc.defect.value}"


def _reread(cls, f, *args):
    buf = io.StringIO()
    f.write(buf)
    return cls.read(io.StringIO(buf.getvalue()), *args)


class _GbStub:
    """stands in for a GenBankFile: get_annotation/set_annotation/set_sequence only use these two methods"""
    def __init__(self, lines=None):
        self.lines = lines

    def get_fields(self, name):
        return [(self.lines, {})]

    def set_field(self, name, content, subfield_dict=None):
        self.lines = list(content)


def _dquals(t):
    if t == "-":
        return {}
    return {ds(p.split("~")[0]): (None if p.split("~")[1] == "!" else ds(p.split("~")[1])) for p in t.split("|")}


def _dfeat(t):
    from biotite.sequence.annotation import Feature
    k, ls, q = t.split("@")
    return Feature(ds(k), [_mkloc([int(x) for x in l.split(":")]) for l in ls.split(";")], _dquals(q))


def _feats_out(annot):
    out = set()
    for f in annot:
        q = "|".join(es(k) + "~" + ("!" if v is None else es(v)) for k, v in f.qual.items()) if f.qual else "-"
        out.add(f"{es(f.key)}@{';'.join(sorted({_locout(l) for l in f.locs}))}@{q}")
    return "ok " + ("#".join(sorted(out)) if out else "-")


def _gb_line_op(k, w):
    from biotite.sequence.annotation import Annotation
    from biotite.sequence.io.genbank import annotation as gba
    from biotite.sequence.io.genbank import sequence as gbs
    if k == "gbf_parse":
        return _feats_out(gba.get_annotation(_GbStub(dl(w[1]))))
    if k == "gbf_print":
        st = _GbStub()
        gba.set_annotation(st, Annotation([_dfeat(w[1])]))
        return "ok " + el(st.lines)
    if k == "gbf_rt":
        st = _GbStub()
        gba.set_annotation(st, Annotation([_dfeat(t) for t in w[1].split("#")]))
        return _feats_out(gba.get_annotation(st))
    if k == "org_print":
        st = _GbStub()
        gbs.set_sequence(st, ds(w[2]), _sp_int(int(w[1])))
        return "ok " + el(st.lines)
    lines = dl(w[1])
    try:
        a = str(_priv("gb.seq_start")(lines))
    except Exception as e:  # noqa: BLE001
        a = err(e)
    return f"ok {a} {es(_priv('gb.seq_string')(lines))}"


def _scramble(obj, depth=0):
    """mutate, in place, every mutable object reachable from what a file object handed out (or was given)"""
    import numpy as np
    if depth > 4:
        return
    if isinstance(obj, dict):
        for k in list(obj):
            _scramble(obj[k], depth + 1)
            if isinstance(obj[k], str) or obj[k] is None:
                obj[k] = "edited-by-caller"
        obj["added-by-caller"] = "x"
        first = next(iter(obj))
        if first != "added-by-caller":
            del obj[first]
    elif isinstance(obj, list):
        for x in obj:
            _scramble(x, depth + 1)
        for i, x in enumerate(obj):
            if isinstance(x, str):
                obj[i] = "edited-by-caller"
        obj.append("added-by-caller")
    elif isinstance(obj, np.ndarray):
        if obj.flags.writeable and obj.size:
            obj += 1
    elif isinstance(obj, tuple):
        for x in obj:
            _scramble(x, depth + 1)


def _poke(f):
    """the caller edits its own copies of everything the file object hands out"""
    handed = []
    try:
        handed.append([f[i] for i in range(len(f))])            # list-like files (GFF, GenBank)
    except Exception:  # noqa: BLE001
        pass
    try:
        handed.append(list(f.items()))                           # mapping-like files (FASTA, FASTQ)
    except Exception:  # noqa: BLE001
        pass
    if hasattr(f, "directives"):
        handed.append(f.directives())
    for h in handed:
        _scramble(h)


_SPELL = [0]


def _sp_int(x):
    """the same integer in another spelling (Python int / NumPy scalars of several widths)"""
    import numpy as np
    _SPELL[0] += 1
    cands = [int, np.int64, np.int32, np.intp]
    if -128 <= x <= 127:
        cands += [np.int8, np.int16]
    if 0 <= x <= 255:
        cands += [np.uint8, np.uint16, np.uint64]
    return cands[_SPELL[0] % len(cands)](x)


def _sp_arr(xs):
    """the same integer array as list / tuple / ndarray of several dtypes, strided, read-only, byte-swapped"""
    import numpy as np
    _SPELL[0] += 1
    k = _SPELL[0] % 8
    lo, hi = (min(xs), max(xs)) if len(xs) else (0, 0)
    if k == 0:
        return list(xs)
    if k == 1:
        return tuple(xs)
    if k == 2:
        return np.array(xs, dtype=np.int64)
    if k == 3 and -128 <= lo and hi <= 127:
        return np.array(xs, dtype=np.int8)
    if k == 4 and 0 <= lo and hi <= 255:
        return np.array(xs, dtype=np.uint8)
    if k == 5:
        a = np.zeros(2 * len(xs), dtype=np.int32)
        a[::2] = xs
        return a[::2]
    if k == 6:
        a = np.array(xs, dtype=np.int16)
        a.flags.writeable = False
        return a
    return np.array(xs, dtype=">i4")


_STATE = {}


def _state_of(st):
    k = type(st).__name__
    try:
        return {"FastaFile": _fa_state, "FastqFile": _fq_state, "GFFFile": _gff_state, "GenBankFile": _gb_state}[k](st)
    except Exception as e:  # noqa: BLE001
        return "STATE-ERR:" + type(e).__name__


def run_impl(case):
    with warnings.catch_warnings():
        warnings.simplefilter("ignore")
        return _run_impl(case)


def _run_impl(case):
    from biotite.file import wrap_string
    from biotite.sequence.io.fasta import FastaFile
    from biotite.sequence.io.fastq import FastqFile
    from biotite.sequence.io.fastq import file as fqfile
    from biotite.sequence.io.genbank import GenBankFile
    from biotite.sequence.io.genbank import annotation as gba
    from biotite.sequence.io.gff import GFFFile
    from urllib.parse import quote, unquote_to_bytes

    st = None
    out = []
    inputs = []       # mutable objects handed to the file object by the "caller"; `*_poke` edits them afterwards
    opts = {}         # constructor options of the current file object (kept here, not read from private attributes)
    for op in case["ops"]:
        w = op.split(" ")
        k = w[0]
        pre = _state_of(st) if st is not None and k.split("_")[-1] in ("set", "del", "append", "insert", "directive", "setfield") else None
        try:
            if st is None and k.split("_")[-1] in ("set", "del", "get", "items", "reread", "append", "insert", "directive", "setfield"):
                out.append("bad-op")      # no file object (the preceding read was rejected)
            elif k == "wrap":
                out.append("ok " + el(wrap_string(ds(w[2]), int(w[1]))))
            elif k == "fa_new":
                opts = {"cpl": int(w[1])}
                st = FastaFile(chars_per_line=_sp_int(int(w[1]))); out.append("ok")
            elif k == "fa_read":
                opts = {"cpl": int(w[1])}
                st = FastaFile.read(io.StringIO("\n".join(dl(w[2])) + "\n"), int(w[1])) if dl(w[2]) else FastaFile.read(io.StringIO("\n"), int(w[1]))
                out.append(_fa_state(st))
            elif k in ("fa_copy", "fq_copy", "gff_copy", "gb_copy"):
                st = st.copy()
                out.append(_state_of(st))
            elif k in ("fa_poke", "fq_poke", "gff_poke", "gb_poke"):
                _poke(st)
                for a in inputs:
                    _scramble(a)
                out.append({"fa": _fa_state, "fq": _fq_state, "gff": _gff_state, "gb": _gb_state}[k.split("_")[0]](st))
            elif k == "fa_reread":
                st = _reread(FastaFile, st, opts["cpl"]); out.append(_fa_state(st))
            elif k == "fa_set":
                st[ds(w[1])] = ds(w[2]); out.append(_fa_state(st))
            elif k == "fa_del":
                del st[ds(w[1])]; out.append(_fa_state(st))
            elif k == "fa_get":
                out.append("ok " + es(st[ds(w[1])]))
            elif k == "fa_items":
                it = list(st.items()); out.append("ok " + ("|".join(es(a) + "~" + es(b) for a, b in it) if it else "-"))
            elif k == "fq_new":
                opts = {"off": int(w[1]), "cpl": None if w[2] == "-" else int(w[2])}
                st = FastqFile(offset=_sp_int(int(w[1])), chars_per_line=None if w[2] == "-" else _sp_int(int(w[2]))); out.append("ok")
            elif k == "fq_read":
                opts = {"off": int(w[1]), "cpl": None if w[2] == "-" else int(w[2])}
                st = FastqFile.read(io.StringIO("\n".join(dl(w[3])) + "\n"), int(w[1]), None if w[2] == "-" else int(w[2]))
                out.append(_fq_state(st))
            elif k == "fq_reread":
                st = _reread(FastqFile, st, opts["off"], opts["cpl"]); out.append(_fq_state(st))
            elif k == "fq_set":
                st[ds(w[1])] = (ds(w[2]), _sp_arr([] if w[3] == "_" else [int(x) for x in w[3].split(",")])); out.append(_fq_state(st))
            elif k == "fq_del":
                del st[ds(w[1])]; out.append(_fq_state(st))
            elif k == "fq_get":
                s, q = st[ds(w[1])]; out.append(f"ok {es(s)} {ei(q)}")
            elif k == "fq_items":
                it = list(st.items()); out.append("ok " + ("|".join(es(a) + "~" + es(s) + "~" + ei(q) for a, (s, q) in it) if it else "-"))
            elif k == "fq_enc":
                out.append("ok " + es(_priv("fastq.encode")([] if w[2] == "_" else [int(x) for x in w[2].split(",")], int(w[1]))))
            elif k == "fq_dec":
                out.append("ok " + ei(_priv("fastq.decode")(ds(w[2]), int(w[1]))))
            elif k == "loc_rt":
                locs = [_mkloc([int(x) for x in t.split(":")]) for t in w[1].split(";")]
                # a list, not a set: the printed order is the order given (Feature.locs is a frozenset)
                s = _priv("gb.loc_print")(locs)
                try:
                    back = _priv("gb.loc_parse")(s)
                    r = ";".join(_locout(x) for x in back) if back else "-"
                except Exception:  # noqa: BLE001  (get_annotation catches everything and skips the feature)
                    r = "skip"
                out.append(f"ok {es(s)} => {r}")
            elif k == "loc_parse":
                try:
                    back = _priv("gb.loc_parse")(ds(w[1]))
                    out.append("ok " + (";".join(_locout(x) for x in back) if back else "-"))
                except Exception:  # noqa: BLE001
                    out.append("skip")
            elif k == "gff_quote":
                out.append("ok " + es(quote(ds(w[2]), safe="".join(chr(int(c)) for c in w[1].split(",")))))
            elif k == "gff_unquote":
                out.append("ok " + eb(unquote_to_bytes(ds(w[1]))))
            elif k == "gff_rt":
                line = _priv("gff.create_line")(*_dec_entry(w[2:]))
                g = GFFFile.read(io.StringIO(line + "\n"))
                try:
                    r = _gff_entry_out(g[0]) if len(g) else "ERR:IndexError"
                except Exception as e:  # noqa: BLE001
                    r = err(e)
                out.append(f"ok {es(line)} => {r}")
            elif k == "gff_parse":
                g = GFFFile.read(io.StringIO(ds(w[1]) + "\n"))
                out.append("ok " + _gff_entry_out(g[0]) if len(g) else "no-entry")
            elif k in ("gbf_parse", "gbf_print", "gbf_rt", "org_print", "org_read"):
                out.append(_gb_line_op(k, w))
            elif k == "gff_group":
                from biotite.sequence.annotation import Location
                import biotite.sequence.io.gff as gffmod
                g = GFFFile()
                if w[1] != "-":
                    for t in w[1].split(";"):
                        ty, a, b, sd, at = t.split(":")
                        g.append("s", "src", ds(ty), int(a), int(b), None,
                                 {"+": Location.Strand.FORWARD, "-": Location.Strand.REVERSE, ".": None}[sd], None, dict(dpairs(at)))
                feats = []
                for f in gffmod.get_annotation(g):
                    locs = sorted({f"{l.first}/{l.last}/" + ("+" if l.strand == Location.Strand.FORWARD else "-" if l.strand == Location.Strand.REVERSE else ".") for l in f.locs})
                    att = "|".join(es(k2) + "~" + es(v2) for k2, v2 in f.qual.items()) if f.qual else "-"
                    feats.append(f"{es(f.key)}:{'|'.join(locs)}:{att}")
                feats = sorted(set(feats))
                out.append("ok " + (";".join(feats) if feats else "-"))
            elif k == "gff_new":
                st = GFFFile(); out.append(_gff_state(st))
            elif k == "gff_read":
                ls = dl(w[1]); st = GFFFile.read(io.StringIO("\n".join(ls) + "\n")) if ls else GFFFile.read(io.StringIO(""))
                out.append(_gff_state(st))
            elif k == "gff_reread":
                st = _reread(GFFFile, st); out.append(_gff_state(st))
            elif k == "gff_append":
                t_in = _dec_entry(w[2:]); inputs.append(t_in[8]); st.append(*t_in); out.append(_gff_state(st))
            elif k == "gff_insert":
                t_in = _dec_entry(w[3:]); inputs.append(t_in[8]); st.insert(int(w[1]), *t_in); out.append(_gff_state(st))
            elif k == "gff_set":
                t_in = _dec_entry(w[3:]); inputs.append(t_in[8]); st[int(w[1])] = t_in; out.append(_gff_state(st))
            elif k == "gff_del":
                del st[_sp_int(int(w[1]))]; out.append(_gff_state(st))
            elif k == "gff_directive":
                t = ds(w[2]); d = ds(w[1]); args = t[len(d) + 1:].split(" ") if t[len(d) + 1:] else []
                st.append_directive(d, *args); out.append(_gff_state(st))
            elif k == "gff_get":
                out.append("ok " + _gff_entry_out(st[_sp_int(int(w[1]))]))
            elif k == "gb_new":
                st = GenBankFile(); out.append(_gb_state(st))
            elif k == "gb_read":
                ls = dl(w[1]); st = GenBankFile.read(io.StringIO("\n".join(ls) + "\n")) if ls else GenBankFile.read(io.StringIO(""))
                out.append(_gb_state(st))
            elif k == "gb_reread":
                st = _reread(GenBankFile, st); out.append(_gb_state(st))
            elif k == "gb_set":
                c_in, s_in = dl(w[3]), dsubs(w[4]); inputs.extend([c_in, s_in]); st[int(w[1])] = (ds(w[2]), c_in, s_in); out.append(_gb_state(st))
            elif k == "gb_insert":
                c_in, s_in = dl(w[3]), dsubs(w[4]); inputs.extend([c_in, s_in]); st.insert(int(w[1]), ds(w[2]), c_in, s_in); out.append(_gb_state(st))
            elif k == "gb_append":
                c_in, s_in = dl(w[2]), dsubs(w[3]); inputs.extend([c_in, s_in]); st.append(ds(w[1]), c_in, s_in); out.append(_gb_state(st))
            elif k == "gb_setfield":
                c_in, s_in = dl(w[2]), dsubs(w[3]); inputs.extend([c_in, s_in]); st.set_field(ds(w[1]), c_in, s_in); out.append(_gb_state(st))
            elif k == "gb_del":
                del st[_sp_int(int(w[1]))]; out.append(_gb_state(st))
            elif k == "gb_get":
                out.append("ok " + _gb_item(st[_sp_int(int(w[1]))]))
            else:
                out.append("bad-op")
        except Exception as e:  # noqa: BLE001
            # a refused call must leave the object as it was
            if pre is not None and _state_of(st) != pre:
                out.append(err(e) + "!object-changed")
            else:
                out.append(err(e))
    return out


# ------------------------------------------------------------------ property oracle (independent of the model)
def _norm(h):
    return "".join(h.splitlines()).strip()


def _snap(fmt, f):
    """comparable deep copy of the parsed view + the text"""
    import copy
    if fmt == "gff":
        return (copy.deepcopy([f[i] for i in range(len(f))]), copy.deepcopy(f.directives()), str(f))
    if fmt == "genbank":
        return (copy.deepcopy([f[i] for i in range(len(f))]), str(f))
    if fmt == "fasta":
        return (list(f.items()), str(f))
    return ([(k, s, [int(x) for x in q]) for k, (s, q) in f.items()], str(f))


def _alias_check(fmt, f, cls, read_args=(), inputs=()):
    """The parsed view belongs to the file and follows its text only: a caller that edits the objects it got
    from the file (entry tuples, attribute dicts, content lists, score arrays) or passed to it earlier changes
    neither this file object, nor another object read from the same text."""
    try:
        before = _snap(fmt, f)
    except Exception:  # noqa: BLE001  (unreadable entries are reported by the other checks)
        return []
    annot_before = None
    if fmt == "gff":
        import biotite.sequence.io.gff as gffmod
        try:
            annot_before = gffmod.get_annotation(f)
        except Exception:  # noqa: BLE001
            annot_before = None
    _poke(f)
    for a in inputs:
        _scramble(a)
    after = _snap(fmt, f)
    if after != before:
        what = "text" if after[-1] != before[-1] else "parsed view"
        return [(f"C12/{fmt}/view-shares-caller-object", f"the caller edited objects it got from / gave to the file: the {what} changed from {str(before[0])[:160]} to {str(after[0])[:160]} (text unchanged: {after[-1] == before[-1]})")]
    if not f.lines:
        return []
    try:
        g = cls.read(io.StringIO(before[-1] + "\n"), *read_args)
        fresh = _snap(fmt, g)
    except Exception:  # noqa: BLE001
        return []
    if fresh[0] != before[0]:
        return [(f"C12/{fmt}/view-shares-caller-object", f"a file freshly read from the same text reports {str(fresh[0])[:160]} instead of {str(before[0])[:160]} after the caller edited its copies")]
    if annot_before is not None:
        try:
            if gffmod.get_annotation(g) != annot_before:
                return [(f"C12/{fmt}/view-shares-caller-object", "get_annotation() of a freshly read file differs after the caller edited its copies")]
        except Exception:  # noqa: BLE001
            pass
    # file.copy(): an equal file object (same text, same parsed view) that shares nothing with the original
    try:
        c = f.copy()
        snap_c = _snap(fmt, c)
    except Exception as e:  # noqa: BLE001
        return [(f"C12/{fmt}/copy-inconsistent", f"copy() of a file object: {type(e).__name__}: {e}")]
    if snap_c != before:
        return [(f"C12/{fmt}/copy-inconsistent", f"copy() reports {str(snap_c[0])[:160]} but the original {str(before[0])[:160]} (same text: {snap_c[-1] == before[-1]})")]
    def outcome(obj):
        """an object and a fresh object read from the same text must react alike to the next operation"""
        try:
            if fmt == "gff":
                obj.append("opseq", "x", "t", 1, 2, None, None, None, {"ID": "next-op"})
            elif fmt == "genbank":
                obj.append("NEXTOP", ["x"])
            elif fmt == "fasta":
                obj["next-op"] = "ACGT"
            else:
                return "skip"
        except Exception as e:  # noqa: BLE001
            return "raises " + type(e).__name__
        return _snap(fmt, obj)
    if f.lines:
        try:
            o_copy, o_fresh = outcome(f.copy()), outcome(cls.read(io.StringIO(before[-1] + "\n"), *read_args))
        except Exception as e:  # noqa: BLE001
            return [(f"C12/{fmt}/copy-inconsistent", f"{type(e).__name__}: {e}")]
        if o_copy != o_fresh:
            return [(f"C12/{fmt}/copy-inconsistent", f"the next edit on a copy gives {str(o_copy)[:140]} but on a file read from the same text {str(o_fresh)[:140]}")]
    try:
        if fmt == "gff":
            if any(l == "##FASTA" for l in c.lines):
                return []          # appending is refused for files with FASTA data (checked above)
            c.append("copyseq", "x", "t", 1, 2, None, None, None, {"ID": "only-in-copy"})
            del c[0]
        elif fmt == "genbank":
            c.append("COPYONLY", ["x"])
            del c[0]
        elif fmt == "fasta":
            c["only-in-copy"] = "ACGT"
            del c[next(iter(before[0]))[0]]
        else:
            del c[before[0][0][0]]
    except Exception as e:  # noqa: BLE001
        return [(f"C12/{fmt}/copy-inconsistent", f"editing the copy: {type(e).__name__}: {e}")]
    if _snap(fmt, f) != before:
        return [(f"C12/{fmt}/copy-inconsistent", "editing the copy changed the original")]
    if c.lines:
        try:
            fresh_c = _snap(fmt, cls.read(io.StringIO(str(c) + "\n"), *read_args))
        except Exception as e:  # noqa: BLE001
            return [(f"C12/{fmt}/copy-inconsistent", f"text of the edited copy unreadable: {type(e).__name__}: {e}")]
        if fresh_c[0] != _snap(fmt, c)[0]:
            return [(f"C12/{fmt}/copy-inconsistent", f"edited copy reports {str(_snap(fmt, c)[0])[:120]} but its text says {str(fresh_c[0])[:120]}")]
    return []


def _o_fasta(spec):
    from biotite.sequence.io.fasta import FastaFile
    v = []
    f = FastaFile(chars_per_line=spec["cpl"])
    ref = {}
    for step in spec["hist"]:
        if step[0] == "set":
            _, h, s = step
            try:
                f[h] = s
                if spec["cpl"] == 0:
                    return v + [("C12/fasta/width-zero-accepted", f"set {h!r} with chars_per_line=0 was accepted")]
            except ValueError:
                if spec["cpl"] != 0:
                    raise
                if list(f.items()) != list(ref.items()):
                    return v + [("C12/fasta/refused-call-changed-object", f"set {h!r} with chars_per_line=0 was rejected but the file changed")]
                continue
            except Exception as e:  # noqa: BLE001  (an edit of a file the library itself wrote must not fail)
                return v + [(f"C12/fasta/edit-raises/{type(e).__name__}", f"set {h!r} (len {len(s)}, chars_per_line {spec['cpl']}) after {len(ref)} entries: {e}")]
            ref.pop(_norm(h), None)
            ref[_norm(h)] = s
        else:
            h = step[1]
            try:
                del f[h]
                if h not in ref:
                    v.append(("C12/fasta/delete-of-missing-key-accepted", f"del {h!r} succeeded but the key is not in the file"))
                ref.pop(h, None)
            except KeyError:
                if h in ref:
                    v.append(("C12/fasta/edit/key-lost", f"del {h!r}: KeyError although the header is in the text"))
                    ref.pop(h, None)
                    return v
                if list(f.items()) != list(ref.items()):
                    return v + [("C12/fasta/refused-call-changed-object", f"del {h!r} raised KeyError but the file changed")]
            except Exception as e:  # noqa: BLE001
                return v + [(f"C12/fasta/edit-raises/{type(e).__name__}", f"del {h!r} (chars_per_line {spec['cpl']}): {e}")]
        if f.lines:
            t1 = io.StringIO(); f.write(t1)
            t2 = io.StringIO(); FastaFile.read(io.StringIO(t1.getvalue()), spec["cpl"]).write(t2)
            if t1.getvalue() != t2.getvalue():
                return v + [("C12/fasta/text-not-canonical", f"after {step[:2]} (chars_per_line {spec['cpl']}): written ...{t1.getvalue()[-40:]!r} ({len(t1.getvalue())} chars) re-serialised ...{t2.getvalue()[-40:]!r} ({len(t2.getvalue())} chars)")]
        view = list(f.items())
        if not f.lines:
            if view:
                v.append(("C12/fasta/edit/view-of-empty-text", f"{view}"))
            continue
        back = list(_reread(FastaFile, f, spec["cpl"]).items())
        if view != back:
            if [(k.strip(), s) for k, s in view] == back or [(_norm(k), s) for k, s in view] == back:
                v.append(("C12/fasta/setitem-key-not-stripped", f"after {step[:2]}: keys {[k for k, _ in view]} but the text says {[k for k, _ in back]}"))
            else:
                v.append(("C12/fasta/edit/view-differs-from-text", f"after {step[:2]}: view {view[:3]} reparse {back[:3]}"))
            return v
        if view != list(ref.items()):
            v.append(("C12/fasta/edit/differs-from-dict-spec", f"after {step[:2]}: view {view[:3]} expected {list(ref.items())[:3]}"))
            return v
    if f.lines:
        buf = io.StringIO(); f.write(buf)
        it = list(FastaFile.read_iter(io.StringIO(buf.getvalue())))
        if it != list(ref.items()):
            v.append(("C12/fasta/read_iter-differs", f"{it[:3]} vs {list(ref.items())[:3]}"))
        raw = {}
        for st in spec["hist"]:
            if st[0] == "set":
                raw[_norm(st[1])] = st[1]
        # the streaming writer is a second site of every repair of the mapping interface: it gets the headers as the
        # caller spelled them (blanks, every kind of line-break character) and must write the same text
        raw_items = [(raw.get(k, k), x) for k, x in ref.items()]
        try:
            buf = io.StringIO(); FastaFile.write_iter(buf, raw_items, spec["cpl"])
            it = list(FastaFile.read(io.StringIO(buf.getvalue())).items())
            it2 = list(FastaFile.read_iter(io.StringIO(buf.getvalue())))
        except Exception as e:  # noqa: BLE001
            return v + [(f"C12/fasta/write_iter-roundtrip/raises/{type(e).__name__}", f"headers {[h for h, _ in raw_items][:3]!r}: {e}")]
        if it != list(ref.items()) or it2 != list(ref.items()):
            v.append(("C12/fasta/write_iter-roundtrip", f"write_iter with headers {[h for h, _ in raw_items][:3]!r}: read {it[:3]} / read_iter {it2[:3]} expected {list(ref.items())[:3]}"))
        t_map = io.StringIO(); f.write(t_map)
        if not v and buf.getvalue() != t_map.getvalue():
            v.append(("C12/fasta/write_iter-differs-from-mapping", f"write_iter text {buf.getvalue()[:80]!r} but the file object writes {t_map.getvalue()[:80]!r}"))
    return v + (_alias_check("fasta", f, FastaFile, (spec["cpl"],)) if not v else [])


def _o_fasta_text(spec):
    from biotite.file import InvalidFileError
    from biotite.sequence.io.fasta import FastaFile
    text = "\n".join(spec["lines"]) + "\n"
    try:
        a = list(FastaFile.read(io.StringIO(text)).items())
    except InvalidFileError:
        return []
    b = list(FastaFile.read_iter(io.StringIO(text)))
    # read_iter documents "the same results as read().items()"; duplicates collapse in the dict
    bd = {}
    for k, s in b:
        bd[k] = s
    if list(bd.items()) != a:
        return [("C12/fasta/read-vs-read_iter", f"{a[:3]} vs {b[:3]}")]
    return []


def _o_fastq(spec):
    import numpy as np
    from biotite.sequence.io.fastq import FastqFile
    v = []
    off, cpl = spec["off"], spec["cpl"]
    f = FastqFile(offset=off, chars_per_line=cpl)
    ref = {}

    def canon(items):
        return [(k, s, [int(x) for x in q]) for k, (s, q) in items]

    for step in spec["hist"]:
        if step[0] == "set":
            _, h, s, q = step
            before = _snap("fastq", f)
            expect_refusal = cpl == 0 or len(s) == 0 or len(s) != len(q) or any(not 33 <= x + off <= 126 for x in q)
            try:
                f[h] = (s, np.array(q, dtype=int))
            except ValueError:
                if expect_refusal:
                    # rejected (empty sequence, lengths differ, score not encodable): the file must be unchanged
                    if _snap("fastq", f) != before:
                        return v + [("C12/fastq/refused-call-changed-object", f"set {h!r} was rejected but the file changed from {str(before[0])[:120]} to {str(_snap('fastq', f)[0])[:120]}")]
                    continue
                raise
            except Exception as e:  # noqa: BLE001
                return v + [(f"C12/fastq/edit-raises/{type(e).__name__}", f"set {h!r} (len {len(s)}, chars_per_line {cpl}): {e}")]
            if len(s) == 0:
                return v + [("C12/fastq/empty-sequence-written-unreadable", "an empty sequence was accepted")]
            if expect_refusal:
                return v + [("C12/fastq/unencodable-entry-accepted", f"set {h!r}: {len(s)} symbols, scores {q[:6]} with offset {off} accepted")]
            ref.pop(_norm(h), None)
            ref[_norm(h)] = (s, q)
        else:
            h = step[1]
            try:
                del f[h]
                if h not in ref:
                    v.append(("C12/fastq/delete-of-missing-key-accepted", f"del {h!r}"))
                ref.pop(h, None)
            except KeyError:
                if h in ref:
                    v.append(("C12/fastq/edit/key-lost", f"del {h!r}: KeyError although the identifier is in the text"))
                    return v
            except Exception as e:  # noqa: BLE001
                return v + [(f"C12/fastq/edit-raises/{type(e).__name__}", f"del {h!r} (chars_per_line {cpl}): {e}")]
        try:
            view = canon(f.items())
        except Exception as e:  # noqa: BLE001  (an entry the file object itself wrote must be readable)
            return v + [(f"C12/fastq/entry-unreadable/{type(e).__name__}", f"after {step[:3]} (offset {off}): {e}")]
        if not f.lines:
            continue
        t1 = io.StringIO(); f.write(t1)
        try:
            t2 = io.StringIO(); FastqFile.read(io.StringIO(t1.getvalue()), off, cpl).write(t2)
        except Exception:  # noqa: BLE001  (unreadable text is reported below with its own key)
            t2 = t1
        if t1.getvalue() != t2.getvalue():
            return v + [("C12/fastq/text-not-canonical", f"after {step[:2]} (chars_per_line {cpl}): written ...{t1.getvalue()[-40:]!r} ({len(t1.getvalue())} chars) re-serialised ...{t2.getvalue()[-40:]!r} ({len(t2.getvalue())} chars)")]
        try:
            back = canon(_reread(FastqFile, f, off, cpl).items())
        except Exception as e:  # noqa: BLE001
            if any(len(s) == 0 for s, _ in ref.values()):
                return v + [("C12/fastq/empty-sequence-written-unreadable", f"after {step[:3]}: {type(e).__name__}: {e}")]
            return v + [("C12/fastq/written-file-unreadable", f"after {step[:3]}: {type(e).__name__}: {e}")]
        if view != back:
            if [(_norm(k), s, q) for k, s, q in view] == back:
                v.append(("C12/fastq/setitem-key-not-stripped", f"after {step[:2]}: keys {[k for k, _, _ in view]} but the text says {[k for k, _, _ in back]}"))
            else:
                v.append(("C12/fastq/edit/view-differs-from-text", f"after {step[:2]}: {view[:2]} vs {back[:2]}"))
            return v
        exp = [(k, s, list(q)) for k, (s, q) in ref.items()]
        if view != exp:
            v.append(("C12/fastq/edit/differs-from-dict-spec", f"after {step[:2]}: {view[:2]} expected {exp[:2]}"))
            return v
    if f.lines:
        buf = io.StringIO(); f.write(buf)
        it = canon(FastqFile.read_iter(io.StringIO(buf.getvalue()), off))
        exp = [(k, s, list(q)) for k, (s, q) in ref.items()]
        if it != exp:
            v.append(("C12/fastq/read_iter-differs", f"{it[:2]} vs {exp[:2]}"))
        raw = {}
        for st in spec["hist"]:
            if st[0] == "set":
                raw[_norm(st[1])] = st[1]
        raw_items = [(raw.get(k, k), (s, np.array(q, dtype=int))) for k, (s, q) in ref.items()]
        try:
            buf = io.StringIO(); FastqFile.write_iter(buf, raw_items, off, cpl)
            it = canon(FastqFile.read(io.StringIO(buf.getvalue()), off).items())
            it2 = canon(FastqFile.read_iter(io.StringIO(buf.getvalue()), off))
        except Exception as e:  # noqa: BLE001
            return v + [(f"C12/fastq/write_iter-roundtrip/raises/{type(e).__name__}", f"identifiers {[h for h, _ in raw_items][:3]!r}: {e}")]
        if it != exp or it2 != exp:
            v.append(("C12/fastq/write_iter-roundtrip", f"write_iter with identifiers {[h for h, _ in raw_items][:3]!r}: read {it[:2]} / read_iter {it2[:2]} expected {exp[:2]}"))
        t_map = io.StringIO(); f.write(t_map)
        if not v and buf.getvalue() != t_map.getvalue():
            v.append(("C12/fastq/write_iter-differs-from-mapping", f"write_iter text {buf.getvalue()[:80]!r} but the file object writes {t_map.getvalue()[:80]!r}"))
        # the refusals of __setitem__ are refusals of the streaming writer, too
        for bad in ([("x", ("", np.array([], dtype=int)))], [("x", ("AC", np.array([1], dtype=int)))], [("x", ("AC", np.array([1, 126 - off + 1], dtype=int)))],
                    [("x", ("AC", np.array([1, 32 - off], dtype=int)))]):
            try:
                FastqFile.write_iter(io.StringIO(), bad, off, cpl)
                v.append(("C12/fastq/write_iter-accepts-unwritable-entry", f"write_iter accepted {bad[0][1][0]!r} with scores {list(bad[0][1][1])} (offset {off})"))
                break
            except ValueError:
                pass
    return v + (_alias_check("fastq", f, FastqFile, (off, cpl)) if not v else [])


def _o_fastq_text(spec):
    from biotite.file import InvalidFileError
    from biotite.sequence.io.fastq import FastqFile
    text = "\n".join(spec["lines"]) + "\n"

    def canon(items):
        return [(k, s, [int(x) for x in q]) for k, (s, q) in items]
    try:
        a = canon(FastqFile.read(io.StringIO(text), 33).items())
    except InvalidFileError:
        return []
    try:
        b = canon(FastqFile.read_iter(io.StringIO(text), 33))
    except InvalidFileError as e:
        return [("C12/fastq/read-vs-read_iter", f"read accepts, read_iter raises {e}")]
    bd = {}
    for k, s, q in b:
        bd[k] = (k, s, q)
    if list(bd.values()) != a:
        return [("C12/fastq/read-vs-read_iter", f"{a[:2]} vs {b[:2]}")]
    return []


def _expressible(d):
    return d & 3 == 0 and d & 48 != 48


def _o_loc(spec):
    from biotite.sequence.io.genbank import annotation as gba
    locs = [_mkloc(l) for l in spec["locs"]]
    if not all(_expressible(l[3]) for l in spec["locs"]):
        return []
    s = _priv("gb.loc_print")(locs)
    try:
        back = _priv("gb.loc_parse")(s)
    except Exception as e:  # noqa: BLE001
        return [("C12/genbank/location/unparseable", f"{spec['locs']} -> {s!r} -> {type(e).__name__}")]
    if back != locs:
        bad = [(a, b) for a, b in zip(locs, back) if a != b]
        if bad and all(a.first == a.last and a.first == b.first and a.strand == b.strand for a, b in bad):
            return [("C12/genbank/location/single-base-defect-lost", f"{spec['locs']} written as {s!r}, read back as {back}")]
        return [("C12/genbank/location/roundtrip", f"{spec['locs']} written as {s!r}, read back as {back}")]
    return []


def _mkannot(feats):
    from biotite.sequence.annotation import Annotation, Feature
    return Annotation([Feature(f["key"], [_mkloc(l) for l in f["locs"]], dict(f["qual"])) for f in feats])


def _o_genbank(spec):
    import biotite.sequence.io.genbank as gb
    from biotite.sequence import NucleotideSequence, ProteinSequence
    from biotite.sequence.annotation import AnnotatedSequence
    annot = _mkannot(spec["features"])
    seq = (NucleotideSequence if spec["format"] == "gb" else ProteinSequence)(spec["seq"])
    aseq = AnnotatedSequence(annot, seq, sequence_start=spec["start"])
    f = gb.GenBankFile()
    gb.set_locus(f, "X", len(seq))
    refuse = any(gb_feat_refused(ft) for ft in spec["features"])
    lines_before = list(f.lines)
    try:
        gb.set_annotated_sequence(f, aseq)
    except ValueError:
        if not refuse:
            raise
        if f.lines != lines_before:
            return [("C12/genbank/refused-call-changed-object", "set_annotated_sequence was rejected but the file changed")]
        return []
    if refuse:
        return [("C12/genbank/inexpressible-feature-accepted", f"{[(ft['key'], ft['qual']) for ft in spec['features'] if gb_feat_refused(ft)][:2]} was written")]
    try:
        back = gb.get_annotated_sequence(_reread(gb.GenBankFile, f), spec["format"])
    except Exception as e:  # noqa: BLE001
        if spec["start"] < 0:
            return [("C12/genbank/negative-sequence-start-unreadable", f"sequence_start={spec['start']}: {type(e).__name__}: {e}")]
        if not spec["features"]:
            return [("C12/genbank/empty-annotation-unreadable", f"{type(e).__name__}: {e}")]
        return [("C12/genbank/written-file-unreadable", f"{type(e).__name__}: {e}")]
    v = []
    if str(back.sequence) != str(seq) or type(back.sequence) is not type(seq):
        v.append(("C12/genbank/sequence-roundtrip", f"{spec['seq'][:30]!r} -> {str(back.sequence)[:30]!r}"))
    if back.sequence_start != spec["start"]:
        v.append(("C12/genbank/sequence-start", f"{spec['start']} -> {back.sequence_start}"))
    if back.annotation != annot:
        a, b = set(annot), set(back.annotation)
        lost, extra = sorted(a - b), sorted(b - a)
        key = "C12/genbank/annotation-roundtrip"
        if lost and all(x.qual and all(val is None for val in x.qual.values()) for x in lost):
            key = "C12/genbank/feature-with-only-valueless-qualifiers"
        elif len(lost) == len(extra) and all(x.key == y.key and x.qual == y.qual for x, y in zip(lost, extra)):
            def strip_single(feat):
                return {(l.first, l.last, l.strand, l.defect if l.first != l.last else 0) for l in feat.locs}
            if all(strip_single(x) == strip_single(y) for x, y in zip(lost, extra)):
                key = "C12/genbank/location/single-base-defect-lost"
        v.append((key, f"lost {[(x.key, sorted(x.locs, key=str), x.qual) for x in lost][:2]} got {[(x.key, sorted(x.locs, key=str), x.qual) for x in extra][:2]}"))
    # the file object used as a list of fields stays consistent
    if [f[i] for i in range(len(f))] != [x for x in (lambda g: [g[i] for i in range(len(g))])(_reread(gb.GenBankFile, f))]:
        v.append(("C12/genbank/edit/view-differs-from-text", "fields of the edited object differ from a re-read"))
    return v + (_alias_check("genbank", f, gb.GenBankFile) if not v else [])


def _o_gff_annot(spec):
    import biotite.sequence.io.gff as gff
    annot = _mkannot(spec["features"])
    f = gff.GFFFile()
    ids = [ft["qual"]["ID"] for ft in spec["features"] if "ID" in ft["qual"]]
    refuse = (len(ids) != len(set(ids)) or any(len(ft["locs"]) > 1 and "ID" not in ft["qual"] for ft in spec["features"])
              or any(x is None for ft in spec["features"] for x in ft["qual"].values()))
    if len({(ft["key"], tuple(map(tuple, ft["locs"])), tuple(sorted((k, str(x)) for k, x in ft["qual"].items()))) for ft in spec["features"]}) != len(spec["features"]):
        return []      # identical features collapse in the Annotation (a set): the duplicate-ID rule does not apply
    lines_before = list(f.lines)
    try:
        gff.set_annotation(f, annot, spec["seqid"], spec["source"])
    except ValueError:
        if not refuse:
            raise
        if f.lines != lines_before:
            return [("C12/gff/refused-call-changed-object", "set_annotation was rejected but entries were written")]
        return []
    if refuse:
        return [("C12/gff/ambiguous-annotation-accepted", f"IDs {ids}, locations {[len(ft['locs']) for ft in spec['features']]}: written although get_annotation cannot tell the features apart")]
    back = gff.get_annotation(_reread(gff.GFFFile, f))
    if back != annot:
        a, b = set(annot), set(back)
        lost, extra = sorted(a - b), sorted(b - a)
        key = "C12/gff/annotation-roundtrip"
        if lost and all("%" in x.key for x in lost) and len(lost) == len(extra):
            key = "C12/gff/type-not-quoted"
        elif lost and all(any(val != val.rstrip() for val in list(x.qual.values())[-1:]) for x in lost):
            key = "C12/gff/last-attribute-trailing-blank"
        return [(key, f"lost {[(x.key, x.qual) for x in lost][:2]} got {[(x.key, x.qual) for x in extra][:2]}")]
    return _alias_check("gff", f, gff.GFFFile)


def _entry_tuple(e):
    from biotite.sequence.annotation import Location
    sid, src, ty, a, b, score, strand, phase, attrs = e
    return (sid, src, ty, a, b, score, {"+": Location.Strand.FORWARD, "-": Location.Strand.REVERSE, ".": None}[strand], phase, dict(attrs))


def _o_gff_entries(spec):
    import biotite.sequence.io.gff as gff
    f = gff.GFFFile()
    exp = []
    for e in spec["entries"]:
        t = _entry_tuple(e)
        try:
            f.append(*t)
        except ValueError:
            if t[0].strip()[:1] in ("#", ">", "") or not t[1].strip() or not t[2].strip():
                continue    # rejected: such a line would be a comment / FASTA header / have an empty column
            raise
        exp.append((t[0].strip(), t[1].strip(), t[2].strip()) + t[3:])
    g = _reread(gff.GFFFile, f)
    got = [g[i] for i in range(len(g))]
    if got != exp:
        key = "C12/gff/line-roundtrip"
        if len(got) == len(exp):
            diff = [i for i in range(9) if any(x[i] != y[i] for x, y in zip(got, exp))]
            if diff == [2] and any("%" in x[2] for x in exp):
                key = "C12/gff/type-not-quoted"
            elif diff == [8] and all(list(y[8].values())[-1:] != [v.rstrip() for v in list(y[8].values())[-1:]] for x, y in zip(got, exp) if x != y):
                key = "C12/gff/last-attribute-trailing-blank"
        elif any(y[0].startswith("#") for y in exp):
            key = "C12/gff/seqid-starting-with-hash-becomes-comment"
        return [(key, f"wrote {exp[:2]} read {got[:2]}")]
    return _alias_check("gff", g, gff.GFFFile) + _alias_check("gff", f, gff.GFFFile)


def _o_gff_hist(spec):
    import biotite.sequence.io.gff as gff
    f = gff.GFFFile()
    ref = []
    v = []
    if spec.get("start") is not None:
        # history on a file read from a text (directives, comments, a '##FASTA' section with sequence data)
        f = gff.GFFFile.read(io.StringIO("\n".join(spec["start"]) + "\n"))
        ref = [f[i] for i in range(len(f))]
    for step in spec["hist"]:
        try:
            before_step = _snap("gff", f)
        except Exception:  # noqa: BLE001
            before_step = None
        try:
            if step[0] == "append":
                t = _entry_tuple(step[1]); f.append(*t); ref.append(t)
            elif step[0] == "insert":
                t = _entry_tuple(step[2]); f.insert(step[1], *t)
                i = step[1]
                ref.insert(i if i >= 0 else len(ref) + i, t) if i != len(ref) else ref.append(t)
            elif step[0] == "set":
                t = _entry_tuple(step[2]); f[step[1]] = t; ref[step[1]] = t
            elif step[0] == "del":
                del f[step[1]]; del ref[step[1]]
            elif step[0] == "directive":
                f.append_directive(step[1], *step[2])
            elif step[0] == "copy":
                f = f.copy()
        except (IndexError, NotImplementedError, ValueError) as exc:
            # a refusal is legitimate only where the documented contract says so
            n_ent = len(before_step[0]) if before_step else 0
            has_fasta = any(l == "##FASTA" for l in f.lines)
            legit = False
            if isinstance(exc, IndexError) and step[0] in ("insert", "set", "del"):
                legit = not (-n_ent <= step[1] < n_ent or (step[0] == "insert" and step[1] == n_ent))
            elif isinstance(exc, NotImplementedError):
                legit = (has_fasta and (step[0] in ("append", "directive") or (step[0] == "insert" and step[1] == n_ent))) or (step[0] == "directive" and step[1].startswith("FASTA"))
            elif isinstance(exc, ValueError) and step[0] in ("append", "insert", "set"):
                t = _entry_tuple(step[-1])
                legit = t[0].strip()[:1] in ("#", ">", "") or not t[1].strip() or not t[2].strip()
            if not legit:
                return [(f"C12/gff/edit-raises/{type(exc).__name__}", f"{step[0]} {step[1] if step[0] != 'append' else ''} on {n_ent} entries (FASTA section: {has_fasta}): {exc}")]
            if _snap("gff", f) != before_step:
                return [("C12/gff/refused-call-changed-object", f"{step[0]} {step[1] if step[0] != 'append' else ''} was rejected but the file changed")]
            continue
        try:
            view = [f[i] for i in range(len(f))]
            g = _reread(gff.GFFFile, f)
            back = [g[i] for i in range(len(g))]
            it_view, it_back = list(f), list(g)
        except Exception as e:  # noqa: BLE001
            return [("C12/gff/edit/entry-unreadable", f"after {step[0]}: {type(e).__name__}: {e}")]
        if len(f) != len(g) or it_view != view or it_back != back:
            return [("C12/gff/edit/len-or-iteration-differs", f"after {step[0]}: len {len(f)} vs {len(g)} in the text; iteration gives {len(it_view)} / {len(it_back)} entries")]
        if f.directives() != g.directives():
            return [("C12/gff/edit/directives-differ-from-text", f"after {step[:2]}: directives() {f.directives()} but the text says {g.directives()}")]
        if [f.lines[i] for _, i in f.directives()] != ["##" + t for t, _ in f.directives()]:
            return [("C12/gff/edit/directives-differ-from-text", f"after {step[:2]}: directives() {f.directives()} does not point at its lines {f.lines}")]
        if view != back:
            return [("C12/gff/edit/view-differs-from-text", f"after {step[0]}: {len(view)} entries in the object, {len(back)} in its text")]
        exp = [(t[0].strip(), t[1].strip(), t[2].strip()) + t[3:] for t in ref]
        if view != exp:
            return [("C12/gff/edit/differs-from-list-spec", f"after {step[0]}: {view[:2]} expected {exp[:2]}")]
    return v + _alias_check("gff", f, gff.GFFFile, (), [t[8] for t in ref])


def _o_gb_hist(spec):
    from collections import OrderedDict
    from biotite.file import InvalidFileError
    from biotite.sequence.io.genbank import GenBankFile
    f = GenBankFile()
    ref = []

    def item(name, content, subs):
        nm = name.strip().upper()
        return (nm, list(content), OrderedDict() if nm in ("FEATURES", "ORIGIN") else OrderedDict((k.upper().strip(), list(x)) for k, x in (subs or {}).items()))
    def must_refuse(st):
        """exactly the field specifications _to_lines cannot write in a readable way"""
        if st[0] not in ("append", "insert", "set", "setfield"):
            return False
        nm, content, subs = st[-3].strip().upper(), st[-2], st[-1] or {}
        if not nm or len(nm) > 12 or nm.startswith("//") or any(len(k.upper().strip()) > 10 for k in subs):
            return True
        if nm in ("FEATURES", "ORIGIN"):
            return any(l and l[0] != " " for l in content)
        return not content or any(not x for x in {k.upper().strip(): x for k, x in subs.items()}.values())

    for step in spec["hist"]:
        before_step = _snap("genbank", f)
        n_before = len(f)
        try:
            if step[0] == "append":
                f.append(*step[1:]); ref.append(item(*step[1:]))
            elif step[0] == "insert":
                f.insert(*step[1:])
                i = step[1]
                ref.insert(i if i >= 0 else len(ref) + i, item(*step[2:]))
            elif step[0] == "set":
                f[step[1]] = tuple(step[2:]); ref[step[1]] = item(*step[2:])
            elif step[0] == "setfield":
                f.set_field(*step[1:])
                idx = [i for i, r in enumerate(ref) if r[0] == step[1].strip().upper()]
                if idx:
                    ref[idx[0]] = item(*step[1:])
                else:
                    ref.append(item(*step[1:]))
            elif step[0] == "del":
                del f[step[1]]; del ref[step[1]]
        except (IndexError, InvalidFileError) as exc:
            if isinstance(exc, IndexError):
                legit = step[0] in ("insert", "set", "del") and not (-n_before <= step[1] < n_before or (step[0] == "insert" and step[1] == n_before))
            else:
                legit = step[0] == "setfield" and sum(1 for r in ref if r[0] == step[1].strip().upper()) > 1
            if not legit:
                return [(f"C12/genbank/edit-raises/{type(exc).__name__}", f"{step[:2]} on {n_before} fields: {exc}")]
            if _snap("genbank", f) != before_step:
                return [("C12/genbank/refused-call-changed-object", f"{step[:2]} was rejected but the file changed")]
            continue
        except ValueError:
            if must_refuse(step):
                # a field that could not be read back is rejected: the file must be unchanged
                if _snap("genbank", f) != before_step:
                    return [("C12/genbank/refused-call-changed-object", f"{step[:2]} was rejected but the file changed")]
                continue
            raise
        if must_refuse(step):
            return [("C12/genbank/unreadable-field-accepted", f"{step[:2]}: name {step[-3]!r}, content {step[-2][:2]}, subfields {list((step[-1] or {}))} was accepted")]
        view = [f[i] for i in range(len(f))]
        g = _reread(GenBankFile, f)
        back = [g[i] for i in range(len(g))]
        if view != back:
            key = "C12/genbank/edit/view-differs-from-text"
            if [x[0].strip() for x in view] == [x[0] for x in back] and [x[1:] for x in view] == [x[1:] for x in back]:
                key = "C12/genbank/edit/field-name-not-stripped"
            elif len(view) > len(back) and any(len(st) > 2 and st[0] in ("append", "insert", "set", "setfield") and not st[-2] and st[-3].strip().upper() not in ("FEATURES", "ORIGIN") for st in spec["hist"]):
                key = "C12/genbank/edit/empty-content-field-vanishes"
            return [(key, f"after {step[:2]}: {[x[0] for x in view]} vs re-read {[x[0] for x in back]}")]
        if view != ref:
            return [("C12/genbank/edit/differs-from-list-spec", f"after {step[:2]}: {view[:2]} expected {ref[:2]}")]
    return _alias_check("genbank", f, GenBankFile, (), [st[-2] for st in spec["hist"] if len(st) > 2] + [st[-1] for st in spec["hist"] if len(st) > 2])


def _o_quote(spec):
    from urllib.parse import unquote
    from biotite.sequence.io.gff import file as gfile
    from urllib.parse import quote
    q = quote(spec["s"], safe=_priv("gff.safe"))
    v = []
    if unquote(q) != spec["s"]:
        v.append(("C12/gff/quote-not-invertible", f"{spec['s']!r} -> {q!r} -> {unquote(q)!r}"))
    if any(c in q for c in "\t\n;=&,"):
        v.append(("C12/gff/delimiter-survives-quoting", f"{spec['s']!r} -> {q!r}"))
    return v


def _o_seq_conv(spec):
    try:
        return _o_seq_conv_inner(spec)
    except Exception as e:  # noqa: BLE001
        return [(f"C12/{spec['fmt']}/sequence-object-roundtrip/raises/{type(e).__name__}", f"as_rna={spec.get('as_rna')}: {type(e).__name__}: {e}")]


def _o_seq_conv_inner(spec):
    import random
    import numpy as np
    from biotite.sequence import NucleotideSequence, ProteinSequence
    v = []
    if spec["fmt"] == "fasta":
        from biotite.sequence.io import fasta
        f = fasta.FastaFile(chars_per_line=spec["cpl"] or 80)
        seqs = {h: (ProteinSequence(s) if k == "prot" else NucleotideSequence(s)) for h, k, s in spec["entries"]}
        as_rna = bool(spec.get("as_rna"))
        fasta.set_sequences(f, seqs, as_rna=as_rna)
        if as_rna:
            # the same through the single-sequence entry point, and the text must hold U only for nucleotides
            f2 = fasta.FastaFile()
            for h, sq in seqs.items():
                fasta.set_sequence(f2, sq, header=h, as_rna=True)
            if f2.lines != [l for l in fasta.FastaFile.read(io.StringIO(str(f) + "\n")).lines] and dict(f2.items()) != dict(f.items()):
                v.append(("C12/fasta/as_rna-entry-points-differ", "set_sequence and set_sequences write different text"))
            for h, k, s in spec["entries"]:
                exp = s.replace("T", "U") if k != "prot" else s
                if f[_norm(h)] != exp:
                    v.append(("C12/fasta/as_rna-changes-symbols", f"{h!r} ({k}): {s[:30]!r} written as {f[_norm(h)][:30]!r}"))
        g = _reread(fasta.FastaFile, f, 80)
        for h, k, s in spec["entries"]:
            back = fasta.get_sequence(g, h, seq_type=ProteinSequence if k == "prot" else NucleotideSequence)
            if str(back) != s or type(back) is not type(seqs[h]):
                v.append(("C12/fasta/sequence-object-roundtrip", f"{h!r}: {s[:30]!r} -> {str(back)[:30]!r}"))
        if list(g.keys()) != [h for h, _, _ in spec["entries"]]:
            v.append(("C12/fasta/order", f"{list(g.keys())}"))
    else:
        from biotite.sequence.io import fastq
        _OFFSETS = _priv("fastq.offsets")
        rnd = random.Random(spec["seed"])
        off = _OFFSETS[spec["off"]]
        f = fastq.FastqFile(offset=spec["off"], chars_per_line=spec["cpl"])
        d = {h: (NucleotideSequence(s), np.array([rnd.randint(33 - off, 126 - off) for _ in s])) for h, _, s in spec["entries"]}
        fastq.set_sequences(f, d, as_rna=bool(spec.get("as_rna")))
        g = fastq.get_sequences(_reread(fastq.FastqFile, f, spec["off"]))
        if list(g.keys()) != list(d.keys()):
            v.append(("C12/fastq/order", f"{list(g.keys())}"))
        for h in d:
            if h in g and (str(g[h][0]) != str(d[h][0]) or list(g[h][1]) != list(d[h][1])):
                v.append(("C12/fastq/sequence-object-roundtrip", f"{h!r}"))
    return v


def _o_origin(spec):
    from biotite.sequence.io.genbank import sequence as gbs
    st = _GbStub()
    gbs.set_sequence(st, spec["seq"], spec["start"])
    v = []
    if _priv("gb.seq_string")(st.lines) != spec["seq"].lower():
        v.append(("C12/genbank/origin-sequence-roundtrip", f"{spec['start']} {spec['seq'][:20]!r}... -> {_priv('gb.seq_string')(st.lines)[:30]!r}"))
    if _priv("gb.seq_start")(st.lines) != spec["start"]:
        v.append(("C12/genbank/sequence-start", f"{spec['start']} -> {_priv('gb.seq_start')(st.lines)}"))
    return v


def _o_api(spec):
    """an exception escaping one of these round trips is a failure of that round trip, with its own key"""
    try:
        return _o_api_inner(spec)
    except Exception as e:  # noqa: BLE001
        key = {"multifile": "C12/genbank/multifile-records", "alignment": "C12/fasta/alignment-roundtrip", "metadata": "C12/genbank/metadata-roundtrip",
               "general": "C12/general/save-load-sequence", "path_io": "C12/textfile/path-vs-object"}.get(spec["sub"], "C12/api/" + spec["sub"])
        return [(key + "/raises/" + type(e).__name__, f"{spec['sub']}: {type(e).__name__}: {e}")]


def _o_api_inner(spec):
    import pathlib
    import random
    import tempfile
    import numpy as np
    from common import paths
    import biotite.sequence.io.genbank as gb
    from biotite.sequence import NucleotideSequence, ProteinSequence
    from biotite.sequence.io import fasta, fastq, general
    import biotite.sequence.io.gff as gff
    sub = spec["sub"]
    v = []
    if sub == "multifile":
        files, text = [], []
        for r in spec["records"]:
            f = gb.GenBankFile()
            gb.set_locus(f, r["locus"], len(r["seq"]))
            f.set_field("DEFINITION", [r["definition"]])
            if r["extra"]:
                f.set_field("KEYWORDS", ["a", "b"], {"sub": ["c"]})
            if r.get("comment"):
                f.set_field("COMMENT", r["comment"])
            if r.get("features"):
                gb.set_annotation(f, _mkannot(r["features"]))
            gb.set_sequence(f, NucleotideSequence(r["seq"]))
            files.append(f)
            text += f.lines
        multi = gb.MultiFile.read(io.StringIO("\n".join(text) + "\n"))
        got = list(multi)
        if [g.lines for g in got] != [f.lines for f in files]:
            v.append(("C12/genbank/multifile-records", f"records {[g.lines[:2] for g in got]} instead of {[f.lines[:2] for f in files]}"))
        elif [[g[i] for i in range(len(g))] for g in got] != [[f[i] for i in range(len(f))] for f in files]:
            v.append(("C12/genbank/multifile-records", "fields of the records differ"))
        elif [(gb.get_definition(g), str(gb.get_sequence(g)), gb.get_raw_sequence(g)) for g in got] != [(r["definition"].strip(), r["seq"], r["seq"].lower()) for r in spec["records"]]:
            v.append(("C12/genbank/multifile-records", "definition / sequence of the records differ"))
        else:
            for g, r in zip(got, spec["records"]):
                if r.get("features") and gb.get_annotation(g) != _mkannot(r["features"]):
                    v.append(("C12/genbank/multifile-records", f"annotation of record {r['locus']} differs"))
        return v
    if sub == "alignment":
        from biotite.sequence.align import Alignment
        rows = spec["rows"]
        seqs = [NucleotideSequence(r.replace("-", "")) for r in rows]
        ali = Alignment(seqs, Alignment.trace_from_strings(rows), None)
        f = fasta.FastaFile(chars_per_line=spec["cpl"])
        names = [n.strip() for n in spec["names"]]
        fasta.set_alignment(f, ali, names)
        g = _reread(fasta.FastaFile, f, spec["cpl"])
        back = fasta.get_alignment(g)
        if list(g.keys()) != names or back.get_gapped_sequences() != rows or [str(x) for x in back.sequences] != [str(x) for x in seqs]:
            v.append(("C12/fasta/alignment-roundtrip", f"{rows} -> {back.get_gapped_sequences()} names {list(g.keys())}"))
        return v
    if sub == "metadata":
        f = gb.GenBankFile()
        gb.set_locus(f, spec["name"], spec["length"], spec["mol_type"], spec["circular"], spec["division"], spec["date"])
        f.set_field("DEFINITION", [spec["definition"]])
        f.set_field("ACCESSION", [spec["accession"]])
        f.set_field("VERSION", [spec["version"] + ("  GI:" + str(spec["gi"]) if spec["gi"] else "")])
        if spec["dblink"]:
            f.set_field("DBLINK", [f"{k}: {x}" for k, x in spec["dblink"].items()])
        f.set_field("SOURCE", [spec["source"]], {"ORGANISM": [spec["source"], "Eukaryota; Metazoa."]})
        g = _reread(gb.GenBankFile, f)
        if spec["division"] is not None and spec["date"] is not None:
            got = gb.get_locus(g)
            exp = (spec["name"], spec["length"], spec["mol_type"] or None, spec["circular"], spec["division"], spec["date"])
            if got != exp:
                v.append(("C12/genbank/locus-roundtrip", f"set_locus{exp} read back as {got}"))
        if (gb.get_definition(g), gb.get_accession(g), gb.get_version(g), gb.get_source(g)) != (spec["definition"], spec["accession"], spec["version"], spec["source"]):
            v.append(("C12/genbank/metadata-roundtrip", f"{(gb.get_definition(g), gb.get_accession(g), gb.get_version(g), gb.get_source(g))}"))
        if spec["gi"] and gb.get_gi(g) != spec["gi"]:
            v.append(("C12/genbank/metadata-roundtrip", f"GI {gb.get_gi(g)}"))
        if spec["dblink"] and gb.get_db_link(g) != spec["dblink"]:
            v.append(("C12/genbank/metadata-roundtrip", f"DBLINK {gb.get_db_link(g)}"))
        if g.get_indices("source") != [len(g) - 1] or g.get_fields("Source")[0][1] != {"ORGANISM": [spec["source"], "Eukaryota; Metazoa."]}:
            v.append(("C12/genbank/metadata-roundtrip", "get_indices / get_fields('SOURCE')"))
        return v
    os.makedirs(paths.BUILD, exist_ok=True)
    with tempfile.TemporaryDirectory(dir=paths.BUILD) as tmp:
        if sub == "general":
            suf = spec["suffix"]
            cls = ProteinSequence if suf == ".gp" else NucleotideSequence
            seqs = {n: cls(x) for n, x in spec["seqs"]}
            first = next(iter(seqs.values()))
            path = os.path.join(tmp, "one" + suf)
            general.save_sequence(path, first)
            back = general.load_sequence(path)
            if str(back) != str(first) or type(back) is not type(first):
                v.append(("C12/general/save-load-sequence", f"{suf}: {str(first)[:30]} -> {str(back)[:30]} ({type(back).__name__})"))
            if suf in (".fasta", ".fa", ".fastq", ".fq"):
                path = pathlib.Path(tmp) / ("many" + suf)
                general.save_sequences(path, seqs)
                back = general.load_sequences(path)
                if [(k, str(x)) for k, x in back.items()] != [(k, str(x)) for k, x in seqs.items()]:
                    v.append(("C12/general/save-load-sequences", f"{suf}: {list(back.items())[:2]}"))
            return v
        if sub == "path_io":
            f = fasta.FastaFile(chars_per_line=spec["cpl"])
            for h, x in spec["entries"]:
                f[h] = x
            p1 = os.path.join(tmp, "a.fasta"); p2 = pathlib.Path(tmp) / "b.fasta"
            f.write(p1); f.write(p2)
            buf = io.StringIO(); f.write(buf)
            if open(p1).read() != buf.getvalue() or open(p2).read() != buf.getvalue():
                v.append(("C12/textfile/path-vs-object", "write(path) differs from write(file object)"))
            a, b = fasta.FastaFile.read(p1, spec["cpl"]), fasta.FastaFile.read(p2, spec["cpl"])
            with open(p1) as fh:
                c = fasta.FastaFile.read(fh, spec["cpl"])
            if not (list(a.items()) == list(b.items()) == list(c.items()) == list(f.items())):
                v.append(("C12/textfile/path-vs-object", "read(path) differs from read(file object)"))
            if list(fasta.FastaFile.read_iter(p1)) != list(f.items()):
                v.append(("C12/textfile/path-vs-object", "read_iter(path)"))
            fasta.FastaFile.write_iter(p2, f.items(), spec["cpl"])
            if open(p2).read() != buf.getvalue():
                v.append(("C12/textfile/path-vs-object", "write_iter(path)"))
            try:
                fasta.FastaFile.read(io.BytesIO(b">a\nAC\n"))
                v.append(("C12/textfile/binary-file-accepted", "read() of a binary file object"))
            except TypeError:
                pass
            return v
    # options: non-default values of the optional parameters
    rnd = random.Random(spec["seed"])
    seq = NucleotideSequence(spec["seq"])
    f = fasta.FastaFile()
    fasta.set_sequence(f, seq, header="rna", as_rna=True)
    fasta.set_sequence(f, seq)
    g = _reread(fasta.FastaFile, f, 80)
    if "T" in g["rna"] or g["rna"].replace("U", "T") != spec["seq"] or str(fasta.get_sequence(g)) != spec["seq"] or str(fasta.get_sequence(g, "sequence")) != spec["seq"] or list(g.keys()) != ["rna", "sequence"]:
        v.append(("C12/fasta/as_rna-or-default-header", f"{dict(g.items())}"))
    q = fastq.FastqFile(offset="Illumina-1.8")
    scores = np.array([rnd.randint(0, 40) for _ in spec["seq"]])
    fastq.set_sequence(q, seq, scores, as_rna=True)
    q2 = _reread(fastq.FastqFile, q, 33)
    s2, sc2 = fastq.get_sequence(q2)
    if str(s2) != spec["seq"] or list(sc2) != list(scores) or list(q2.keys()) != ["sequence"] or "T" in q2.get_seq_string("sequence"):
        v.append(("C12/fastq/as_rna-or-default-header", f"{q2.lines[:4]}"))
    annot = _mkannot(spec["feats"])
    keys = sorted({ft["key"] for ft in spec["feats"]})
    only = keys[: max(1, len(keys) // 2)]
    gbf = gb.GenBankFile()
    gb.set_annotation(gbf, annot)
    sub_annot = gb.get_annotation(_reread(gb.GenBankFile, gbf), include_only=only)
    if set(sub_annot) != {ft for ft in annot if ft.key in only}:
        v.append(("C12/genbank/include_only", f"include_only={only}: {sorted(x.key for x in sub_annot)}"))
    feats = [dict(ft, locs=[[a, b, r, 0] for a, b, r, _ in ft["locs"]], qual={**{k: x for k, x in ft["qual"].items() if x is not None}, "ID": f"f{i}"}) for i, ft in enumerate(spec["feats"])]
    annot2 = _mkannot(feats)
    gf = gff.GFFFile()
    gff.set_annotation(gf, annot2, seqid="chrX", source="me", is_stranded=False)
    g2 = _reread(gff.GFFFile, gf)
    ents = [g2[i] for i in range(len(g2))]
    if any(e[0] != "chrX" or e[1] != "me" or e[6] is not None for e in ents):
        v.append(("C12/gff/set_annotation-options", f"seqid/source/is_stranded=False not honoured: {ents[:2]}"))
    if sorted((e[2], e[3], e[4]) for e in ents) != sorted((ft.key, l.first, l.last) for ft in annot2 for l in ft.locs):
        v.append(("C12/gff/set_annotation-options", "locations differ with is_stranded=False"))
    return v


ORACLES = {"api": _o_api, "origin": _o_origin, "fasta": _o_fasta, "fasta_text": _o_fasta_text, "fastq": _o_fastq, "fastq_text": _o_fastq_text, "loc": _o_loc,
           "genbank": _o_genbank, "gff_annot": _o_gff_annot, "gff_entries": _o_gff_entries, "gff_hist": _o_gff_hist,
           "gb_hist": _o_gb_hist, "quote": _o_quote, "seq_conv": _o_seq_conv}


def oracle(case):
    spec = case.get("spec")
    if not spec:
        return []
    with warnings.catch_warnings():
        warnings.simplefilter("ignore")
        try:
            return ORACLES[spec["o"]](spec)
        except _Unavailable:
            # the oracle wanted to call a private helper directly and it was not found by any trait: it cannot judge this case;
            # the loss is reported once, by gen_lean(), as the broken obligation C12_gen_helpers_found
            return []


def nontrivial(case, impl_out):
    if case.get("ops") and (len(case["ops"]) >= 2 or (case.get("kind") == "gff_group" and ";" in case["ops"][0])):
        return True
    if impl_out and any(o.startswith("ERR") or o == "skip" for o in impl_out):
        return True
    spec = case.get("spec") or {}
    return bool(spec.get("features") or spec.get("entries") or spec.get("locs"))


def signature(case):
    from common import util
    return "|".join(case.get("ops") or []) + util.jdump(case.get("spec"))


def distribution(cases_, impl_outs):
    outcomes, nops = {}, {}
    for c, o in zip(cases_, impl_outs):
        for line in o or []:
            k = line.split(" ")[0]
            outcomes[k] = outcomes.get(k, 0) + 1
        for op in c.get("ops") or []:
            k = op.split(" ")[0]
            nops[k] = nops.get(k, 0) + 1
    return {"outcomes": outcomes, "ops": nops}

"""C08 — optimal pairwise alignment returns the true optimum.

Ops (see lean/BiotiteModel/Driver/C08.lean for the grammar):
  opt     <mode> <gap> <a> <b> <k2> <matrix>                              -> ok <score> | ERR:<Exc>
  chk     <mode> <gap> <a> <b> <k2> <matrix> <max_number> <score> <traces> -> ok n=.. valid=.. scored=.. sound=.. distinct=.. count=..
  rescore <tp> <gap> <a> <b> <k2> <matrix> <trace>                        -> ok <score> | ERR:<Exc>

The `chk` line carries the ACTUAL output of align_optimal (every returned trace): `run_impl` rewrites it in
place before the runner hands the ops to the Lean driver, where the verified checker
(`checkAlignment`, Props/C08.lean `C08_checker_sound_*`) examines each trace.  The canonical form never says
which co-optimal trace came first: (score, n_traces, #valid, #rescored==score, #sound, distinct, count<=max).
"""
import ast
import functools
import os
import re

PROP = "C08"
PROPS_MODULE = "BiotiteModel.Props.C08"
DRIVER_MODULE = "BiotiteModel.Driver.C08"
EXT_MODULES = ["biotite.sequence.align.pairwise", "biotite.sequence.align.tracetable"]
GEN_FILES = ["BiotiteModel/Gen/C08.lean"]
RULE = ("seeded sequence pairs (length 0-7, quick; up to 12 thorough) over alphabets of 2-5 used symbols (as offset blocks of large alphabets: code VALUES straddle 255/256 and 65535/65536, first and second sequence), code widths "
        "uint8/16/32/64 and two different alphabets, int matrices in [-6,6] (any sign, asymmetric, match/mismatch, "
        "constant), linear gaps 0..-5 and affine (open, ext) incl. open<ext and zeros, global / semi-global / local, "
        "max_number 1..50; the matrix is built from different spellings of the same numbers (ndarray int16/32/64, Fortran, strided, "
        "read-only, dict, dict over ONE alphabet with asymmetric scores, NCBI string).  Oracle-only hardening streams: object "
        "reuse / refused calls / argument spellings / defaults (reuse), as_positional, align_ungapped, Alignment API, "
        "database matrices on protein / nucleotide sequences; real code runs in forked children (crash = verdict).  "
        "align_optimal's score and every returned trace go through the Lean model (optimum from "
        "the table model, verified checker on each trace, model of the trace count, for linear global/semi-global "
        "membership of every real trace in the traceback model followLin) and random valid alignments "
        "are rescored by align.score() vs the model's scorePub.  Oracle: exhaustive enumeration of all alignments "
        "(small shapes) or an independent memoised recursion.  non-trivial = both sequences non-empty and the "
        "matrix is not constant; distinct = different (mode, gap, a, b, matrix, max_number)")
TRUSTED = ["numpy np.max/np.where/np.unique/np.flip in align_optimal's Python part modelled by their documented semantics",
           "Alignment.trace rows are handed to the Lean checker as printed integers"]
ASSUMPTIONS = ["NoOverflow: every table entry fits int32 (|matrix|,|gap| <= 6 and length <= 12 in the valid stream); "
               "the int32-bound stream is oracle-only and a known finding",
               "the pseudo -inf of the affine tables is modelled as `none`"]
TECHNIQUE = ("Lean 4 proof (induction over alignment columns against a two-dimensional recurrence; refinement of the "
             "row-by-row table to the recurrence) + verified checker run on every actual output + correspondence")
LEVEL_TEXT = ("proof, for every matrix / sequence pair, no length bound (69 theorems; 13 of them are Gen obligations on facts "
              "regenerated from the source on every run: get_trace_linear/affine transliterated and proved equal to the model's "
              "tie rule for all scores, defaults, argument checks, table initialisation, the fill candidates and floors, start "
              "selection, follow_trace order, score(), SubstitutionMatrix).  HEADLINE, one statement per gap kind, "
              "about the model of align_optimal (alignOptimalModel: table fill + reported score + start selection + "
              "traceback + [:max_number]): C08_align_optimal_lin (g <= 0, all three modes): the reported score is the "
              "maximum of the public align.score() over all valid alignments of the mode (upper bound + attained), every "
              "returned alignment is valid and scores it, non-empty results are pairwise distinct, at most max_number are "
              "returned and at least one is; C08_align_optimal_aff (open, ext <= 0 incl. open<ext and zeros, all three "
              "modes): the same over valid alignments in which a gap in one sequence never directly abuts a gap in the "
              "other (a FREE terminal gap counts as a gap: C08_noabut_covers_free_terminal_gaps); non-emptiness: "
              "C08_align_optimal_aff_nonempty.  Argument refusals modelled and proved exact (C08_args_rejects; known "
              "finding C08_max_number_defect: max_number >= 2**31 raises OverflowError). "
              "Components: C08_upper/attained_pub_lin/_aff, C08_scorePub_semi[_aff] (terminal_penalty=False slice = "
              "positional form), C08_table_lin/_aff (+ prefix forms), C08_reported_lin/_aff, checker soundness "
              "C08_checker_sound_lin/_aff (run on every actual output), traceback C08_traces_valid / _valid_aff / "
              "_local / _local_aff, distinctness C08_traces_distinct / _distinct_aff (the state of a node is the kind "
              "of the column entering it, so different state paths spell different columns), counts, lookup = "
              "recurrence C08_traces_lookup / _lookup_aff.  Tie to the code: reported score, number of traces and "
              "membership of every real trace in alignOptimalModel's list on every case (exact surviving set when there are "
              "more than 300 co-optimal paths).  PARTIAL: int32 = Z under NoOverflow and pseudo -inf = none are "
              "assumptions of the correspondence (known finding at the int32 bound)")
LEVEL_NOTE = ("trusted: Lean kernel, line-protocol driver, generators; int32 arithmetic modelled as Z under NoOverflow "
              "(pseudo -inf of the affine tables = none); the traceback theorems are about followLin over Rec.val, the "
              "driver runs followLin over a lookup into the table proved equal to Rec.val (C08_table_lin)")

WIDTH_SIZE = {"u8": None, "u16": 300, "u32": 70000, "u64": None}
BIG = 2**31 - 2


# ---------------------------------------------------------------- translator (Gen)
class TieError(ValueError):
    pass

def _funcs(norm):
    out, cur = {}, None
    for line in norm.splitlines():
        m = re.match(r"(?:def|cdef inline [\w.]+|cdef [\w.]+)\s+(\w+)\s*\(", line)
        if m and not re.match(r"cdef (int|list|np\.\w+|uint8|int32|int64)\s+\w+\s*(,|$)", line):
            cur = m.group(1); out[cur] = []
        if cur is not None:
            out[cur].append(line)
    return out

def _inline_single_assignments(f):
    """canonical form under introduction / removal of alias locals and hoisted invariants: a name that is bound exactly
    once by a plain assignment (or a parameter re-bound exactly once at the top level) is substituted into its later
    uses and the assignment is dropped; `a, b = (x, y)` is split first.  Only used for comparing, never for running."""
    import copy
    params = {a.arg for a in f.args.posonlyargs + f.args.args + f.args.kwonlyargs}

    class Split(ast.NodeTransformer):
        def visit_Assign(self, n):
            if len(n.targets) == 1 and isinstance(n.targets[0], ast.Tuple) and isinstance(n.value, ast.Tuple) \
                    and len(n.targets[0].elts) == len(n.value.elts) and all(isinstance(t, ast.Name) for t in n.targets[0].elts):
                return [ast.copy_location(ast.Assign(targets=[t], value=v), t) for t, v in zip(n.targets[0].elts, n.value.elts)]
            return n
    f = Split().visit(f)
    ast.fix_missing_locations(f)
    for _ in range(200):
        stores = {}
        mutated = set()
        for n in ast.walk(f):
            if isinstance(n, (ast.Subscript, ast.Attribute)) and isinstance(n.ctx, (ast.Store, ast.Del)):
                b = n.value
                while isinstance(b, (ast.Subscript, ast.Attribute)):
                    b = b.value
                if isinstance(b, ast.Name):
                    mutated.add(b.id)
            if isinstance(n, ast.AugAssign) and isinstance(n.target, ast.Name):
                stores[n.target.id] = stores.get(n.target.id, 0) + 1
        for n in ast.walk(f):
            if isinstance(n, ast.Name) and isinstance(n.ctx, (ast.Store, ast.Del)):
                stores[n.id] = stores.get(n.id, 0) + 1
            elif isinstance(n, ast.ExceptHandler) and n.name:
                stores[n.name] = stores.get(n.name, 0) + 2
        cand = None
        for n in sorted((n for n in ast.walk(f) if isinstance(n, ast.Assign)), key=lambda n: (n.lineno, n.col_offset)):
            if len(n.targets) == 1 and isinstance(n.targets[0], ast.Name) and stores.get(n.targets[0].id) == 1:
                t = n.targets[0].id
                if t in params and n not in f.body:
                    continue
                if any(isinstance(x, ast.Name) and x.id == t for x in ast.walk(n.value)) and t not in params:
                    continue
                if t in mutated:
                    continue
                cand = n
                break
        if cand is None:
            break
        t, val, pos = cand.targets[0].id, cand.value, (cand.end_lineno, cand.end_col_offset)

        class Sub(ast.NodeTransformer):
            def visit_Name(self, n):
                if n.id == t and isinstance(n.ctx, ast.Load) and (n.lineno, n.col_offset) >= pos:
                    return copy.deepcopy(val)
                return n

            def visit_Assign(self, n):
                if n is cand:
                    return None
                return self.generic_visit(n)
        f = Sub().visit(f)
        for n in ast.walk(f):           # bodies emptied by the removal
            for fld in ("body", "orelse"):
                if isinstance(getattr(n, fld, None), list) and not getattr(n, fld) and fld == "body":
                    setattr(n, fld, [ast.Pass()])
        ast.fix_missing_locations(f)
    return f


def _alpha_normalise(func):
    """copy of a FunctionDef with locals, private parameters, private attributes and private module names renamed
    positionally, docstring / annotations / raise-messages removed"""
    import copy
    f = copy.deepcopy(func)

    class DropAsserts(ast.NodeTransformer):     # an added invariant check is not a fact the model relies on (a firing
        def visit_Assert(self, n):              # assert is a behaviour change and is caught by the oracle / correspondence)
            return ast.copy_location(ast.Pass(), n)
    f = _inline_single_assignments(DropAsserts().visit(f))
    # every `for` statement / comprehension clause is its own scope: its variable is named by the ordinal of the loop
    loops = sorted((n for n in ast.walk(f) if isinstance(n, (ast.For, ast.comprehension))),
                   key=lambda n: ((n.lineno, n.col_offset) if isinstance(n, ast.For) else (n.target.lineno, n.target.col_offset)))
    owner = {}
    for n in ast.walk(f):
        if isinstance(n, (ast.ListComp, ast.SetComp, ast.GeneratorExp, ast.DictComp)):
            for g in n.generators:
                owner[id(g)] = n
    for k, lp in enumerate(loops):
        tnames = [x.id for x in ast.walk(lp.target) if isinstance(x, ast.Name)]
        scope = lp if isinstance(lp, ast.For) else owner.get(id(lp), lp)
        for j, t in enumerate(tnames):
            new_name = f"L{k}" + (f"_{j}" if len(tnames) > 1 else "")
            for x in ast.walk(scope):
                if isinstance(x, ast.Name) and x.id == t:
                    x.id = new_name
    public = not f.name.startswith("_") or (f.name.startswith("__") and f.name.endswith("__"))
    params = [a.arg for a in f.args.posonlyargs + f.args.args + f.args.kwonlyargs]
    if f.args.vararg: params.append(f.args.vararg.arg)
    if f.args.kwarg: params.append(f.args.kwarg.arg)
    ren = {}
    if not public:
        for k, p in enumerate(params):
            if p not in ("self", "cls"):
                ren[p] = f"p{k}"
    # locals: names bound inside the function, numbered by the position of their first binding
    bound = []
    for n in ast.walk(f):
        if isinstance(n, ast.Name) and isinstance(n.ctx, (ast.Store, ast.Del)):
            bound.append((n.lineno, n.col_offset, n.id))
        elif isinstance(n, ast.ExceptHandler) and n.name:
            bound.append((n.lineno, n.col_offset, n.name))
        elif isinstance(n, ast.arg) and n is not None and n.arg not in params:
            bound.append((n.lineno, n.col_offset, n.arg))       # lambda / nested function parameters
    for _, _, name in sorted(bound):
        if re.fullmatch(r"L\d+(_\d+)?", name):
            continue
        if name not in ren and name not in params:
            ren[name] = f"v{sum(1 for v in ren.values() if v.startswith('v'))}"
    attrs, globs = {}, {}

    class T(ast.NodeTransformer):
        def visit_Name(self, n):
            if n.id in ren:
                n.id = ren[n.id]
            elif n.id.startswith("_") and not n.id.startswith("__"):
                n.id = globs.setdefault(n.id, f"_g{len(globs)}")
            return n

        def visit_arg(self, n):
            n.annotation = None
            if n.arg in ren:
                n.arg = ren[n.arg]
            return n

        def visit_Attribute(self, n):
            self.generic_visit(n)
            if n.attr.startswith("_") and not n.attr.startswith("__"):
                n.attr = attrs.setdefault(n.attr, f"_a{len(attrs)}")
            return n

        def visit_AnnAssign(self, n):
            self.generic_visit(n)
            if n.value is None:
                return None
            return ast.copy_location(ast.Assign(targets=[n.target], value=n.value), n)

        def visit_Raise(self, n):
            self.generic_visit(n)
            if isinstance(n.exc, ast.Call):
                n.exc.args, n.exc.keywords = [], []
            return n

        def visit_ExceptHandler(self, n):
            self.generic_visit(n)
            if n.name in ren:
                n.name = ren[n.name]
            return n
    # attribute / global numbering must follow source order: visit in order of position
    f.returns = None
    if f.body and isinstance(f.body[0], ast.Expr) and isinstance(f.body[0].value, ast.Constant) and isinstance(f.body[0].value.value, str):
        f.body = f.body[1:] or [ast.Pass()]
    for n in sorted((n for n in ast.walk(f) if isinstance(n, (ast.Name, ast.Attribute))), key=lambda n: (n.lineno, n.col_offset, 0 if isinstance(n, ast.Name) else 1)):
        if isinstance(n, ast.Attribute) and n.attr.startswith("_") and not n.attr.startswith("__"):
            attrs.setdefault(n.attr, f"_a{len(attrs)}")
        if isinstance(n, ast.Name) and n.id not in ren and n.id.startswith("_") and not n.id.startswith("__"):
            globs.setdefault(n.id, f"_g{len(globs)}")
    f = T().visit(f)
    ast.fix_missing_locations(f)
    return f


def _join_conditions(lines):
    """merge continuation lines of if/elif/while headers (backslash or open parentheses) into one line"""
    out, buf = [], None
    for l in lines:
        if buf is None:
            if re.match(r"(if|elif|while)\b", l) and not l.endswith(":"):
                buf = l.rstrip("\\").strip()
            else:
                out.append(l)
        else:
            buf += " " + l.rstrip("\\").strip()
            if l.endswith(":"):
                out.append(re.sub(r"\s+", " ", buf)); buf = None
    return out

def _cands(lines, names_re, table_re):
    """assignments `name = table[i(-1)?, j(-1)?] (+ addend)?` with the governing if/else header"""
    res, cond = [], ""
    for l in lines:
        if re.match(r"(if|elif) .*:$", l):
            cond = re.sub(r"^(if|elif) ", "", l[:-1])
        elif l == "else:":
            cond = "else"
        m = re.fullmatch(rf"({names_re}) = ({table_re})\[(i(?:-1)?),\s*(j(?:-1)?)\](?: \+ (.+))?", l)
        if m:
            res.append((m.group(1), m.group(2), -1 if m.group(3) == "i-1" else 0, -1 if m.group(4) == "j-1" else 0,
                        m.group(5) or "", cond))
        elif not re.match(r"(if|elif|else)", l):
            cond = cond if re.match(rf"({names_re}) = ", l) else ""
    return res

def _extract_source_facts(SRC):
    from common import extload
    X = {}
    pw = _funcs(extload.normalise_pyx(open(os.path.join(SRC, "biotite/sequence/align/pairwise.pyx")).read()))
    tt = _funcs(extload.normalise_pyx(open(os.path.join(SRC, "biotite/sequence/align/tracetable.pyx")).read()))
    for f in ("align_optimal", "_fill_align_table", "_fill_align_table_affine", "align_ungapped"):
        if f not in pw: raise TieError(f"function {f} not found in pairwise.pyx")
    for f in ("get_trace_linear", "get_trace_affine", "follow_trace"):
        if f not in tt: raise TieError(f"function {f} not found in tracetable.pyx")
    ao = _join_conditions(pw["align_optimal"])
    # --- defaults (signature)
    sig = " ".join(pw["align_optimal"][:4])
    sig = sig[:sig.index("):") + 1]
    X["defaults_align_optimal"] = re.findall(r"(\w+)=([^,)]+)", sig)
    sigu = " ".join(pw["align_ungapped"][:3]); sigu = sigu[:sigu.index("):") + 1]
    X["defaults_align_ungapped"] = re.findall(r"(\w+)=([^,)]+)", sigu)
    # --- argument checks in order: (condition, exception class), up to the table allocation
    checks, cond = [], None
    for l in ao:
        if l.startswith("trace_table = np.zeros"):
            break
        m = re.match(r"(if|elif) (.*):$", l)
        if m: cond = m.group(2)
        elif l == "else:": cond = "else"
        m = re.match(r"raise (\w+)\(", l)
        if m: checks.append((cond, m.group(1)))
    X["arg_checks"] = checks
    X["gap_kind_tests"] = [l for l in ao if re.match(r"(if|elif) type\(gap_penalty\)", l)]
    # --- tables: allocations, neg_inf, initialisation, start selection, traceback bookkeeping (statements, in order)
    X["alloc"] = [l for l in ao if re.match(r"(trace_table|score_table|m_table|g1_table|g2_table) = np\.(zeros|full)", l)]
    X["neg_inf"] = [l for l in ao if "neg_inf" in l and not re.match(r"(m_table|g1_table|g2_table)", l)] + \
                   [l for l in ao if re.match(r"(if min_score|min_score =)", l)]
    X["init"] = [l for l in ao if re.match(r"(trace_table|score_table|m_table|g1_table|g2_table)\s*\[", l)]
    X["starts"] = [l for l in ao if re.match(r"(max_score =|i_list, j_list = np\.where|state_list = np\.(append|zeros|full)|if (m|g1|g2)_table\[i_start,j_start\] == max_score:|i_start = |j_start = )", l)]
    X["traceback"] = [l for l in ao if re.match(r"(curr_trace_count = |trace_list = trace_list\[|trace = np\.full|state=|max_trace_count=|trace_table, False, i_start, j_start, 0, trace, trace_list,)", l)]
    # --- linear fill
    fl = pw["_fill_align_table"]
    X["fill_lin_loops"] = [m.groups() for l in fl for m in [re.fullmatch(r"for (\w) in range\((\d+), (\w+)\.shape\[(\d)\]\):", l)] if m]
    X["fill_lin_max"] = [l for l in fl if re.match(r"[ij]_max = ", l)]
    X["fill_lin_cands"] = _cands(fl, r"from_\w+", r"score_table")
    X["fill_lin_floor"] = [l for l in fl if "score <= 0" in l or "score < 0" in l or re.match(r"if local", l) or l in ("continue", "term_penalty = True")]
    X["fill_lin_call"] = [l for l in fl if "get_trace_linear(" in l] + [l for l in fl if re.match(r"(score_table|trace_table)\[i,j\] = ", l)]
    # --- affine fill
    fa = _join_conditions(pw["_fill_align_table_affine"])
    X["fill_aff_loops"] = [m.groups() for l in fa for m in [re.fullmatch(r"for (\w) in range\((\d+), (\w+)\.shape\[(\d)\]\):", l)] if m]
    X["fill_aff_max"] = [l for l in fa if re.match(r"[ij]_max = ", l)]
    X["fill_aff_cands"] = _cands(fa, r"\w+_score", r"m_table|g1_table|g2_table")
    X["fill_aff_sim"] = [l for l in fa if l.startswith("similarity_score = ")]
    # floors: `if X_score <= 0:` followed by the cleared masks until `)`; then else branch assignment
    floors, i = [], 0
    while i < len(fa):
        m = re.fullmatch(r"if (\w+_score) (<=|<|>=|>) (-?\d+):", fa[i])
        if m:
            names, j = [], i + 1
            while j < len(fa) and fa[j] != ")":
                names += re.findall(r"TraceDirectionAffine\.(\w+)", fa[j]); j += 1
            floors.append((m.group(1), m.group(2), m.group(3), names))
            i = j
        i += 1
    X["fill_aff_floors"] = floors
    X["fill_aff_call"] = [l for l in fa if re.match(r"(mm_score, g1m_score, g2m_score,|mg1_score, g1g1_score,|mg2_score, g2g2_score,|&m_score, &g1_score, &g2_score)", l)] + \
                         [l for l in fa if re.match(r"(m_table|g1_table|g2_table|trace_table)\[i,j\] = ", l)]
    # --- follow_trace
    ft = tt["follow_trace"]
    X["ft_pred"] = [l for l in ft if re.match(r"[ij]_match, [ij]_gap_left, [ij]_gap_top = ", l)]
    X["ft_seq"] = [l for l in ft if re.match(r"seq_[ij] = ", l)]
    lin_dirs, aff_dirs = [], []
    for k, l in enumerate(ft):
        m = re.fullmatch(r"if trace_value & TraceDirectionLinear\.(\w+):", l)
        if m:
            a = re.fullmatch(r"next_indices\.append\(\((\w+), (\w+)\)\)", ft[k + 1])
            if not a: raise TieError("follow_trace: linear direction without next_indices.append")
            lin_dirs.append((m.group(1), a.group(1), a.group(2)))
        m = re.fullmatch(r"if trace_value & TraceDirectionAffine\.(\w+):", l)
        if m:
            a = re.fullmatch(r"next_indices\.append\(\((\w+), (\w+)\)\)", ft[k + 1])
            b = re.fullmatch(r"next_states\.append\(TraceState\.(\w+)\)", ft[k + 2])
            if not a or not b: raise TieError("follow_trace: affine transition without append pair")
            aff_dirs.append((m.group(1), a.group(1), a.group(2), b.group(1)))
    X["ft_lin_dirs"], X["ft_aff_dirs"] = lin_dirs, aff_dirs
    X["ft_branch"] = [l for l in ft if re.match(r"(for k in range\(|if curr_trace_count\[0\]|curr_trace_count\[0\] \+= |i, j = next_indices\[|state = next_states\[|new_i, new_j = |new_state = |while trace_table\[i,j\] != 0:|trace\[pos, [01]\] = |pos \+= )", l)]
    # masks used per state: `trace_value = trace_table[i,j] & (` blocks
    masks, i = [], 0
    while i < len(ft):
        if ft[i] == "trace_value = trace_table[i,j] & (":
            names, j = [], i + 1
            while ft[j] != ")":
                names += re.findall(r"TraceDirectionAffine\.(\w+)", ft[j]); j += 1
            masks.append(names); i = j
        i += 1
    X["ft_state_masks"] = masks
    X["ft_state_tests"] = re.findall(r"state == TraceState\.(\w+)", " ".join(ft))
    # --- get_trace_linear / affine: the decision structure, statement by statement
    X["get_trace_linear"] = tt["get_trace_linear"][5:] if False else [l for l in tt["get_trace_linear"] if not l.startswith(("cdef", "np.")) and "max_score)" not in l]
    X["get_trace_affine"] = [l for l in tt["get_trace_affine"] if re.match(r"(if|elif|else|trace|max_)", l) or l in ("TraceDirectionAffine.MATCH_TO_MATCH |",) or l.startswith("TraceDirectionAffine.") or l == ")"]
    # --- alignment.py / matrix.py through ast, ALPHA-NORMALISED (pass 8): locals -> v0, v1, … by first binding,
    # parameters of private functions -> p0, …, private attributes / module names -> _a0 / _g0 by first use; docstrings,
    # annotations and the message arguments of `raise` are dropped; formatting goes through ast.unparse.  Public names
    # (function names, their parameters, np.*, exception classes), literals, operators and statement order stay.
    at = ast.parse(open(os.path.join(SRC, "biotite/sequence/align/alignment.py")).read())
    fn = {n.name: n for n in at.body if isinstance(n, ast.FunctionDef)}
    for f in ("score", "find_terminal_gaps", "get_codes"):
        if f not in fn: raise TieError(f"function {f} not found in alignment.py")
    def defaults(f):
        a = f.args
        names = [x.arg for x in a.args][len(a.args) - len(a.defaults):]
        return [(n, ast.unparse(d)) for n, d in zip(names, a.defaults)]
    X["defaults_score"] = defaults(fn["score"])

    def facts(f):
        g = _alpha_normalise(f)
        pos = lambda n: (n.lineno, n.col_offset)
        nodes = sorted((n for n in ast.walk(g) if hasattr(n, "lineno")), key=pos)
        out = {"ifs": [], "assign": [], "aug": [], "for": [], "ret": [], "raises": []}
        for n in nodes:
            if isinstance(n, (ast.If, ast.While, ast.IfExp)):
                out["ifs"].append(ast.unparse(n.test))
            elif isinstance(n, ast.Assign):
                out["assign"].append(ast.unparse(n))
            elif isinstance(n, ast.AugAssign):
                out["aug"].append((ast.unparse(n.target), type(n.op).__name__, ast.unparse(n.value)))
            elif isinstance(n, ast.For):
                out["for"].append(ast.unparse(n.target) + " in " + ast.unparse(n.iter))
            elif isinstance(n, ast.Return) and n.value is not None:
                out["ret"].append(ast.unparse(n.value))
            elif isinstance(n, ast.Raise) and n.exc is not None:
                out["raises"].append(ast.unparse(n.exc.func if isinstance(n.exc, ast.Call) else n.exc))
        return out
    sc = facts(fn["score"])
    X["score_ifs"], X["score_augassign"], X["score_assign"] = sc["ifs"], sc["aug"], sc["assign"] + sc["for"]
    X["score_raises"] = sc["raises"]
    ftg = facts(fn["find_terminal_gaps"])
    X["ftg_return"], X["ftg_assign"] = ftg["ret"], ftg["assign"]
    gc = facts(fn["get_codes"])
    X["get_codes_assign"] = gc["assign"] + gc["for"] + gc["ret"]
    mt = ast.parse(open(os.path.join(SRC, "biotite/sequence/align/matrix.py")).read())
    cls = [n for n in mt.body if isinstance(n, ast.ClassDef) and n.name == "SubstitutionMatrix"]
    if not cls: raise TieError("class SubstitutionMatrix not found")
    meth = {n.name: n for n in cls[0].body if isinstance(n, ast.FunctionDef)}
    if "__init__" not in meth or "dict_from_str" not in meth:
        raise TieError("SubstitutionMatrix.__init__ / dict_from_str not found")
    init = meth["__init__"]
    # the private method that fills the matrix from a dictionary is found by its use: self.<private>(<the matrix argument>)
    marg = init.args.args[-1].arg
    helper = [n.func.attr for n in ast.walk(init) if isinstance(n, ast.Call) and isinstance(n.func, ast.Attribute)
              and isinstance(n.func.value, ast.Name) and n.func.value.id == "self" and n.func.attr.startswith("_")
              and any(isinstance(x, ast.Name) and x.id in (marg,) or True for x in n.args) and n.func.attr in meth]
    if not helper:
        raise TieError("SubstitutionMatrix.__init__ no longer calls a private fill method")
    fi = facts(init)
    X["matrix_init_tests"], X["matrix_init_raises"] = fi["ifs"], fi["raises"]
    X["matrix_astype"] = [x for x in fi["assign"] if "astype" in x]
    fd = facts(meth[helper[0]])
    X["matrix_fill_dict"] = fd["assign"] + fd["for"]
    ds = facts(meth["dict_from_str"])
    X["matrix_dict_from_str"] = ds["assign"] + ds["for"] + ds["ret"]
    return X



def _trace_fn_to_lean(SRC, name, params, enum_vals):
    """transliterate the body of tracetable.pyx `get_trace_linear` / `get_trace_affine` (plain Python apart from the
    cdef header) into a Lean expression: every top-level `if` tree yields (bits, maximum)"""
    raw = open(os.path.join(SRC, "biotite/sequence/align/tracetable.pyx")).read()
    m = re.search(r"^cdef inline np\.uint8_t " + name + r"\((.*?)\):\n(.*?)(?=^\S)", raw, re.S | re.M)
    if not m:
        raise TieError(f"{name} not found in tracetable.pyx")
    body = m.group(2)
    import textwrap
    tree = ast.parse(textwrap.dedent(body))
    stmts = [s for s in tree.body if not (isinstance(s, ast.Expr) and isinstance(s.value, ast.Constant))]
    if not stmts or not isinstance(stmts[-1], ast.Return) or ast.unparse(stmts[-1].value) != "trace":
        raise TieError(f"{name}: last statement is not `return trace`")
    ops = {ast.Gt: ">", ast.Lt: "<", ast.Eq: "=", ast.GtE: "≥", ast.LtE: "≤"}

    def bits(e):
        if isinstance(e, ast.BinOp) and isinstance(e.op, ast.BitOr):
            return bits(e.left) | bits(e.right)
        if isinstance(e, ast.Attribute) and e.attr in enum_vals:
            return enum_vals[e.attr]
        raise TieError(f"{name}: unexpected trace value {ast.unparse(e)}")

    def leaf(ss, first):
        b, mx = None, None
        for s in ss:
            if isinstance(s, ast.Assign) and ast.unparse(s.targets[0]) == "trace" and first:
                b = bits(s.value)
            elif isinstance(s, ast.AugAssign) and ast.unparse(s.target) == "trace" and isinstance(s.op, ast.BitOr) and not first:
                b = bits(s.value)
            elif isinstance(s, ast.Assign) and isinstance(s.targets[0], ast.Subscript) and isinstance(s.value, ast.Name):
                mx = (ast.unparse(s.targets[0]), s.value.id)
            else:
                raise TieError(f"{name}: unexpected statement {ast.unparse(s)}")
        if b is None or mx is None:
            raise TieError(f"{name}: a branch does not set both trace and the maximum")
        return b, mx

    outs = []

    def expr(node, first):
        if len(node) == 1 and isinstance(node[0], ast.If):
            n = node[0]
            t = n.test
            if not (isinstance(t, ast.Compare) and len(t.ops) == 1 and type(t.ops[0]) in ops and
                    isinstance(t.left, ast.Name) and isinstance(t.comparators[0], ast.Name)):
                raise TieError(f"{name}: unexpected condition {ast.unparse(t)}")
            c = f"{t.left.id} {ops[type(t.ops[0])]} {t.comparators[0].id}"
            if not n.orelse:
                raise TieError(f"{name}: `if` without else")
            return f"(if {c} then {expr(n.body, first)} else {expr(n.orelse, first)})"
        b, mx = leaf(node, first)
        outs.append(mx[0])
        return f"(({b} : Nat), {mx[1]})"
    parts, targets = [], []
    for k, s in enumerate(stmts[:-1]):
        if not isinstance(s, ast.If):
            raise TieError(f"{name}: unexpected top-level statement {ast.unparse(s)}")
        outs.clear()
        parts.append(expr([s], k == 0))
        if len(set(outs)) != 1:
            raise TieError(f"{name}: one decision tree writes several maxima {set(outs)}")
        targets.append(outs[0])
    got_params = [p.strip().split()[-1].lstrip("*") for p in m.group(1).split(",")]
    if got_params[:len(params)] != params:
        raise TieError(f"{name}: parameters {got_params}")
    return parts, targets, got_params


def _lean_lit(v):
    if isinstance(v, bool):
        return "true" if v else "false"
    if isinstance(v, int):
        return f"({v})" if v < 0 else str(v)
    if isinstance(v, str):
        return '"' + v.replace("\\", "\\\\").replace('"', '\\"') + '"'
    if isinstance(v, tuple):
        return "(" + ", ".join(_lean_lit(x) for x in v) + ")"
    if isinstance(v, list):
        return "[" + ", ".join(_lean_lit(x) for x in v) + "]"
    raise TypeError(v)


def gen_lean():
    from common import paths
    SRC = paths.SRC
    src = open(os.path.join(SRC, "biotite/sequence/align/tracetable.pxd")).read()

    def enum(name):
        m = re.search(r"cdef enum " + name + r":(.*?)(?=\n\S|\Z)", src, re.S)
        if not m:
            raise ValueError(f"enum {name} not found in tracetable.pxd")
        items = re.findall(r"^\s+([A-Z_0-9]+)\s*=\s*(\d+)", m.group(1), re.M)
        if not items:
            raise ValueError(f"enum {name} has no members")
        return items
    lin, aff, st = enum("TraceDirectionLinear"), enum("TraceDirectionAffine"), enum("TraceState")
    pyx = open(os.path.join(SRC, "biotite/sequence/align/pairwise.pyx")).read()
    m = re.search(r"trace_table = np\.zeros\(\( len\(seq1\)\+1, len\(seq2\)\+1 \), dtype=np\.(\w+)\)", pyx)
    if not m:
        raise ValueError("trace_table allocation not found in pairwise.pyx")
    bits = {"uint8": 8, "uint16": 16, "uint32": 32, "uint64": 64}.get(m.group(1))
    if bits is None:
        raise ValueError("unexpected trace_table dtype " + m.group(1))
    X = _extract_source_facts(SRC)
    lin_parts, lin_tg, lin_params = _trace_fn_to_lean(
        SRC, "get_trace_linear", ["match_score", "gap_left_score", "gap_top_score"], {n: int(v) for n, v in lin})
    aff_parts, aff_tg, aff_params = _trace_fn_to_lean(
        SRC, "get_trace_affine", ["match_to_match_score", "gap_left_to_match_score", "gap_top_to_match_score",
                                  "match_to_gap_left_score", "gap_left_to_gap_left_score", "match_to_gap_top_score",
                                  "gap_top_to_gap_top_score"], {n: int(v) for n, v in aff})
    if len(lin_parts) != 1 or len(aff_parts) != 3:
        raise TieError(f"get_trace_linear/affine: {len(lin_parts)}/{len(aff_parts)} decision trees (expected 1/3)")

    def lst(items):
        return "[" + ", ".join(f'("{n}", {v})' for n, v in items) + "]"
    S = "String"
    typed = [  # (Lean name, Lean type, value, doc)
        ("defaultsAlignOptimal", f"List ({S} × {S})", [tuple(x) for x in X["defaults_align_optimal"]], "keyword defaults of `align_optimal`"),
        ("defaultsAlignUngapped", f"List ({S} × {S})", [tuple(x) for x in X["defaults_align_ungapped"]], "keyword defaults of `align_ungapped`"),
        ("defaultsScore", f"List ({S} × {S})", [tuple(x) for x in X["defaults_score"]], "keyword defaults of `align.score`"),
        ("argChecks", f"List ({S} × {S})", [tuple(x) for x in X["arg_checks"]], "argument checks of `align_optimal` in source order: (condition, exception class)"),
        ("gapKindTests", f"List {S}", X["gap_kind_tests"], "how linear / affine penalties are told apart"),
        ("alloc", f"List {S}", X["alloc"], "table allocations (shape, fill value, dtype)"),
        ("negInf", f"List {S}", X["neg_inf"], "the pseudo minus infinity"),
        ("tableInit", f"List {S}", X["init"], "first row / column initialisation statements in source order"),
        ("startSelection", f"List {S}", X["starts"], "start cells / states of the traceback"),
        ("tracebackCalls", f"List {S}", X["traceback"], "counter start, follow_trace arguments, final truncation"),
        ("fillLinLoops", f"List ({S} × {S} × {S} × {S})", [tuple(x) for x in X["fill_lin_loops"]], "loop domains of `_fill_align_table`"),
        ("fillLinMax", f"List {S}", X["fill_lin_max"], "last row / column"),
        ("fillLinCands", f"List ({S} × {S} × Int × Int × {S} × {S})", [tuple(x) for x in X["fill_lin_cands"]], "(candidate, table, di, dj, addend, governing condition)"),
        ("fillLinFloor", f"List {S}", X["fill_lin_floor"], "local: penalties forced on, floor at zero"),
        ("fillLinStore", f"List {S}", X["fill_lin_call"], "call of get_trace_linear and the stores"),
        ("fillAffLoops", f"List ({S} × {S} × {S} × {S})", [tuple(x) for x in X["fill_aff_loops"]], "loop domains of `_fill_align_table_affine`"),
        ("fillAffMax", f"List {S}", X["fill_aff_max"], "last row / column"),
        ("fillAffCands", f"List ({S} × {S} × Int × Int × {S} × {S})", [tuple(x) for x in X["fill_aff_cands"]], "(candidate, table, di, dj, addend, governing condition)"),
        ("fillAffSim", f"List {S}", X["fill_aff_sim"], "similarity lookup"),
        ("fillAffFloors", f"List ({S} × {S} × {S} × List {S})", [tuple(x) for x in X["fill_aff_floors"]], "local floors: (score, operator, bound, cleared trace bits)"),
        ("fillAffStore", f"List {S}", X["fill_aff_call"], "arguments of get_trace_affine and the stores"),
        ("followPred", f"List {S}", X["ft_pred"], "predecessor indices in follow_trace (banded, plain, banded, plain)"),
        ("followSeqIdx", f"List {S}", X["ft_seq"], "sequence indices written into the trace"),
        ("followLinDirs", f"List ({S} × {S} × {S})", [tuple(x) for x in X["ft_lin_dirs"]], "order in which the linear trace bits are examined"),
        ("followAffDirs", f"List ({S} × {S} × {S} × {S})", [tuple(x) for x in X["ft_aff_dirs"]], "order of the affine transitions: (bit, i, j, next state)"),
        ("followBranch", f"List {S}", X["ft_branch"], "loop / branching / counter statements of follow_trace"),
        ("followStateMasks", f"List (List {S})", X["ft_state_masks"], "bits examined in MATCH / GAP_LEFT / GAP_TOP state"),
        ("scoreIfs", f"List {S}", X["score_ifs"], "`if` tests of align.score in ast order"),
        ("scoreAugAssign", f"List ({S} × {S} × {S})", [tuple(x) for x in X["score_augassign"]], "`score += …` statements"),
        ("scoreAssign", f"List {S}", X["score_assign"], "gap_open / gap_ext / in_gap / slice assignments"),
        ("scoreRaises", f"List {S}", X["score_raises"], "exception classes raised by align.score"),
        ("ftgReturn", f"List {S}", X["ftg_return"], "`return` of find_terminal_gaps"),
        ("ftgAssign", f"List {S}", X["ftg_assign"], "assignments of find_terminal_gaps"),
        ("getCodesAssign", f"List {S}", X["get_codes_assign"], "assignments of get_codes"),
        ("matrixInitTests", f"List {S}", X["matrix_init_tests"], "`if` tests of SubstitutionMatrix.__init__"),
        ("matrixInitRaises", f"List {S}", X["matrix_init_raises"], "exception classes of SubstitutionMatrix.__init__"),
        ("matrixAstype", f"List {S}", X["matrix_astype"], "dtype conversion of the score matrix"),
        ("matrixFillDict", f"List {S}", X["matrix_fill_dict"], "_fill_with_matrix_dict, statement by statement"),
        ("matrixDictFromStr", f"List {S}", X["matrix_dict_from_str"], "dict_from_str, statement by statement"),
    ]
    body = ["/- REGENERATED on every run by harness/props/c08.py from sequence/align/{tracetable.pxd, tracetable.pyx, pairwise.pyx,",
            "   alignment.py, matrix.py}. Do not edit. -/",
            "set_option linter.unusedVariables false",
            "namespace BiotiteModel.Gen.C08",
            "/-- `TraceDirectionLinear` members: (name, bit value). -/",
            "def traceLinear : List (String × Nat) := " + lst(lin),
            "/-- `TraceDirectionAffine` members. -/",
            "def traceAffine : List (String × Nat) := " + lst(aff),
            "/-- `TraceState` members. -/",
            "def traceState : List (String × Nat) := " + lst(st),
            "/-- bit width of the `trace_table` dtype in `align_optimal`. -/",
            f"def traceTableBits : Nat := {bits}"]
    for name, ty, val, doc in typed:
        body += [f"/-- {doc} -/", f"def {name} : {ty} := {_lean_lit(val)}"]
    body += ["/-- `get_trace_linear`, transliterated from tracetable.pyx: (trace bits, maximum). -/",
             "def getTraceLinear (" + " ".join(lin_params[:3]) + " : Int) : Nat × Int :=",
             "  " + lin_parts[0],
             "/-- `get_trace_affine`, transliterated: the three decision trees (match, gap-left, gap-top table):",
             "(bits contributed, maximum written to " + ", ".join(aff_tg) + "). -/"]
    for k, nm in enumerate(["getTraceAffineM", "getTraceAffineG1", "getTraceAffineG2"]):
        body += [f"def {nm} (" + " ".join(aff_params[:7]) + " : Int) : Nat × Int :=", "  " + aff_parts[k]]
    body += ["/-- the output slots of `get_trace_affine` in the order the trees write them -/",
             "def getTraceAffineTargets : List String := " + _lean_lit(aff_tg),
             "end BiotiteModel.Gen.C08", ""]
    return {"BiotiteModel/Gen/C08.lean": "\n".join(body)}


# ---------------------------------------------------------------- protocol helpers
def _ints(xs):
    return ",".join(str(int(x)) for x in xs) if len(xs) else "_"


def _gap_s(gap):
    return f"L:{gap[0]}" if len(gap) == 1 else f"A:{gap[0]}:{gap[1]}"


def _trace_s(rows):
    return ";".join(f"{int(i)}:{int(j)}" for i, j in rows) if len(rows) else "_"


def _head(c):
    flat = [x for row in c["M"] for x in row]
    return f"{_gap_s(c['gap'])} {_ints(c['a'])} {_ints(c['b'])} {len(c['M'][0])} {_ints(flat)}"


def _ops(c):
    ops = [f"opt {c['mode']} {_head(c)}", f"chk {c['mode']} {_head(c)} {c['max']} 0 -"]
    for r in c.get("rs", []):
        ops.append(f"rescore {r['tp']} {_head(c)} {_trace_s(r['trace'])}")
    return ops


# ---------------------------------------------------------------- generator
def _matrix(rng, k1, k2):
    style = rng.random()
    if style < 0.45:
        return [[rng.randint(-6, 6) for _ in range(k2)] for _ in range(k1)]
    if style < 0.6:   # match / mismatch
        mt, mm = rng.randint(0, 5), rng.randint(-5, 0)
        return [[mt if i == j else mm for j in range(k2)] for i in range(k1)]
    if style < 0.7:   # all negative
        return [[rng.randint(-6, -1) for _ in range(k2)] for _ in range(k1)]
    if style < 0.8:   # non-negative
        return [[rng.randint(0, 4) for _ in range(k2)] for _ in range(k1)]
    if style < 0.88:  # few distinct values: many ties
        vals = [rng.randint(-2, 2), rng.randint(-2, 2)]
        return [[rng.choice(vals) for _ in range(k2)] for _ in range(k1)]
    if style < 0.93:  # constant
        v = rng.randint(-2, 2)
        return [[v] * k2 for _ in range(k1)]
    # symmetric-looking but asymmetric in one entry
    base = [[0] * k2 for _ in range(k1)]
    for i in range(k1):
        for j in range(k2):
            base[i][j] = base[j][i] if (j < i and j < k1 and i < k2) else rng.randint(-4, 4)
    base[rng.randrange(k1)][rng.randrange(k2)] += rng.choice([-3, 3])
    return base


def _gap(rng):
    r = rng.random()
    if r < 0.45:
        return [rng.choice([0, 0, -1, -1, -2, -3, -4, -5])]
    return [rng.choice([0, -1, -2, -3, -5]), rng.choice([0, -1, -1, -2, -3, -5])]


def _random_path(rng, n, m, i0=0, j0=0):
    """a random alignment of a[i0:n] with b[j0:m] as trace rows"""
    rows, i, j = [], i0, j0
    while i < n or j < m:
        moves = []
        if i < n and j < m:
            moves += ["d", "d"]
        if j < m:
            moves.append("l")
        if i < n:
            moves.append("t")
        mv = rng.choice(moves)
        if mv == "d":
            rows.append([i, j]); i += 1; j += 1
        elif mv == "l":
            rows.append([-1, j]); j += 1
        else:
            rows.append([i, -1]); i += 1
    return rows


def _case(rng, maxlen, allow_empty=False):
    k1, k2 = rng.randint(2, 5), rng.randint(2, 5)
    w = rng.random()
    if w < 0.55:
        w1 = w2 = "u8"
    else:
        w1, w2 = rng.choice(["u8", "u16", "u32", "u64"]), rng.choice(["u8", "u16", "u32", "u64"])
        if w1 == "u32" and w2 in ("u16", "u32"):      # a 70000 x 300 matrix is the largest we build
            w2 = rng.choice(["u8", "u64"])
        if w2 == "u32" and w1 in ("u16", "u32"):
            w1 = rng.choice(["u8", "u64"])
    force = False
    if rng.random() < 0.12:          # any of the 16 (CodeType1, CodeType2) pairs, via a forced code dtype
        w1, w2 = rng.choice(["u8", "u16", "u32", "u64"]), rng.choice(["u8", "u16", "u32", "u64"])
        force = True
    offs = {"u8": [0], "u16": [0, 251, 253, 255, 256, 290], "u32": [253, 65533, 65535, 65536, 69990],
            "u64": [0, 253, 255, 256]}
    off1, off2 = rng.choice(offs[w1]), rng.choice(offs[w2])
    if w1 == "u32":
        off2 = 0                # keep the matrix small: the other alphabet stays at its k symbols
    if w2 == "u32":
        off1 = 0
    if force:
        off1 = off2 = 0
    lo = 0 if allow_empty else 1
    n = rng.choice([lo, 1, 2, 2, 3, 3, 4, 4, 5, 5, 6, 7] if maxlen <= 7 else list(range(lo, maxlen + 1)))
    m = rng.choice([lo, 1, 2, 2, 3, 3, 4, 4, 5, 5, 6, 7] if maxlen <= 7 else list(range(lo, maxlen + 1)))
    used1, used2 = rng.randint(1, k1), rng.randint(1, k2)
    a = [rng.randrange(used1) for _ in range(n)]
    b = [rng.randrange(used2) for _ in range(m)]
    if rng.random() < 0.25 and n and m:      # related sequences: b is a mutated copy of a
        b = [min(x, k2 - 1) for x in a]
        for _ in range(rng.randint(0, 3)):
            r = rng.random()
            if r < 0.4 and b:
                del b[rng.randrange(len(b))]
            elif r < 0.8:
                b.insert(rng.randint(0, len(b)), rng.randrange(k2))
            elif b:
                b[rng.randrange(len(b))] = rng.randrange(k2)
        b = b[:max(maxlen, 7)] or [0]
    mform = "array"
    if force or ((w1, w2) in (("u16", "u8"), ("u8", "u16"), ("u16", "u16")) and off1 + off2 > 0 and rng.random() < 0.3):
        mform = rng.choice(["dict", "dict", "str", "array"])      # dictionary-built matrices over large alphabets too
        if mform == "str" and not force:
            mform = "dict"
    if w1 == "u8" and w2 == "u8" and rng.random() < 0.45:
        mform = rng.choice(["dict", "dict-same", "dict-same", "str", "str-same", "i64", "i16", "fortran", "strided",
                            "readonly"])
    c = {"kind": "opt", "mode": rng.choice("gsl"), "gap": _gap(rng), "a": a, "b": b, "w1": w1, "w2": w2,
         "off1": off1, "off2": off2, "mform": mform, "force": force,
         "alph2": rng.choice(["same", "chr", "chr"]), "M": _matrix(rng, k1, k2),
         "max": rng.choice([1, 1, 2, 3, 5, 10, 50, rng.randint(1, 50)])}
    if mform.endswith("-same"):     # ONE alphabet, asymmetric scores: square matrix, same or equal alphabet object
        k = max(k1, k2)
        Mq = _matrix(rng, k, k)
        if all(Mq[i][j] == Mq[j][i] for i in range(k) for j in range(k)):
            Mq[0][k - 1] += 3
        c["M"] = Mq
        c["alph2"] = rng.choice(["same", "equal"])
    elif c["alph2"] == "same" and (k1 != k2 or w1 != w2):
        c["alph2"] = "chr"
    rs = []
    if a and b:
        for _ in range(rng.randint(0, 2)):
            if rng.random() < 0.6:
                rs.append({"tp": rng.choice([0, 1]), "trace": _random_path(rng, len(a), len(b))})
            else:                       # local segment (scored with terminal_penalty=True)
                i0, j0 = rng.randint(0, len(a) - 1), rng.randint(0, len(b) - 1)
                i1, j1 = rng.randint(i0 + 1, len(a)), rng.randint(j0 + 1, len(b))
                rs.append({"tp": rng.choice([0, 1]), "trace": _random_path(rng, i1, j1, i0, j0)})
    c["rs"] = rs
    c["ops"] = _ops(c)
    return c


def cases(rng, tier):
    n_cases = 700 if tier == "quick" else 6000
    for k in range(n_cases):
        yield _case(rng, 7 if (tier == "quick" or k % 4) else 12, allow_empty=(k % 10 == 0))
    # every pair of length <= L over 2 letters x a grid of matrices / gaps (exhaustive small shapes)
    L = 2 if tier == "quick" else 3
    import itertools
    grid_M = [[[1, -1], [-1, 1]], [[2, -3], [0, 1]]] if tier == "quick" else \
        [[[1, -1], [-1, 1]], [[2, -3], [0, 1]], [[-1, -2], [-3, -1]], [[0, 0], [0, 0]], [[3, 1], [-2, 2]]]
    grid_g = [[-1], [-2, -1]] if tier == "quick" else [[0], [-1], [-3], [-2, -1], [-1, -2], [0, -1], [-3, 0], [0, 0]]
    seqs = [list(p) for ln in range(1, L + 1) for p in itertools.product([0, 1], repeat=ln)]
    for a in seqs:
        for b in seqs:
            for Mx in grid_M:
                for g in grid_g:
                    for mode in "gsl":
                        c = {"kind": "grid", "mode": mode, "gap": g, "a": a, "b": b, "w1": "u8", "w2": "u8",
                             "alph2": "same", "M": Mx, "max": 50, "rs": []}
                        c["ops"] = _ops(c)
                        yield c
    # many co-optimal paths (> 300): constant matrices with zero penalties; the driver then runs the model with the
    # actual max_number and demands exactly the same surviving traces (no abstention above the enumeration cap)
    for _ in range(12 if tier == "quick" else 150):
        v = rng.choice([0, 0, 1, -1])
        c = {"kind": "opt", "mode": rng.choice("gsl"), "gap": rng.choice([[0], [0, 0], [0, -1], [-1, 0]]),
             "a": [rng.randrange(2) for _ in range(rng.randint(5, 7))],
             "b": [rng.randrange(2) for _ in range(rng.randint(5, 7))], "w1": "u8", "w2": "u8", "off1": 0, "off2": 0,
             "force": False, "mform": "array", "alph2": "same",
             "M": rng.choice([[[v, v], [v, v]], [[1, 0], [0, 1]], [[0, 0], [0, 1]]]),
             "max": rng.choice([1, 2, 7, 50]), "rs": []}
        c["ops"] = _ops(c)
        yield c
    # legal but huge penalties: partial scores far below -2**30 while everything still fits int32 (the pseudo -inf of
    # the affine tables must stay below every reachable score); one long sequence against a very short one
    for _ in range(10 if tier == "quick" else 120):
        n, m = rng.randint(9, 13), rng.randint(1, 2)
        if rng.random() < 0.5:
            n, m = m, n
        k = abs(n - m)                                   # at least k gap columns in a global alignment
        # NoOverflow: every table cell (also the all-gap border and sub-optimal cells) must fit int32:
        # (n + m) * max(|open|, |ext|) <= 2.0e9; the optimum itself lies below -2**30
        ext = 200 * 10**7 // (n + m) - rng.randint(0, 10**7)
        if k * ext < 112 * 10**7:
            ext = 200 * 10**7 // (n + m)
        opn = rng.choice([ext, ext // 2, ext - ext // 3, 3])
        gap = [-ext] if rng.random() < 0.25 else [-opn, -ext]
        c = {"kind": "opt", "mode": rng.choice("ggggsl"), "gap": gap, "a": [rng.randrange(2) for _ in range(n)],
             "b": [rng.randrange(2) for _ in range(m)], "w1": "u8", "w2": "u8", "off1": 0, "off2": 0, "force": False,
             "mform": "array", "alph2": "same", "M": rng.choice([[[1, -1], [-1, 1]], [[3, -2], [0, 2]], [[-4, -6], [-5, -4]]]),
             "max": rng.choice([1, 5, 50]), "rs": []}
        c["ops"] = _ops(c)
        yield c
    # alphabets that do / do not fit the matrix alphabet (prefix = fits; a run from the middle / a permutation = refused)
    for _ in range(8 if tier == "quick" else 100):
        size = rng.randint(4, 7)
        lo = rng.randint(0, size - 2)
        hi = rng.randint(lo + 1, size)
        yield {"kind": "alphafit", "size": size, "lo": lo, "hi": hi, "letter": rng.random() < 0.6,
               "which": rng.choice([1, 2]), "gap": _gap(rng), "mode": rng.choice("gsl"),
               "M": _matrix(rng, size, size), "sa": [rng.randrange(hi - lo) for _ in range(rng.randint(1, 5))],
               "sb": [rng.randrange(hi - lo) for _ in range(rng.randint(1, 5))], "max": 5}
    # argument refusals (hypothesis audit): positive penalties, max_number < 1 and >= 2**31, penalties beyond a C int
    pool_g = [[1], [5], [0], [-1], [-3], [1, -1], [-1, 1], [2, 2], [0, 0], [-2, -1], [-2**31], [-2**31 - 1],
              [-2**31 - 1, -1], [-1, -2**40], [-2**31, -1]]   # (-2**31, -2**31) makes neg_inf itself overflow: NoOverflow region
    pool_m = [1, 2, 1000, 0, -1, -5, 2**31 - 1, 2**31, 2**31 + 7, 2**40, 2**63]
    for _ in range(4 if tier == "quick" else 40):
        calls = [[rng.choice(pool_g), rng.choice(pool_m)] for _ in range(6)]
        yield {"kind": "args", "calls": calls, "mode": "g", "gap": [-1], "a": [0], "b": [0], "w1": "u8", "w2": "u8",
               "alph2": "same", "M": [[0]], "max": 1,
               "ops": [f"args {_gap_s(g)} {m}" for g, m in calls]}
    # public score() on traces the aligner never returns: columns of two gaps (allowed in an Alignment), oracle only
    for _ in range(10 if tier == "quick" else 150):
        base = _case(rng, 5)
        tr = _random_path(rng, len(base["a"]), len(base["b"]))
        for _k in range(rng.randint(1, 3)):
            tr.insert(rng.randint(0, len(tr)), [-1, -1])
        yield dict(base, kind="score-odd", trace=tr, tp=rng.choice([0, 1]), w1="u8", w2="u8", off1=0, off2=0,
                   mform="array", alph2="chr", rs=[], ops=None, force=False)
    # hardening streams (oracle only): less-used entry points, object reuse, refused calls, spellings, defaults
    n_api = 40 if tier == "quick" else 600
    for k in range(n_api):
        base = _case(rng, 5)
        base.pop("ops", None)
        base["rs"] = []
        yield dict(base, kind=["reuse", "positional", "ungapped", "alnapi"][k % 4], w1="u8", w2="u8", off1=0, off2=0,
                   force=False,
                   mform=base["mform"] if base["w1"] == "u8" and base["w2"] == "u8" else "array",
                   alph2=base["alph2"] if base["w1"] == "u8" and base["w2"] == "u8" else "chr")
    for k in range(12 if tier == "quick" else 200):
        db = rng.choice(["BLOSUM62", "PAM250", "BLOSUM45", "NUC", "std_protein", "std_nucleotide", "IDENTITY"])
        nuc = db in ("NUC", "std_nucleotide")
        letters = "ACGTNRYW" if nuc else "ACDEFGHIKLMNPQRSTVWYBZX"
        yield {"kind": "stdmatrix", "db": db, "mode": rng.choice("gsl"), "gap": _gap(rng),
               "sa": "".join(rng.choice(letters) for _ in range(rng.randint(1, 5))),
               "sb": "".join(rng.choice(letters) for _ in range(rng.randint(1, 5))), "max": rng.choice([1, 5, 50])}
    # separate stream: matrices / gaps at the int32 bound (outside NoOverflow) — oracle only
    for _ in range(6 if tier == "quick" else 200):
        n, m = rng.randint(1, 3), rng.randint(1, 3)
        sign = rng.choice([1, -1])
        yield {"kind": "overflow", "mode": rng.choice("gsl"), "gap": rng.choice([[-1], [-1, -1], [0], [-BIG]]),
               "a": [rng.randrange(2) for _ in range(n)], "b": [rng.randrange(2) for _ in range(m)],
               "w1": "u8", "w2": "u8", "alph2": "same", "max": 3,
               "M": [[sign * (BIG - rng.randint(0, 3)) for _ in range(2)] for _ in range(2)]}


def corpus():
    out = []
    base = {"kind": "opt", "w1": "u8", "w2": "u8", "alph2": "same", "rs": []}
    specs = [
        # ties everywhere, zero penalties
        ("g", [0], [0, 1, 2, 1], [1, 2, 0], [[2, -1, -3], [-1, 3, 0], [-2, 1, 1]], 50),
        ("g", [0, 0], [0, 1, 2, 1], [1, 2, 0], [[2, -1, -3], [-1, 3, 0], [-2, 1, 1]], 50),
        # open < ext and ext < open
        ("g", [-5, -1], [0, 0, 1, 1], [0, 1], [[1, -1], [-1, 1]], 10),
        ("g", [-1, -5], [0, 0, 1, 1], [0, 1], [[1, -1], [-1, 1]], 10),
        ("s", [-1, -5], [0, 0, 1, 1], [0, 1], [[1, -1], [-1, 1]], 10),
        # semi-global: abutting terminal gaps allowed for linear, not for affine
        ("s", [-2], [0], [1], [[-5, -5], [-5, -5]], 10),
        ("s", [-2, -2], [0], [1], [[-5, -5], [-5, -5]], 10),
        # local: nothing positive -> empty alignments, many start cells
        ("l", [-1], [0, 1], [1, 0], [[-1, -1], [-1, -1]], 3),
        ("l", [-1, -1], [0, 1], [1, 0], [[-1, -1], [-1, -1]], 3),
        ("l", [0], [0, 1, 1], [0, 1], [[1, 0], [0, 1]], 50),
        ("l", [0, 0], [0, 1, 1], [0, 1], [[1, 0], [0, 1]], 50),
        # max_number smaller than the number of co-optimal traces
        ("g", [0], [0, 0, 0], [0, 0, 0], [[0, 0], [0, 0]], 1),
        ("g", [0], [0, 0, 0], [0, 0, 0], [[0, 0], [0, 0]], 7),
        ("l", [0], [0, 0, 0], [0, 0, 0], [[0, 0], [0, 0]], 2),
        # empty sequences (linear)
        ("g", [-2], [], [0, 1], [[1, 0], [0, 1]], 5),
        ("s", [-2], [0, 1], [], [[1, 0], [0, 1]], 5),
        ("l", [-2], [], [], [[1, 0], [0, 1]], 5),
        ("l", [-2, -1], [], [0], [[1, 0], [0, 1]], 5),
    ]
    for mode, gap, a, b, Mx, mx in specs:
        c = dict(base, mode=mode, gap=gap, a=a, b=b, M=Mx, max=mx)
        c["ops"] = _ops(c)
        out.append(c)
    # C09 observation: affine + terminal_penalty=False, an interior gap run may not end at a free sequence end
    # (it would abut the other sequence's free terminal gaps): align_optimal reports the non-abutting optimum.
    # The rescore ops tie the public score of the abutting (excluded) alignments to the model.
    M3 = [[4, -3], [-3, 4], [-3, -3]]
    for a, b, trs in [([1, 2], [1, 0], [[[0, 0], [1, -1], [-1, 1]]]),
                      ([1, 2, 2], [1, 0, 1, 0, 0],
                       [[[-1, 0], [-1, 1], [0, 2], [1, -1], [2, -1], [-1, 3], [-1, 4]],
                        [[-1, 0], [-1, 1], [0, 2], [-1, 3], [-1, 4], [1, -1], [2, -1]]])]:
        for gap in ([-1, -1], [-1]):
            c = dict(base, mode="s", gap=gap, a=a, b=b, M=M3, max=50, alph2="chr",
                     rs=[{"tp": 0, "trace": t} for t in trs])
            c["ops"] = _ops(c)
            out.append(c)
    # code VALUES straddling the uint8 / uint16 boundary, linear and affine, all modes, first and second sequence
    M5 = [[3, -2, 0, 1, -1], [-2, 4, -1, 0, 2], [0, -1, 2, -3, 1], [1, 0, -3, 5, -2], [-1, 2, 1, -2, 3]]
    for w1, o1, w2, o2 in [("u16", 253, "u8", 0), ("u8", 0, "u16", 253), ("u16", 254, "u16", 255),
                           ("u32", 65533, "u8", 0), ("u8", 0, "u32", 65533), ("u64", 253, "u16", 256)]:
        for mode in "gsl":
            for gap in ([-2], [-3, -1]):
                c = dict(base, mode=mode, gap=gap, a=[0, 3, 4, 1, 2, 4], b=[3, 4, 0, 2, 4], w1=w1, w2=w2, off1=o1,
                         off2=o2, alph2="chr", M=M5, max=20,
                         rs=[{"tp": 0, "trace": [[0, -1], [1, 0], [2, 1], [3, 2], [4, 3], [-1, 4], [5, -1]]}])
                c["ops"] = _ops(c)
                out.append(c)
    # legal huge affine penalties: genuine partial scores below -2**30 (seeded C08-24: pseudo -inf hard-coded to int32.min // 2)
    for mode in "gs":
        c = dict(base, mode=mode, gap=[-100000000, -100000000], a=[0] * 13, b=[0], M=[[1, -1], [-1, 1]], max=5)
        c["ops"] = _ops(c)
        out.append(c)
    c = dict(base, mode="g", gap=[-150000000, -90000000], a=[1, 0], b=[0, 1, 1, 0, 1, 0, 0, 1, 1, 0, 1, 0], M=[[3, -2], [0, 2]], max=5)
    c["ops"] = _ops(c)
    out.append(c)
    # width / alphabet combinations on one fixed input
    for w1, w2 in [("u8", "u16"), ("u16", "u8"), ("u32", "u64"), ("u64", "u32"), ("u16", "u16"), ("u8", "u32"), ("u64", "u64")]:
        c = dict(base, mode="g", gap=[-2, -1], a=[0, 1, 2, 1, 0], b=[1, 2, 2, 0], w1=w1, w2=w2, alph2="chr",
                 M=[[2, -1, -3], [-1, 3, 0], [-2, 1, 1]], max=20,
                 rs=[{"tp": 0, "trace": [[0, -1], [1, 0], [2, 1], [3, 2], [-1, 3], [4, -1]]}])
        c["ops"] = _ops(c)
        out.append(c)
    return out


# ---------------------------------------------------------------- implementation adapter
@functools.lru_cache(maxsize=None)
def _alphabet(size, kind):
    import biotite.sequence as seq
    if kind == "chr":
        return seq.Alphabet([f"s{i}" for i in range(size)])
    if kind == "LET":       # single upper-case letters (needed for dict_from_str / NCBI format strings)
        return seq.Alphabet(list("ABCDEFGHIJKLMNOPQRSTUVWXYZ")[:size])
    if kind == "let":
        return seq.Alphabet(list("abcdefghijklmnopqrstuvwxyz")[:size])
    return seq.Alphabet(range(size))


def _matrix_from(form, al1, al2, big):
    """SubstitutionMatrix from the same numbers in different spellings (ndarray / dict / NCBI string / variants)."""
    import numpy as np
    import biotite.sequence.align as align
    if form in ("dict", "dict-same", "str", "str-same"):
        d = {(al1.decode(i), al2.decode(j)): int(big[i, j]) for i in range(len(al1)) for j in range(len(al2))}
        if form.startswith("str"):
            top = "   " + "  ".join(str(al2.decode(j)) for j in range(len(al2)))
            rows = [str(al1.decode(i)) + "  " + "  ".join(str(int(big[i, j])) for j in range(len(al2)))
                    for i in range(len(al1))]
            d2 = align.SubstitutionMatrix.dict_from_str("# generated\n" + top + "\n" + "\n".join(rows) + "\n")
            return align.SubstitutionMatrix(al1, al2, d2)
        return align.SubstitutionMatrix(al1, al2, d)
    if form == "i64":
        return align.SubstitutionMatrix(al1, al2, np.array(big, dtype=np.int64))
    if form == "i16":
        return align.SubstitutionMatrix(al1, al2, np.array(big, dtype=np.int16))
    if form == "fortran":
        return align.SubstitutionMatrix(al1, al2, np.asfortranarray(np.array(big, dtype=np.int32)))
    if form == "strided":
        wide = np.zeros((big.shape[0] * 2, big.shape[1] * 3), dtype=np.int64)
        wide[::2, ::3] = big
        return align.SubstitutionMatrix(al1, al2, wide[::2, ::3])
    if form == "readonly":
        arr = np.array(big, dtype=np.int32)
        arr.setflags(write=False)
        return align.SubstitutionMatrix(al1, al2, arr)
    return align.SubstitutionMatrix(al1, al2, big)


def _build(c):
    """(seq1, seq2, SubstitutionMatrix) for a case: alphabets sized for the requested code width."""
    import numpy as np
    import biotite.sequence as seq
    import biotite.sequence.align as align
    k1, k2 = len(c["M"]), len(c["M"][0])
    # code VALUES: the used symbols are the codes off .. off+k-1 of a large alphabet (e.g. 253..257 straddles the
    # uint8 boundary, 65533..65537 the uint16 boundary); the model sees the codes minus the offset and the k1 x k2 block
    o1, o2 = c.get("off1", 0), c.get("off2", 0)
    forced = c.get("force", False)
    s1 = k1 if forced else max(WIDTH_SIZE[c["w1"]] or k1, o1 + k1)
    s2 = k2 if forced else max(WIDTH_SIZE[c["w2"]] or k2, o2 + k2)
    form = c.get("mform", "array")
    if form.startswith("str"):          # NCBI strings need whitespace-free string symbols
        al1 = _alphabet(s1, "LET")
        al2 = al1 if (c["alph2"] == "same" and s1 == s2) else _alphabet(s2, "let")
    else:
        al1 = _alphabet(s1, "int")
        al2 = al1 if (c["alph2"] == "same" and s1 == s2) else _alphabet(s2, "chr")
    if c["alph2"] == "equal" and s1 == s2:   # an equal but distinct alphabet object
        import biotite.sequence as _seq
        al2 = _seq.Alphabet(al1.get_symbols())
    assert s1 * s2 <= 70000 * 8, "matrix too large"
    if s1 > k1 or s2 > k2:      # entries outside the used block must not matter: fill them with a varied pattern
        rr = np.arange(s1, dtype=np.int64)[:, None]
        cc = np.arange(s2, dtype=np.int64)[None, :]
        big = ((rr * 7 + cc * 13 + 3) % 11 - 5)
    else:
        big = np.zeros((s1, s2), dtype=np.int64)
    big[o1:o1 + k1, o2:o2 + k2] = np.array(c["M"], dtype=np.int64)
    if max(abs(x) for r in c["M"] for x in r) < 2**31:
        big = big.astype(np.int32)
    matrix = _matrix_from(form, al1, al2, big)
    seqs = []
    for codes, al, w, off in ((c["a"], al1, c["w1"], o1), (c["b"], al2, c["w2"], o2)):
        s = seq.GeneralSequence(al)
        codes = [x + off for x in codes]
        s.code = np.array(codes, dtype=np.int64)
        if w == "u64":           # alphabets > 2**32 symbols cannot be built: force the uint64 specialisation
            s._seq_code = np.array(codes, dtype=np.uint64)
        elif forced:             # small alphabet, wide code dtype: reaches every (CodeType1, CodeType2) pair
            s._seq_code = np.array(codes, dtype={"u8": np.uint8, "u16": np.uint16, "u32": np.uint32}[w])
        expect = {"u8": np.uint8, "u16": np.uint16, "u32": np.uint32, "u64": np.uint64}[w]
        assert s.code.dtype == expect, (s.code.dtype, w)
        seqs.append(s)
    return seqs[0], seqs[1], matrix


def _pygap(gap):
    return int(gap[0]) if len(gap) == 1 else (int(gap[0]), int(gap[1]))


def _align(c):
    import biotite.sequence.align as align
    s1, s2, matrix = _build(c)
    res = align.align_optimal(s1, s2, matrix, gap_penalty=_pygap(c["gap"]),
                              terminal_penalty=(c["mode"] != "s"), local=(c["mode"] == "l"),
                              max_number=c["max"])
    return s1, s2, matrix, res


def _args_call(gap, mx):
    """align_optimal on a fixed tiny input with the given gap penalty / max_number"""
    import numpy as np
    import biotite.sequence as seq
    import biotite.sequence.align as align
    al = _alphabet(3, "int")
    matrix = align.SubstitutionMatrix(al, al, np.array([[2, -1, 0], [-1, 3, 1], [0, 1, 1]]))
    s1, s2 = seq.GeneralSequence(al), seq.GeneralSequence(al)
    s1.code, s2.code = np.array([0, 1, 2, 1]), np.array([1, 2, 0])
    return align.align_optimal(s1, s2, matrix, gap_penalty=_pygap(gap), max_number=mx)


def _run_impl_inner(case):
    import numpy as np
    import biotite.sequence.align as align
    c = case
    out = []
    if c.get("kind") == "args":
        for gap, mx in c["calls"]:
            try:
                _args_call(gap, mx)
                out.append("ok")
            except Exception as e:  # noqa: BLE001
                out.append("ERR:" + type(e).__name__)
        return out, list(case["ops"])
    try:
        s1, s2, matrix, res = _align(c)
    except Exception as e:  # noqa: BLE001
        err = "ERR:" + type(e).__name__
        out = [err, err]
        res = None
        try:
            s1, s2, matrix = _build(c)
        except Exception:  # noqa: BLE001
            s1 = s2 = matrix = None
    if res is not None:
        scores = sorted({int(r.score) for r in res})
        sc = scores[0] if len(scores) == 1 else None
        out.append("ok " + (",".join(map(str, scores)) if scores else "none"))
        traces = [r.trace.tolist() for r in res]
        tr_s = "/".join(_trace_s(t) for t in traces) if traces else "-"
        # the chk op carries the actual output: rewrite it (the runner reads case["ops"] after run_impl)
        case["ops"][1] = f"chk {c['mode']} {_head(c)} {c['max']} {sc if sc is not None else 0} {tr_s}"
        n = len(res)
        out.append(f"ok n={n} valid={n} scored={n} sound={n} distinct=1 count=1 model=1")
    for r in c.get("rs", []):
        try:
            aln = align.Alignment([s1, s2], np.array(r["trace"], dtype=np.int64).reshape(-1, 2))
            v = align.score(aln, matrix, _pygap(c["gap"]), terminal_penalty=bool(r["tp"]))
            out.append(f"ok {int(v)}")
        except Exception as e:  # noqa: BLE001
            out.append("ERR:" + type(e).__name__)
    return out, list(case["ops"])


# ---------------------------------------------------------------- property oracle (independent of the Lean model)
def doc_score(rows, Mx, a, b, go, ge, tp):
    """The documented scoring model, written from the docs of align.score / align_optimal:
    substitution scores of aligned pairs + gap-open for the first gap of a run in a sequence + gap-ext for each
    further one; with tp=False gap columns before both sequences have started / after one has ended are free."""
    s = sum(Mx[a[i]][b[j]] for i, j in rows if i >= 0 and j >= 0)
    lo, hi = 0, len(rows)
    if not tp:
        pa = [k for k, (i, _) in enumerate(rows) if i >= 0]
        pb = [k for k, (_, j) in enumerate(rows) if j >= 0]
        if not pa or not pb:
            return s            # one sequence has no symbol: every gap is terminal
        lo, hi = max(pa[0], pb[0]), min(pa[-1], pb[-1]) + 1
    for side in (0, 1):
        run = False
        for k in range(lo, hi):
            if rows[k][side] < 0:
                s += ge if run else go
                run = True
            else:
                run = False
    return s


@functools.lru_cache(maxsize=64)
def _paths(n, m, no_abut):
    """all alignments (as tuples of trace rows, relative indices) of sequences of lengths n and m"""
    out = []

    def rec(i, j, acc, last):
        if i == n and j == m:
            out.append(tuple(acc))
            return
        if i < n and j < m:
            acc.append((i, j)); rec(i + 1, j + 1, acc, 0); acc.pop()
        if j < m and not (no_abut and last == 2):
            acc.append((-1, j)); rec(i, j + 1, acc, 1); acc.pop()
        if i < n and not (no_abut and last == 1):
            acc.append((i, -1)); rec(i + 1, j, acc, 2); acc.pop()
    rec(0, 0, [], 0)
    return out


def _delannoy(n, m):
    d = [[1] * (m + 1) for _ in range(n + 1)]
    for i in range(1, n + 1):
        for j in range(1, m + 1):
            d[i][j] = d[i - 1][j] + d[i][j - 1] + d[i - 1][j - 1]
    return d[n][m]


def brute_opt(mode, a, b, Mx, gap):
    """maximum over ALL alignments by enumeration (the property statement); None if too large."""
    affine = len(gap) == 2
    go, ge = (gap[0], gap[-1])
    n, m = len(a), len(b)
    if mode in "gs":
        if _delannoy(n, m) > 2500:
            return None
        return max(doc_score(p, Mx, a, b, go, ge, mode == "g") for p in _paths(n, m, affine))
    if max(n, m) > 4 or n * m > 16:
        return None
    best = 0    # the empty alignment
    for i0 in range(n + 1):
        for i1 in range(i0, n + 1):
            for j0 in range(m + 1):
                for j1 in range(j0, m + 1):
                    if i1 == i0 and j1 == j0:
                        continue
                    sa, sb = a[i0:i1], b[j0:j1]
                    for p in _paths(i1 - i0, j1 - j0, affine):
                        v = doc_score(p, Mx, sa, sb, go, ge, True)
                        if v > best:
                            best = v
    return best


def rec_opt(mode, a, b, Mx, gap):
    """independent memoised recursion over suffixes (used when enumeration is too large)"""
    affine = len(gap) == 2
    go, ge = gap[0], gap[-1]
    n, m = len(a), len(b)
    import sys
    sys.setrecursionlimit(10000)

    @functools.lru_cache(maxsize=None)
    def best(i, j, last):
        # best score of an alignment of a[i:], b[j:] given the previous column kind (0 both/none, 1 gapA, 2 gapB)
        if mode == "l":
            cands = [0]
        elif i == n and j == m:
            return 0
        else:
            cands = []
        if i < n and j < m:
            cands.append(Mx[a[i]][b[j]] + best(i + 1, j + 1, 0))
        if j < m and not (affine and last == 2):
            free = mode == "s" and (i == 0 or i == n)
            cands.append((0 if free else (ge if last == 1 else go)) + best(i, j + 1, 1))
        if i < n and not (affine and last == 1):
            free = mode == "s" and (j == 0 or j == m)
            cands.append((0 if free else (ge if last == 2 else go)) + best(i + 1, j, 2))
        return max(cands) if cands else -10**15      # dead end (abutting gaps forbidden)
    if mode == "l":
        return max(best(i, j, 0) for i in range(n + 1) for j in range(m + 1))
    return best(0, 0, 0)


def check_trace(mode, rows, n, m):
    """contiguous, order preserving, end-to-end unless local; returns an error string or None"""
    ia = [i for i, _ in rows if i != -1]
    jb = [j for _, j in rows if j != -1]
    for i, j in rows:
        if i == -1 and j == -1:
            return "column of two gaps"
        if i < -1 or j < -1 or i >= n or j >= m:
            return "index out of range"
    for xs, ln, nm in ((ia, n, "first"), (jb, m, "second")):
        if any(y != x + 1 for x, y in zip(xs, xs[1:])):
            return f"{nm} sequence not contiguous / ordered"
        if mode != "l" and xs != list(range(ln)):
            return f"{nm} sequence not end-to-end"
    return None


def _norm(res):
    """canonical form of an align_optimal result: (scores, sorted traces)"""
    return (sorted({int(r.score) for r in res}), sorted(tuple(map(tuple, r.trace.tolist())) for r in res))


def _oracle_stdmatrix(c):
    """sequences over the real protein / nucleotide alphabets with matrices loaded by name from the database; the
    truth is the dictionary parsed from the database file (independent of SubstitutionMatrix's own filling)"""
    import biotite.sequence as seq
    import biotite.sequence.align as align
    nuc = c["db"] in ("NUC", "std_nucleotide")
    cls = seq.NucleotideSequence if nuc else seq.ProteinSequence
    s1, s2 = cls(c["sa"]), cls(c["sb"])
    alph = seq.NucleotideSequence.alphabet_amb if nuc else seq.ProteinSequence.alphabet
    if c["db"] == "std_protein":
        matrix, name = align.SubstitutionMatrix.std_protein_matrix(), "BLOSUM62"
    elif c["db"] == "std_nucleotide":
        matrix, name = align.SubstitutionMatrix.std_nucleotide_matrix(), "NUC"
    else:
        name = c["db"]
        if name not in align.SubstitutionMatrix.list_db():
            return [("C08/matrix/list_db-misses-" + name, f"{name} not in list_db()")]
        matrix = align.SubstitutionMatrix(alph, alph, name)
    d = align.SubstitutionMatrix.dict_from_db(name)
    Mx = [[int(d[(alph.decode(i), alph.decode(j))]) for j in range(len(alph))] for i in range(len(alph))]
    import numpy as np
    v = []
    if not np.array_equal(matrix.score_matrix(), np.array(Mx)):
        v.append(("C08/matrix/score_matrix-differs-from-input/db", f"matrix {c['db']} differs from dict_from_db({name})"))
    a, b = [int(x) for x in s1.code], [int(x) for x in s2.code]
    gap, mode = c["gap"], c["mode"]
    tag = f"C08/{ {'g': 'global', 's': 'semiglobal', 'l': 'local'}[mode] }/{'linear' if len(gap) == 1 else 'affine'}"
    res = align.align_optimal(s1, s2, matrix, gap_penalty=_pygap(gap), terminal_penalty=(mode != "s"),
                              local=(mode == "l"), max_number=c["max"])
    if not res:
        return v + [(tag + "/no-alignment", f"empty result for {c}")]
    sc = int(res[0].score)
    best = brute_opt(mode, a, b, Mx, gap)
    if best is None:
        best = rec_opt(mode, a, b, Mx, gap)
    if best != sc:
        v.append((tag + "/not-optimal", f"reported {sc}, true optimum {best} under the database matrix {c}"))
    for r in res:
        t = [(int(i), int(j)) for i, j in r.trace.tolist()]
        why = check_trace(mode, t, len(a), len(b))
        if why:
            v.append((tag + "/invalid-trace", f"{t}: {why} {c}"))
        elif doc_score(t, Mx, a, b, gap[0], gap[-1], mode != "s") != sc or \
                int(align.score(r, matrix, _pygap(gap), terminal_penalty=(mode != "s"))) != sc:
            v.append((tag + "/rescore-mismatch", f"{t} does not score {sc} {c}"))
    return v


def _oracle_api(c):
    """less-used entry points and object-reuse / refused-call / spelling / default checks on one generated input"""
    import numpy as np
    import biotite.sequence as seq
    import biotite.sequence.align as align
    kind = c["kind"]
    a, b, Mx, gap, mode = c["a"], c["b"], c["M"], c["gap"], c["mode"]
    s1, s2, matrix = _build(c)
    kw = dict(gap_penalty=_pygap(gap), terminal_penalty=(mode != "s"), local=(mode == "l"), max_number=c["max"])
    v = []
    ctx = f" [a={a} b={b} M={Mx} gap={gap} mode={mode} max={c['max']} mform={c.get('mform')}]"
    if kind == "ungapped":
        n = min(len(a), len(b))
        t1, t2 = s1[:n], s2[:n]
        want = sum(Mx[x][y] for x, y in zip(a[:n], b[:n]))
        r = align.align_ungapped(t1, t2, matrix)
        if int(r.score) != want or r.trace.tolist() != [[i, i] for i in range(n)]:
            v.append(("C08/ungapped/score-or-trace", f"align_ungapped gives {r.score} {r.trace.tolist()}, want {want}" + ctx))
        if int(align.align_ungapped(t1, t2, matrix, score_only=True)) != want:
            v.append(("C08/ungapped/score_only", "score_only differs" + ctx))
        if int(align.score(r, matrix, -3)) != want:
            v.append(("C08/ungapped/rescore", "align.score of the ungapped alignment differs" + ctx))
        if len(a) != len(b):
            try:
                align.align_ungapped(s1, s2, matrix)
                v.append(("C08/ungapped/different-lengths-accepted", "no ValueError for different lengths" + ctx))
            except ValueError:
                pass
        return v
    base = _norm(align.align_optimal(s1, s2, matrix, **kw))
    if kind == "positional":
        pm, p1, p2 = matrix.as_positional(s1, s2)
        got = _norm(align.align_optimal(p1, p2, pm, **kw))
        if got != base:
            v.append(("C08/positional/result-differs", f"align_optimal on as_positional() gives {got[0]}, direct {base[0]}" + ctx))
        if not np.array_equal(pm.score_matrix(), np.array([[Mx[x][y] for y in b] for x in a]).reshape(len(a), len(b))):
            v.append(("C08/positional/matrix", "positional matrix is not M[a_i, b_j]" + ctx))
        return v
    if kind == "alnapi":
        res = align.align_optimal(s1, s2, matrix, **kw)
        for r in res[:3]:
            tr = r.trace
            codes = align.get_codes(r)
            want = np.array([[a[i] if i >= 0 else -1 for i in tr[:, 0]], [b[j] if j >= 0 else -1 for j in tr[:, 1]]],
                            dtype=np.int64).reshape(2, len(tr))
            if not np.array_equal(codes, want):
                v.append(("C08/alignment/get_codes", f"get_codes {codes.tolist()} want {want.tolist()}" + ctx))
            if len(r) != len(tr) or not (r == align.Alignment([s1, s2], tr.copy(), r.score)):
                v.append(("C08/alignment/len-or-eq", "len()/== of a returned alignment" + ctx))
            if len(a) and len(b) and len(tr):
                pa = [k for k in range(len(tr)) if tr[k, 0] != -1]
                pb = [k for k in range(len(tr)) if tr[k, 1] != -1]
                if pa and pb:
                    want_se = (max(pa[0], pb[0]), min(pa[-1], pb[-1]) + 1)
                    if tuple(align.find_terminal_gaps(r)) != want_se:
                        v.append(("C08/alignment/find_terminal_gaps", f"{align.find_terminal_gaps(r)} want {want_se}" + ctx))
                    if want_se[0] < want_se[1]:
                        cut = align.remove_terminal_gaps(r)
                        if cut.trace.tolist() != tr[want_se[0]:want_se[1]].tolist():
                            v.append(("C08/alignment/remove_terminal_gaps", "not the slice between the terminal gaps" + ctx))
            sub = r[1:] if len(tr) > 1 else r
            if sub.trace.tolist() != (tr[1:] if len(tr) > 1 else tr).tolist():
                v.append(("C08/alignment/getitem", "slicing a returned alignment" + ctx))
            # score() must not modify the alignment
            before = tr.copy()
            align.score(r, matrix, _pygap(gap), terminal_penalty=(mode != "s"))
            if not np.array_equal(before, r.trace):
                v.append(("C08/state/score-modified-trace", "align.score changed Alignment.trace" + ctx))
        return v
    # ---- kind == "reuse": state across calls, refused calls, spellings, defaults
    # the matrix must not alias the caller's array: int32 / int64 arrays and views of a larger buffer, written afterwards
    al1, al2 = matrix.get_alphabet1(), matrix.get_alphabet2()
    want_m = matrix.score_matrix().copy()
    for dt in (np.int32, np.int64, np.int16):
        for how in ("whole", "view", "transposed-view"):
            buf = np.zeros((want_m.shape[0] + 2, want_m.shape[1] + 3), dtype=dt)
            if how == "whole":
                arr = np.array(want_m, dtype=dt); owner = arr
            elif how == "view":
                buf[1:1 + want_m.shape[0], 2:2 + want_m.shape[1]] = want_m
                arr = buf[1:1 + want_m.shape[0], 2:2 + want_m.shape[1]]; owner = buf
            else:
                bt = np.zeros((want_m.shape[1], want_m.shape[0]), dtype=dt); bt[:, :] = want_m.T
                arr = bt.T; owner = bt
            m2 = align.SubstitutionMatrix(al1, al2, arr)
            r_before = _norm(align.align_optimal(s1, s2, m2, **kw))
            try:
                owner += 3
                owner[...] = owner[::-1]
            except ValueError:
                v.append(("C08/state/matrix-constructor-froze-the-callers-array", f"the caller's {dt.__name__} array ({how}) became read-only" + ctx))
                continue
            if not np.array_equal(m2.score_matrix(), want_m) or _norm(align.align_optimal(s1, s2, m2, **kw)) != r_before:
                v.append(("C08/state/matrix-aliases-callers-array",
                          f"writing to the caller's {dt.__name__} array ({how}) after construction changed the SubstitutionMatrix" + ctx))
    snap = (s1.code.copy(), s2.code.copy(), matrix.score_matrix().copy())

    def unchanged(what):
        if not (np.array_equal(snap[0], s1.code) and np.array_equal(snap[1], s2.code)
                and np.array_equal(snap[2], matrix.score_matrix())):
            v.append(("C08/state/" + what + "-changed-arguments", "sequence codes / matrix differ from their snapshot" + ctx))
    if _norm(align.align_optimal(s1, s2, matrix, **kw)) != base:
        v.append(("C08/state/second-call-differs", "same call on the same objects gives another result" + ctx))
    other = dict(kw, local=not kw["local"], gap_penalty=(-1 if isinstance(kw["gap_penalty"], tuple) else (-2, -1)),
                 max_number=1)
    align.align_optimal(s2, s1, matrix.transpose(), **other)
    align.align_optimal(s1, s2, matrix, **other)
    if _norm(align.align_optimal(s1, s2, matrix, **kw)) != base:
        v.append(("C08/state/call-after-other-settings-differs", "result depends on an earlier call" + ctx))
    unchanged("valid-call")
    bad_alph = seq.Alphabet(["q", "r"])
    bad_seq = seq.GeneralSequence(bad_alph, ["q"])
    for what, args, kws in [("positive-gap", (s1, s2, matrix), dict(kw, gap_penalty=1)),
                            ("positive-open", (s1, s2, matrix), dict(kw, gap_penalty=(1, -1))),
                            ("positive-ext", (s1, s2, matrix), dict(kw, gap_penalty=(-1, 1))),
                            ("float-gap", (s1, s2, matrix), dict(kw, gap_penalty=-1.5)),
                            ("max_number-0", (s1, s2, matrix), dict(kw, max_number=0)),
                            ("foreign-alphabet-1", (bad_seq, s2, matrix), kw),
                            ("foreign-alphabet-2", (s1, bad_seq, matrix), kw)]:
        try:
            align.align_optimal(*args, **kws)
            v.append(("C08/refused/" + what + "-accepted", "no exception" + ctx))
        except (ValueError, TypeError):
            pass
        unchanged("refused-call-" + what)
        if _norm(align.align_optimal(s1, s2, matrix, **kw)) != base:
            v.append(("C08/state/call-after-refused-" + what + "-differs", "valid call after a refused one differs" + ctx))
    # spellings of the same values: equal result, or a refusal (TypeError/ValueError) — never another answer
    g = kw["gap_penalty"]
    spell = []
    if isinstance(g, tuple):
        for T in (np.int64, np.int32, np.int16, np.int8):
            spell.append((f"gap-tuple-{T.__name__}", dict(kw, gap_penalty=(T(g[0]), T(g[1])))))
        spell.append(("gap-list", dict(kw, gap_penalty=[g[0], g[1]])))
    else:
        for T in (np.int64, np.int32, np.int8):
            spell.append((f"gap-{T.__name__}", dict(kw, gap_penalty=T(g))))
        spell.append(("gap-bool-like", dict(kw, gap_penalty=g + 0)))
    for T in (np.int64, np.uint8, np.int16):
        spell.append((f"max_number-{T.__name__}", dict(kw, max_number=T(kw["max_number"]))))
    spell.append(("flags-np.bool_", dict(kw, terminal_penalty=np.bool_(kw["terminal_penalty"]), local=np.bool_(kw["local"]))))
    spell.append(("flags-int", dict(kw, terminal_penalty=int(kw["terminal_penalty"]), local=int(kw["local"]))))
    # which refusals the documented contract allows for which spelling (gap_penalty: "int or (tuple, dtype=int)")
    allowed = {"gap-int64": TypeError, "gap-int32": TypeError, "gap-int8": TypeError, "gap-list": TypeError}
    finding = {"gap-tuple-int16": (OverflowError, "C08/spelling/gap-tuple-small-numpy-int/OverflowError"),
               "gap-tuple-int8": (OverflowError, "C08/spelling/gap-tuple-small-numpy-int/OverflowError")}
    for what, kws in spell:
        try:
            got = _norm(align.align_optimal(s1, s2, matrix, **kws))
        except Exception as e:  # noqa: BLE001
            if what in allowed and isinstance(e, allowed[what]):
                continue            # a documented refusal; another answer would not be fine
            if what in finding and isinstance(e, finding[what][0]):
                v.append((finding[what][1], f"{what}: {type(e).__name__}: {e}" + ctx))
                continue
            v.append(("C08/spelling/" + what + "/refused-" + type(e).__name__,
                      f"{what}: well-formed arguments refused with {type(e).__name__}: {e}" + ctx))
            continue
        if got != base:
            v.append(("C08/spelling/" + what, f"{what}: result {got[0]} differs from the plain spelling {base[0]}" + ctx))
    # sequence codes as strided / non-owning arrays of the right dtype
    for what, mk in [("strided-code", lambda x: np.repeat(x, 2)[::2]),
                     ("reversed-view-code", lambda x: x[::-1][::-1]),
                     ("readonly-code", lambda x: (lambda y: (y.setflags(write=False), y)[1])(x.copy()))]:
        t1, t2 = s1.copy(), s2.copy()
        t1._seq_code, t2._seq_code = mk(s1.code), mk(s2.code)
        try:
            got = _norm(align.align_optimal(t1, t2, matrix, **kw))
        except Exception as e:  # noqa: BLE001
            if what == "readonly-code" and isinstance(e, ValueError):
                v.append(("C08/spelling/readonly-code/ValueError", f"read-only Sequence.code refused: {e}" + ctx))
            else:
                v.append(("C08/spelling/" + what + "/refused-" + type(e).__name__,
                          f"{what}: refused with {type(e).__name__}: {e}" + ctx))
            continue
        if got != base:
            v.append(("C08/spelling/" + what, f"{what}: result {got[0]} differs from {base[0]}" + ctx))
    # score(): spellings and defaults
    res = align.align_optimal(s1, s2, matrix, **kw)
    r = res[0]
    tp = kw["terminal_penalty"]
    plain = int(align.score(r, matrix, g, terminal_penalty=tp))
    alts = [("score-gap-np", (np.int64(g[0]), np.int32(g[1])) if isinstance(g, tuple) else np.int16(g), tp),
            ("score-gap-float", (float(g[0]), float(g[1])) if isinstance(g, tuple) else float(g), tp),
            ("score-gap-list", [g[0], g[1]] if isinstance(g, tuple) else g, tp),
            ("score-tp-np.bool_", g, np.bool_(tp)), ("score-tp-int", g, int(tp))]
    for what, gg, tt in alts:
        try:
            got = align.score(r, matrix, gg, terminal_penalty=tt)
        except Exception as e:  # noqa: BLE001
            v.append(("C08/spelling/" + what + "/refused-" + type(e).__name__, f"align.score refused {what}: {e}" + ctx))
            continue
        if got != plain:
            v.append(("C08/spelling/" + what, f"align.score gives {got}, plain spelling {plain}" + ctx))
    if int(align.score(r, matrix)) != int(align.score(r, matrix, -10, True)):
        v.append(("C08/defaults/score", "score() defaults are not gap_penalty=-10, terminal_penalty=True" + ctx))
    d1 = _norm(align.align_optimal(s1, s2, matrix))
    d2 = _norm(align.align_optimal(s1, s2, matrix, gap_penalty=-10, terminal_penalty=True, local=False, max_number=1000))
    want_default = brute_opt("g", a, b, Mx, [-10])
    if want_default is None:
        want_default = rec_opt("g", a, b, Mx, [-10])
    if d1 != d2 or d1[0] != [want_default]:
        v.append(("C08/defaults/align_optimal", f"defaults give {d1[0]}, explicit {d2[0]}, optimum with gap -10 global: {want_default}" + ctx))
    for name, kws in [("positional-args", None)]:
        got = _norm(align.align_optimal(s1, s2, matrix, kw["gap_penalty"], kw["terminal_penalty"], kw["local"], kw["max_number"]))
        if got != base:
            v.append(("C08/defaults/positional-argument-order", "positional arguments bind differently" + ctx))
    return v


def _oracle_args(c):
    """argument refusals of align_optimal: demanded exactly where the documented contract has them"""
    v = []
    a, b, Mx = [0, 1, 2, 1], [1, 2, 0], [[2, -1, 0], [-1, 3, 1], [0, 1, 1]]
    for gap, mx in c["calls"]:
        desc = f"gap_penalty={_pygap(gap)} max_number={mx}"
        try:
            res = _args_call(gap, mx)
            exc = None
        except Exception as e:  # noqa: BLE001
            res, exc = None, e
        if any(x > 0 for x in gap):
            if not isinstance(exc, ValueError):
                v.append(("C08/refused/positive-gap-accepted", f"{desc}: expected ValueError, got {exc!r}"))
        elif mx < 1:
            if not isinstance(exc, ValueError):
                v.append(("C08/refused/max_number-below-1-accepted", f"{desc}: expected ValueError, got {exc!r}"))
        elif any(x < -2**31 for x in gap):
            if exc is None:     # the penalty does not fit the int32 tables: it cannot be honoured
                v.append(("C08/refused/gap-beyond-int32-accepted", f"{desc}: accepted"))
        elif mx >= 2**31:
            if isinstance(exc, OverflowError):
                v.append(("C08/max_number/at-least-2**31/OverflowError", f"{desc}: {exc} (all max_number >= 1 are in the property)"))
            elif exc is not None:
                v.append(("C08/max_number/large-refused-" + type(exc).__name__, f"{desc}: {exc!r}"))
        elif exc is not None and all(x > -2**30 for x in gap):
            v.append(("C08/refused/valid-arguments-" + type(exc).__name__, f"{desc}: valid arguments refused: {exc!r}"))
        if exc is None and all(-1000 < x <= 0 for x in gap) and mx >= 1:
            want = brute_opt("g", a, b, Mx, gap)
            if not res or int(res[0].score) != want or len(res) > mx:
                v.append(("C08/global/args/not-optimal", f"{desc}: reported {res and res[0].score}, optimum {want}, n={len(res or [])}"))
    return v


def _oracle_score_odd(c):
    """public score() on a trace with columns of two gaps (legal in an Alignment): the documented model applies"""
    import numpy as np
    import biotite.sequence.align as align
    s1, s2, matrix = _build(c)
    tr = [tuple(r) for r in c["trace"]]
    gap = c["gap"]
    want = doc_score(tr, c["M"], c["a"], c["b"], gap[0], gap[-1], bool(c["tp"]))
    try:
        got = align.score(align.Alignment([s1, s2], np.array(c["trace"], dtype=np.int64).reshape(-1, 2)), matrix,
                          _pygap(gap), terminal_penalty=bool(c["tp"]))
    except Exception as e:  # noqa: BLE001
        return [("C08/score/double-gap-column-raises-" + type(e).__name__, f"score() raised {e!r} for {tr}")]
    if int(got) != want:
        return [("C08/score/double-gap-column-mismatch",
                 f"score() = {got}, documented model {want} for {tr} a={c['a']} b={c['b']} M={c['M']} gap={gap} tp={c['tp']}")]
    return []


def _oracle_alphafit(c):
    """a sequence alphabet fits the matrix alphabet only if it is a PREFIX of it (codes keep their meaning); a run from
    the middle must be refused, never aligned with shifted codes"""
    import numpy as np
    import biotite.sequence as seq
    import biotite.sequence.align as align
    size, lo, hi = c["size"], c["lo"], c["hi"]
    letters = list("ACGTNRYWKM")[:size]
    mk = (lambda syms: seq.LetterAlphabet(syms)) if c["letter"] else (lambda syms: seq.Alphabet(syms))
    full, part = mk(letters), mk(letters[lo:hi])
    matrix = align.SubstitutionMatrix(full, full, np.array(c["M"], dtype=np.int64))
    def mkseq(al, codes):
        t = seq.GeneralSequence(al)
        t.code = np.array(codes, dtype=np.int64)
        return t
    sa, sb = c["sa"], c["sb"]
    # the same symbols written over the full alphabet
    fa, fb = mkseq(full, [x + lo for x in sa]), mkseq(full, [x + lo for x in sb])
    pa, pb = (mkseq(part, sa), fb) if c["which"] == 1 else (fa, mkseq(part, sb))
    kw = dict(gap_penalty=_pygap(c["gap"]), terminal_penalty=(c["mode"] != "s"), local=(c["mode"] == "l"), max_number=c["max"])
    ref = _norm(align.align_optimal(fa, fb, matrix, **kw))
    desc = f" [{'Letter' if c['letter'] else ''}Alphabet {letters[lo:hi]} against a matrix over {letters}, sequence {c['which']}, codes {sa}/{sb}, M={c['M']}, gap={c['gap']}, mode={c['mode']}]"
    try:
        got = _norm(align.align_optimal(pa, pb, matrix, **kw))
    except ValueError:
        got = None
    if lo == 0:
        if got is None:
            return [("C08/refused/prefix-alphabet-refused", "an alphabet that is a prefix of the matrix alphabet was refused" + desc)]
        if got != ref:
            return [("C08/alphabet/prefix-alphabet-result-differs", f"result {got[0]} differs from the full-alphabet result {ref[0]}" + desc)]
    elif got is not None:
        return [("C08/refused/shifted-alphabet-accepted",
                 f"accepted (score {got[0]}; with the symbols read correctly it is {ref[0]}): the codes no longer mean the same symbols" + desc)]
    return []


def _oracle_inner(case):
    c = case
    if c.get("kind") == "alphafit":
        return _oracle_alphafit(c)
    if c.get("kind") == "args":
        return _oracle_args(c)
    if c.get("kind") == "score-odd":
        return _oracle_score_odd(c)
    if c.get("kind") == "stdmatrix":
        return _oracle_stdmatrix(c)
    if c.get("kind") in ("reuse", "positional", "ungapped", "alnapi"):
        return _oracle_api(c)
    if c.get("kind") not in ("opt", "grid", "overflow"):
        return []
    a, b, Mx, gap, mode = c["a"], c["b"], c["M"], c["gap"], c["mode"]
    gk = "linear" if len(gap) == 1 else "affine"
    tag = f"C08/{ {'g': 'global', 's': 'semiglobal', 'l': 'local'}[mode] }/{gk}"
    v = []
    overflow = c.get("kind") == "overflow"
    try:
        s1, s2, matrix, res = _align(c)
    except Exception as e:  # noqa: BLE001
        if (not a or not b) and gk == "affine" and mode != "l" and isinstance(e, IndexError):
            return [("C08/affine/empty-sequence/IndexError", f"align_optimal raises IndexError for a={a} b={b} gap={gap}")]
        return [(tag + "/raises-" + type(e).__name__, f"align_optimal raised {type(e).__name__}: {e} on {a} {b} {gap}")]
    if not res:
        return [(tag + "/no-alignment", f"empty result list for a={a} b={b}")]
    if not overflow:
        v += _matrix_checks(c, matrix)
    scores = {int(r.score) for r in res}
    if len(scores) != 1:
        v.append((tag + "/scores-differ", f"returned alignments carry different scores {sorted(scores)}"))
    sc = int(res[0].score)
    key_ovf = "C08/overflow/int32-table-wraps"
    go, ge = gap[0], gap[-1]
    traces = [[(int(i), int(j)) for i, j in r.trace.tolist()] for r in res]
    import biotite.sequence.align as align
    for t in traces:
        why = check_trace(mode, t, len(a), len(b))
        if why:
            v.append((key_ovf if overflow else tag + "/invalid-trace", f"trace {t} of a={a} b={b}: {why}"))
            continue
        mine = doc_score(t, Mx, a, b, go, ge, mode != "s")
        if mine != sc:
            v.append((key_ovf if overflow else tag + "/rescore-mismatch",
                      f"reported {sc} but the documented scoring model gives {mine} for {t} (a={a} b={b} M={Mx} gap={gap})"))
        if overflow:
            continue
        try:
            pub = int(align.score(align.Alignment([s1, s2], res[traces.index(t)].trace), matrix, _pygap(gap),
                                  terminal_penalty=(mode != "s")))
            if pub != sc:
                v.append((tag + "/public-score-mismatch", f"align.score gives {pub}, reported {sc} for {t}"))
        except Exception as e:  # noqa: BLE001
            if not a or not b:
                v.append(("C08/score/empty-sequence/" + type(e).__name__,
                          f"align.score raises {type(e).__name__} on the returned alignment of a={a} b={b}"))
            else:
                v.append((tag + "/public-score-raises", f"align.score raised {type(e).__name__}: {e} for {t}"))
    ne = [tuple(t) for t in traces if t]
    if len(set(ne)) != len(ne):
        v.append((tag + "/duplicate-traces", f"non-empty traces not pairwise distinct: a={a} b={b} M={Mx} gap={gap} max={c['max']}"))
    if len(res) > c["max"]:
        v.append((tag + "/more-than-max_number", f"{len(res)} alignments for max_number={c['max']}"))
    best = brute_opt(mode, a, b, Mx, gap)
    if best is None:
        best = rec_opt(mode, a, b, Mx, gap)
    if best != sc:
        v.append((key_ovf if overflow else tag + "/not-optimal",
                  f"reported score {sc}, true optimum {best} (a={a} b={b} M={Mx} gap={gap} mode={mode})"))
    if c.get("off1") or c.get("off2"):
        ctx = f" [real codes = model codes + {c.get('off1', 0)} / + {c.get('off2', 0)}, widths {c['w1']}/{c['w2']}]"
        v = [(k, msg + ctx) for k, msg in v]
    # de-duplicate keys; in the int32-bound stream every symptom is the one overflow finding
    seen, out = set(), []
    for k, msg in v:
        if overflow:
            k = key_ovf
        if k not in seen:
            seen.add(k)
            out.append((k, msg))
    return out


def _matrix_checks(c, matrix):
    """the SubstitutionMatrix built from the case's numbers (any spelling) must carry exactly these numbers"""
    import numpy as np
    import biotite.sequence.align as align
    v = []
    k1, k2 = len(c["M"]), len(c["M"][0])
    o1, o2 = c.get("off1", 0), c.get("off2", 0)
    form = c.get("mform", "array")
    want = np.array(c["M"], dtype=np.int64)
    sm = matrix.score_matrix()
    ctx = f"(matrix given as {form}, alph2={c['alph2']}, M={c['M']})"
    if not np.array_equal(sm[o1:o1 + k1, o2:o2 + k2], want):
        v.append((f"C08/matrix/score_matrix-differs-from-input/{form}",
                  f"score_matrix() block {sm[o1:o1 + k1, o2:o2 + k2].tolist()} {ctx}"))
    if sm.dtype != np.int32 or sm.flags.writeable:
        v.append(("C08/matrix/score_matrix-dtype-or-writeable", f"dtype {sm.dtype} writeable {sm.flags.writeable} {ctx}"))
    if tuple(matrix.shape) != (len(matrix.get_alphabet1()), len(matrix.get_alphabet2())):
        v.append(("C08/matrix/shape", f"shape = {matrix.shape} {ctx}"))
    al1, al2 = matrix.get_alphabet1(), matrix.get_alphabet2()
    for i, j in ((0, k2 - 1), (k1 - 1, 0), (k1 // 2, k2 // 2)):
        g1 = int(matrix.get_score_by_code(o1 + i, o2 + j))
        g2 = int(matrix.get_score(al1.decode(o1 + i), al2.decode(o2 + j)))
        if g1 != c["M"][i][j] or g2 != c["M"][i][j]:
            v.append((f"C08/matrix/get_score-differs-from-input/{form}",
                      f"get_score_by_code={g1} get_score={g2} want {c['M'][i][j]} at ({i},{j}) {ctx}"))
    if len(al1) * len(al2) <= 4000:
        t = matrix.transpose()
        if not np.array_equal(t.score_matrix(), sm.T) or t.get_alphabet1() != al2 or t.get_alphabet2() != al1:
            v.append(("C08/matrix/transpose", f"transpose() is not the transposed matrix {ctx}"))
        sym = (al1 == al2) and np.array_equal(sm, sm.T)
        if bool(matrix.is_symmetric()) != bool(sym):
            v.append(("C08/matrix/is_symmetric", f"is_symmetric() = {matrix.is_symmetric()}, matrix symmetric: {sym} {ctx}"))
        fresh = align.SubstitutionMatrix(al1, al2, np.array(sm, dtype=np.int64))
        if not (matrix == fresh) or (matrix != fresh):
            v.append(("C08/matrix/eq", f"matrix != matrix rebuilt from its own score_matrix() {ctx}"))
    return v


_WARM = []


def _prewarm():
    """import biotite and fill the caches in the parent so that the forked children inherit them"""
    if _WARM:
        return
    import biotite.sequence.align  # noqa: F401
    for size in (300, 70000):
        for kind in ("int", "chr"):
            _alphabet(size, kind)
    for n in range(6):
        for m in range(6):
            if _delannoy(n, m) <= 2500:
                _paths(n, m, True)
                _paths(n, m, False)
    _WARM.append(1)


def run_impl(case):
    """the real code runs in a forked child: a dead process or a hang is a verdict (CRASH line), never a dead check"""
    from common import sandbox
    _prewarm()
    r = sandbox.run_forked(_run_impl_inner, case, timeout=120)
    if r[0] == "ok":
        out, ops = r[1]
        case["ops"][:] = ops
        case["_impl_ok"] = True      # the same calls survived in a child: the oracle may run them in-process
        return out
    if r[0] == "err":
        return [f"UNCAUGHT:{r[1]}"] * len(case["ops"])
    return ["CRASH" if r[0] == "crash" else "HANG"] * len(case["ops"])


def oracle(case):
    from common import sandbox
    _prewarm()
    if case.get("_impl_ok"):
        try:
            r = ("ok", _oracle_inner(case))
        except Exception as e:  # noqa: BLE001
            r = ("err", type(e).__name__, str(e)[:300])
    else:
        r = sandbox.run_forked(_oracle_inner, case, timeout=120)
    desc = {k: case.get(k) for k in ("kind", "mode", "gap", "a", "b", "M", "max", "mform", "w1", "w2", "db", "sa", "sb")}
    if r[0] == "ok":
        return r[1]
    if r[0] == "err":
        return [(f"C08/unexpected-exception/{case.get('kind')}/{r[1]}", f"{r[1]}: {r[2]} on {desc}")]
    if r[0] == "crash":
        return [(f"C08/crash/signal-{r[1]}", f"the process died (signal {r[1]}) on {desc}")]
    return [("C08/hang", f"no answer within 120 s on {desc}")]


def nontrivial(case, impl_out):
    if case.get("kind") in ("stdmatrix", "args", "alphafit"):
        return True
    if case.get("kind") == "overflow":
        return False
    Mx = case["M"]
    return bool(case["a"]) and bool(case["b"]) and len({x for r in Mx for x in r}) > 1


def signature(case):
    if case.get("kind") == "args":
        return "args|" + str(case["calls"])
    if case.get("kind") == "alphafit":
        return "alphafit|" + str([case[k] for k in ("size", "lo", "hi", "letter", "which", "gap", "mode", "M", "sa", "sb")])
    if case.get("kind") == "stdmatrix":
        return f"std|{case['db']}|{case['mode']}|{case['gap']}|{case['sa']}|{case['sb']}"
    return f"{case.get('kind')}|{case.get('mform')}|{case['mode']}|{case['gap']}|{case['a']}|{case['b']}|{case['M']}|{case['max']}"


def distribution(cases, impl_outs):
    d = {"kind": {}, "matrix_form": {}, "mode": {}, "gap": {}, "widths": {}, "code_values": {}, "n_traces": {}, "len": {}, "alph2": {}, "errors": {}}

    def inc(k, x):
        d[k][x] = d[k].get(x, 0) + 1
    for c, o in zip(cases, impl_outs):
        inc("kind", c.get("kind", "?"))
        inc("matrix_form", c.get("mform", c.get("db", "array")))
        if c.get("kind") in ("stdmatrix", "args", "alphafit"):
            continue
        inc("mode", c["mode"])
        inc("gap", "linear" if len(c["gap"]) == 1 else ("affine open<ext" if c["gap"][0] < c["gap"][1] else "affine"))
        inc("widths", c["w1"] + "/" + c["w2"])
        inc("code_values", ">=65536" if max(c.get("off1", 0), c.get("off2", 0)) >= 65530 else
            ">=256" if max(c.get("off1", 0), c.get("off2", 0)) >= 250 else "<256")
        inc("alph2", c["alph2"])
        ln = max(len(c["a"]), len(c["b"]))
        inc("len", "0" if min(len(c["a"]), len(c["b"])) == 0 else "1-3" if ln <= 3 else "4-7" if ln <= 7 else "8+")
        if o and len(o) > 1:
            m = re.match(r"ok n=(\d+)", o[1])
            if m:
                n = int(m.group(1))
                inc("n_traces", "1" if n == 1 else "2-5" if n <= 5 else "6+" if n < c["max"] else "=max_number")
            elif o[1].startswith("ERR"):
                inc("errors", o[1])
    return d


def search(rng, problems, tier):
    """Failing-input search: small shapes first (exhaustive enumeration applies), then the generator again."""
    for _ in range(1500 if tier == "quick" else 6000):
        c = _case(rng, 4, allow_empty=False)
        c["rs"] = []
        yield c
    for _ in range(500):
        yield _case(rng, 7)


def shrink(case, key):
    """drop symbols from either sequence while the same finding key persists"""
    cur = dict(case)
    changed = True
    while changed:
        changed = False
        for which in ("a", "b"):
            xs = cur[which]
            for k in range(len(xs)):
                cand = dict(cur, **{which: xs[:k] + xs[k + 1:]}, rs=[])
                if "ops" in cand:
                    cand["ops"] = _ops(cand)
                try:
                    if any(k2 == key for k2, _ in oracle(cand)):
                        cur = cand
                        changed = True
                        break
                except Exception:  # noqa: BLE001
                    pass
            if changed:
                break
    return cur

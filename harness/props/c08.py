"""C08 — optimal pairwise alignment returns the true optimum.

Ops (see lean/BiotiteModel/Driver/C08.lean for the grammar):
  opt     <mode> <gap> <a> <b> <k2> <matrix>                              -> ok <score> | ERR:<Exc>
  chk     <mode> <gap> <a> <b> <k2> <matrix> <max_number> <score> <traces> -> ok n=.. valid=.. scored=.. sound=.. distinct=.. count=..
  rescore <tp> <gap> <a> <b> <k2> <matrix> <trace>                        -> ok <score> | ERR:<Exc>

The `chk` line carries the ACTUAL output of align_optimal (every returned trace): `run_impl` rewrites it in
place before the runner hands the ops to the Lean driver, where the verified checker
(`checkAlignment`, Props/C08.lean `C08_checker_sound_*`) examines each trace.  The canonical form never says
which co-optimal trace came first: (score, n_traces, #valid, #rescored==score, #sound, distinct, count<=max).
"""
import functools
import os
import re

PROP = "C08"
PROPS_MODULE = "BiotiteModel.Props.C08"
DRIVER_MODULE = "BiotiteModel.Driver.C08"
EXT_MODULES = ["biotite.sequence.align.pairwise", "biotite.sequence.align.tracetable"]
GEN_FILES = ["BiotiteModel/Gen/C08.lean"]
RULE = ("seeded sequence pairs (length 0-7, quick; up to 12 thorough) over alphabets of 2-5 used symbols (as offset blocks of large alphabets: code VALUES straddle 255/256 and 65535/65536, first and second sequence), code widths "
        "uint8/16/32/64 and two different alphabets, int matrices in [-6,6] (any sign, asymmetric, match/mismatch, "
        "constant), linear gaps 0..-5 and affine (open, ext) incl. open<ext and zeros, global / semi-global / local, "
        "max_number 1..50.  align_optimal's score and every returned trace go through the Lean model (optimum from "
        "the table model, verified checker on each trace, model of the trace count, for linear global/semi-global "
        "membership of every real trace in the traceback model followLin) and random valid alignments "
        "are rescored by align.score() vs the model's scorePub.  Oracle: exhaustive enumeration of all alignments "
        "(small shapes) or an independent memoised recursion.  non-trivial = both sequences non-empty and the "
        "matrix is not constant; distinct = different (mode, gap, a, b, matrix, max_number)")
TRUSTED = ["numpy np.max/np.where/np.unique/np.flip in align_optimal's Python part modelled by their documented semantics",
           "Alignment.trace rows are handed to the Lean checker as printed integers"]
ASSUMPTIONS = ["NoOverflow: every table entry fits int32 (|matrix|,|gap| <= 6 and length <= 12 in the valid stream); "
               "the int32-bound stream is oracle-only and a known finding",
               "the pseudo -inf of the affine tables is modelled as `none`"]
TECHNIQUE = ("Lean 4 proof (induction over alignment columns against a two-dimensional recurrence; refinement of the "
             "row-by-row table to the recurrence) + verified checker run on every actual output + correspondence")
LEVEL_TEXT = ("proof, for every matrix / sequence pair, no length bound (48 theorems).  HEADLINE, one statement per gap kind, "
              "about the model of align_optimal (alignOptimalModel: table fill + reported score + start selection + "
              "traceback + [:max_number]): C08_align_optimal_lin (g <= 0, all three modes): the reported score is the "
              "maximum of the public align.score() over all valid alignments of the mode (upper bound + attained), every "
              "returned alignment is valid and scores it, non-empty results are pairwise distinct, at most max_number are "
              "returned and at least one is; C08_align_optimal_aff (open, ext <= 0 incl. open<ext and zeros, all three "
              "modes): the same over valid alignments in which a gap in one sequence never directly abuts a gap in the "
              "other (a FREE terminal gap counts as a gap: C08_noabut_covers_free_terminal_gaps), except non-emptiness. "
              "Components: C08_upper/attained_pub_lin/_aff, C08_scorePub_semi[_aff] (terminal_penalty=False slice = "
              "positional form), C08_table_lin/_aff (+ prefix forms), C08_reported_lin/_aff, checker soundness "
              "C08_checker_sound_lin/_aff (run on every actual output), traceback C08_traces_valid / _valid_aff / "
              "_local / _local_aff, distinctness C08_traces_distinct / _distinct_aff (the state of a node is the kind "
              "of the column entering it, so different state paths spell different columns), counts, lookup = "
              "recurrence C08_traces_lookup / _lookup_aff.  Tie to the code: reported score, number of traces and "
              "membership of every real trace in alignOptimalModel's list on every case.  PARTIAL: non-emptiness of "
              "the affine result list is not a theorem; int32 = Z under NoOverflow and pseudo -inf = none are "
              "assumptions of the correspondence (known finding at the int32 bound)")
LEVEL_NOTE = ("trusted: Lean kernel, line-protocol driver, generators; int32 arithmetic modelled as Z under NoOverflow "
              "(pseudo -inf of the affine tables = none); the traceback theorems are about followLin over Rec.val, the "
              "driver runs followLin over a lookup into the table proved equal to Rec.val (C08_table_lin)")

WIDTH_SIZE = {"u8": None, "u16": 300, "u32": 70000, "u64": None}
BIG = 2**31 - 2


# ---------------------------------------------------------------- translator (Gen)
def gen_lean():
    from common import paths
    src = open(os.path.join(paths.SRC, "biotite/sequence/align/tracetable.pxd")).read()

    def enum(name):
        m = re.search(r"cdef enum " + name + r":(.*?)(?=\n\S|\Z)", src, re.S)
        if not m:
            raise ValueError(f"enum {name} not found in tracetable.pxd")
        items = re.findall(r"^\s+([A-Z_0-9]+)\s*=\s*(\d+)", m.group(1), re.M)
        if not items:
            raise ValueError(f"enum {name} has no members")
        return items
    lin, aff, st = enum("TraceDirectionLinear"), enum("TraceDirectionAffine"), enum("TraceState")
    pyx = open(os.path.join(paths.SRC, "biotite/sequence/align/pairwise.pyx")).read()
    m = re.search(r"trace_table = np\.zeros\(\( len\(seq1\)\+1, len\(seq2\)\+1 \), dtype=np\.(\w+)\)", pyx)
    if not m:
        raise ValueError("trace_table allocation not found in pairwise.pyx")
    bits = {"uint8": 8, "uint16": 16, "uint32": 32, "uint64": 64}.get(m.group(1))
    if bits is None:
        raise ValueError("unexpected trace_table dtype " + m.group(1))

    def lst(items):
        return "[" + ", ".join(f'("{n}", {v})' for n, v in items) + "]"
    body = ["/- REGENERATED on every run by harness/props/c08.py from sequence/align/tracetable.pxd and pairwise.pyx. Do not edit. -/",
            "namespace BiotiteModel.Gen.C08",
            "/-- `TraceDirectionLinear` members: (name, bit value). -/",
            "def traceLinear : List (String × Nat) := " + lst(lin),
            "/-- `TraceDirectionAffine` members. -/",
            "def traceAffine : List (String × Nat) := " + lst(aff),
            "/-- `TraceState` members. -/",
            "def traceState : List (String × Nat) := " + lst(st),
            "/-- bit width of the `trace_table` dtype in `align_optimal`. -/",
            f"def traceTableBits : Nat := {bits}",
            "end BiotiteModel.Gen.C08", ""]
    return {"BiotiteModel/Gen/C08.lean": "\n".join(body)}


# ---------------------------------------------------------------- protocol helpers
def _ints(xs):
    return ",".join(str(int(x)) for x in xs) if len(xs) else "_"


def _gap_s(gap):
    return f"L:{gap[0]}" if len(gap) == 1 else f"A:{gap[0]}:{gap[1]}"


def _trace_s(rows):
    return ";".join(f"{int(i)}:{int(j)}" for i, j in rows) if len(rows) else "_"


def _head(c):
    flat = [x for row in c["M"] for x in row]
    return f"{_gap_s(c['gap'])} {_ints(c['a'])} {_ints(c['b'])} {len(c['M'][0])} {_ints(flat)}"


def _ops(c):
    ops = [f"opt {c['mode']} {_head(c)}", f"chk {c['mode']} {_head(c)} {c['max']} 0 -"]
    for r in c.get("rs", []):
        ops.append(f"rescore {r['tp']} {_head(c)} {_trace_s(r['trace'])}")
    return ops


# ---------------------------------------------------------------- generator
def _matrix(rng, k1, k2):
    style = rng.random()
    if style < 0.45:
        return [[rng.randint(-6, 6) for _ in range(k2)] for _ in range(k1)]
    if style < 0.6:   # match / mismatch
        mt, mm = rng.randint(0, 5), rng.randint(-5, 0)
        return [[mt if i == j else mm for j in range(k2)] for i in range(k1)]
    if style < 0.7:   # all negative
        return [[rng.randint(-6, -1) for _ in range(k2)] for _ in range(k1)]
    if style < 0.8:   # non-negative
        return [[rng.randint(0, 4) for _ in range(k2)] for _ in range(k1)]
    if style < 0.88:  # few distinct values: many ties
        vals = [rng.randint(-2, 2), rng.randint(-2, 2)]
        return [[rng.choice(vals) for _ in range(k2)] for _ in range(k1)]
    if style < 0.93:  # constant
        v = rng.randint(-2, 2)
        return [[v] * k2 for _ in range(k1)]
    # symmetric-looking but asymmetric in one entry
    base = [[0] * k2 for _ in range(k1)]
    for i in range(k1):
        for j in range(k2):
            base[i][j] = base[j][i] if (j < i and j < k1 and i < k2) else rng.randint(-4, 4)
    base[rng.randrange(k1)][rng.randrange(k2)] += rng.choice([-3, 3])
    return base


def _gap(rng):
    r = rng.random()
    if r < 0.45:
        return [rng.choice([0, 0, -1, -1, -2, -3, -4, -5])]
    return [rng.choice([0, -1, -2, -3, -5]), rng.choice([0, -1, -1, -2, -3, -5])]


def _random_path(rng, n, m, i0=0, j0=0):
    """a random alignment of a[i0:n] with b[j0:m] as trace rows"""
    rows, i, j = [], i0, j0
    while i < n or j < m:
        moves = []
        if i < n and j < m:
            moves += ["d", "d"]
        if j < m:
            moves.append("l")
        if i < n:
            moves.append("t")
        mv = rng.choice(moves)
        if mv == "d":
            rows.append([i, j]); i += 1; j += 1
        elif mv == "l":
            rows.append([-1, j]); j += 1
        else:
            rows.append([i, -1]); i += 1
    return rows


def _case(rng, maxlen, allow_empty=False):
    k1, k2 = rng.randint(2, 5), rng.randint(2, 5)
    w = rng.random()
    if w < 0.55:
        w1 = w2 = "u8"
    else:
        w1, w2 = rng.choice(["u8", "u16", "u32", "u64"]), rng.choice(["u8", "u16", "u32", "u64"])
        if w1 == "u32" and w2 in ("u16", "u32"):      # a 70000 x 300 matrix is the largest we build
            w2 = rng.choice(["u8", "u64"])
        if w2 == "u32" and w1 in ("u16", "u32"):
            w1 = rng.choice(["u8", "u64"])
    offs = {"u8": [0], "u16": [0, 251, 253, 255, 256, 290], "u32": [253, 65533, 65535, 65536, 69990],
            "u64": [0, 253, 255, 256]}
    off1, off2 = rng.choice(offs[w1]), rng.choice(offs[w2])
    if w1 == "u32":
        off2 = 0                # keep the matrix small: the other alphabet stays at its k symbols
    if w2 == "u32":
        off1 = 0
    lo = 0 if allow_empty else 1
    n = rng.choice([lo, 1, 2, 2, 3, 3, 4, 4, 5, 5, 6, 7] if maxlen <= 7 else list(range(lo, maxlen + 1)))
    m = rng.choice([lo, 1, 2, 2, 3, 3, 4, 4, 5, 5, 6, 7] if maxlen <= 7 else list(range(lo, maxlen + 1)))
    used1, used2 = rng.randint(1, k1), rng.randint(1, k2)
    a = [rng.randrange(used1) for _ in range(n)]
    b = [rng.randrange(used2) for _ in range(m)]
    if rng.random() < 0.25 and n and m:      # related sequences: b is a mutated copy of a
        b = [min(x, k2 - 1) for x in a]
        for _ in range(rng.randint(0, 3)):
            r = rng.random()
            if r < 0.4 and b:
                del b[rng.randrange(len(b))]
            elif r < 0.8:
                b.insert(rng.randint(0, len(b)), rng.randrange(k2))
            elif b:
                b[rng.randrange(len(b))] = rng.randrange(k2)
        b = b[:max(maxlen, 7)] or [0]
    c = {"kind": "opt", "mode": rng.choice("gsl"), "gap": _gap(rng), "a": a, "b": b, "w1": w1, "w2": w2,
         "off1": off1, "off2": off2,
         "alph2": rng.choice(["same", "chr", "chr"]), "M": _matrix(rng, k1, k2),
         "max": rng.choice([1, 1, 2, 3, 5, 10, 50, rng.randint(1, 50)])}
    if c["alph2"] == "same" and (k1 != k2 or w1 != w2):
        c["alph2"] = "chr"
    rs = []
    if a and b:
        for _ in range(rng.randint(0, 2)):
            if rng.random() < 0.6:
                rs.append({"tp": rng.choice([0, 1]), "trace": _random_path(rng, len(a), len(b))})
            else:                       # local segment (scored with terminal_penalty=True)
                i0, j0 = rng.randint(0, len(a) - 1), rng.randint(0, len(b) - 1)
                i1, j1 = rng.randint(i0 + 1, len(a)), rng.randint(j0 + 1, len(b))
                rs.append({"tp": rng.choice([0, 1]), "trace": _random_path(rng, i1, j1, i0, j0)})
    c["rs"] = rs
    c["ops"] = _ops(c)
    return c


def cases(rng, tier):
    n_cases = 700 if tier == "quick" else 6000
    for k in range(n_cases):
        yield _case(rng, 7 if (tier == "quick" or k % 4) else 12, allow_empty=(k % 10 == 0))
    # every pair of length <= L over 2 letters x a grid of matrices / gaps (exhaustive small shapes)
    L = 2 if tier == "quick" else 3
    import itertools
    grid_M = [[[1, -1], [-1, 1]], [[2, -3], [0, 1]]] if tier == "quick" else \
        [[[1, -1], [-1, 1]], [[2, -3], [0, 1]], [[-1, -2], [-3, -1]], [[0, 0], [0, 0]], [[3, 1], [-2, 2]]]
    grid_g = [[-1], [-2, -1]] if tier == "quick" else [[0], [-1], [-3], [-2, -1], [-1, -2], [0, -1], [-3, 0], [0, 0]]
    seqs = [list(p) for ln in range(1, L + 1) for p in itertools.product([0, 1], repeat=ln)]
    for a in seqs:
        for b in seqs:
            for Mx in grid_M:
                for g in grid_g:
                    for mode in "gsl":
                        c = {"kind": "grid", "mode": mode, "gap": g, "a": a, "b": b, "w1": "u8", "w2": "u8",
                             "alph2": "same", "M": Mx, "max": 50, "rs": []}
                        c["ops"] = _ops(c)
                        yield c
    # separate stream: matrices / gaps at the int32 bound (outside NoOverflow) — oracle only
    for _ in range(6 if tier == "quick" else 200):
        n, m = rng.randint(1, 3), rng.randint(1, 3)
        sign = rng.choice([1, -1])
        yield {"kind": "overflow", "mode": rng.choice("gsl"), "gap": rng.choice([[-1], [-1, -1], [0], [-BIG]]),
               "a": [rng.randrange(2) for _ in range(n)], "b": [rng.randrange(2) for _ in range(m)],
               "w1": "u8", "w2": "u8", "alph2": "same", "max": 3,
               "M": [[sign * (BIG - rng.randint(0, 3)) for _ in range(2)] for _ in range(2)]}


def corpus():
    out = []
    base = {"kind": "opt", "w1": "u8", "w2": "u8", "alph2": "same", "rs": []}
    specs = [
        # ties everywhere, zero penalties
        ("g", [0], [0, 1, 2, 1], [1, 2, 0], [[2, -1, -3], [-1, 3, 0], [-2, 1, 1]], 50),
        ("g", [0, 0], [0, 1, 2, 1], [1, 2, 0], [[2, -1, -3], [-1, 3, 0], [-2, 1, 1]], 50),
        # open < ext and ext < open
        ("g", [-5, -1], [0, 0, 1, 1], [0, 1], [[1, -1], [-1, 1]], 10),
        ("g", [-1, -5], [0, 0, 1, 1], [0, 1], [[1, -1], [-1, 1]], 10),
        ("s", [-1, -5], [0, 0, 1, 1], [0, 1], [[1, -1], [-1, 1]], 10),
        # semi-global: abutting terminal gaps allowed for linear, not for affine
        ("s", [-2], [0], [1], [[-5, -5], [-5, -5]], 10),
        ("s", [-2, -2], [0], [1], [[-5, -5], [-5, -5]], 10),
        # local: nothing positive -> empty alignments, many start cells
        ("l", [-1], [0, 1], [1, 0], [[-1, -1], [-1, -1]], 3),
        ("l", [-1, -1], [0, 1], [1, 0], [[-1, -1], [-1, -1]], 3),
        ("l", [0], [0, 1, 1], [0, 1], [[1, 0], [0, 1]], 50),
        ("l", [0, 0], [0, 1, 1], [0, 1], [[1, 0], [0, 1]], 50),
        # max_number smaller than the number of co-optimal traces
        ("g", [0], [0, 0, 0], [0, 0, 0], [[0, 0], [0, 0]], 1),
        ("g", [0], [0, 0, 0], [0, 0, 0], [[0, 0], [0, 0]], 7),
        ("l", [0], [0, 0, 0], [0, 0, 0], [[0, 0], [0, 0]], 2),
        # empty sequences (linear)
        ("g", [-2], [], [0, 1], [[1, 0], [0, 1]], 5),
        ("s", [-2], [0, 1], [], [[1, 0], [0, 1]], 5),
        ("l", [-2], [], [], [[1, 0], [0, 1]], 5),
        ("l", [-2, -1], [], [0], [[1, 0], [0, 1]], 5),
    ]
    for mode, gap, a, b, Mx, mx in specs:
        c = dict(base, mode=mode, gap=gap, a=a, b=b, M=Mx, max=mx)
        c["ops"] = _ops(c)
        out.append(c)
    # C09 observation: affine + terminal_penalty=False, an interior gap run may not end at a free sequence end
    # (it would abut the other sequence's free terminal gaps): align_optimal reports the non-abutting optimum.
    # The rescore ops tie the public score of the abutting (excluded) alignments to the model.
    M3 = [[4, -3], [-3, 4], [-3, -3]]
    for a, b, trs in [([1, 2], [1, 0], [[[0, 0], [1, -1], [-1, 1]]]),
                      ([1, 2, 2], [1, 0, 1, 0, 0],
                       [[[-1, 0], [-1, 1], [0, 2], [1, -1], [2, -1], [-1, 3], [-1, 4]],
                        [[-1, 0], [-1, 1], [0, 2], [-1, 3], [-1, 4], [1, -1], [2, -1]]])]:
        for gap in ([-1, -1], [-1]):
            c = dict(base, mode="s", gap=gap, a=a, b=b, M=M3, max=50, alph2="chr",
                     rs=[{"tp": 0, "trace": t} for t in trs])
            c["ops"] = _ops(c)
            out.append(c)
    # code VALUES straddling the uint8 / uint16 boundary, linear and affine, all modes, first and second sequence
    M5 = [[3, -2, 0, 1, -1], [-2, 4, -1, 0, 2], [0, -1, 2, -3, 1], [1, 0, -3, 5, -2], [-1, 2, 1, -2, 3]]
    for w1, o1, w2, o2 in [("u16", 253, "u8", 0), ("u8", 0, "u16", 253), ("u16", 254, "u16", 255),
                           ("u32", 65533, "u8", 0), ("u8", 0, "u32", 65533), ("u64", 253, "u16", 256)]:
        for mode in "gsl":
            for gap in ([-2], [-3, -1]):
                c = dict(base, mode=mode, gap=gap, a=[0, 3, 4, 1, 2, 4], b=[3, 4, 0, 2, 4], w1=w1, w2=w2, off1=o1,
                         off2=o2, alph2="chr", M=M5, max=20,
                         rs=[{"tp": 0, "trace": [[0, -1], [1, 0], [2, 1], [3, 2], [4, 3], [-1, 4], [5, -1]]}])
                c["ops"] = _ops(c)
                out.append(c)
    # width / alphabet combinations on one fixed input
    for w1, w2 in [("u8", "u16"), ("u16", "u8"), ("u32", "u64"), ("u64", "u32"), ("u16", "u16"), ("u8", "u32"), ("u64", "u64")]:
        c = dict(base, mode="g", gap=[-2, -1], a=[0, 1, 2, 1, 0], b=[1, 2, 2, 0], w1=w1, w2=w2, alph2="chr",
                 M=[[2, -1, -3], [-1, 3, 0], [-2, 1, 1]], max=20,
                 rs=[{"tp": 0, "trace": [[0, -1], [1, 0], [2, 1], [3, 2], [-1, 3], [4, -1]]}])
        c["ops"] = _ops(c)
        out.append(c)
    return out


# ---------------------------------------------------------------- implementation adapter
@functools.lru_cache(maxsize=None)
def _alphabet(size, kind):
    import biotite.sequence as seq
    if kind == "chr":
        return seq.Alphabet([f"s{i}" for i in range(size)])
    return seq.Alphabet(range(size))


def _build(c):
    """(seq1, seq2, SubstitutionMatrix) for a case: alphabets sized for the requested code width."""
    import numpy as np
    import biotite.sequence as seq
    import biotite.sequence.align as align
    k1, k2 = len(c["M"]), len(c["M"][0])
    # code VALUES: the used symbols are the codes off .. off+k-1 of a large alphabet (e.g. 253..257 straddles the
    # uint8 boundary, 65533..65537 the uint16 boundary); the model sees the codes minus the offset and the k1 x k2 block
    o1, o2 = c.get("off1", 0), c.get("off2", 0)
    s1 = max(WIDTH_SIZE[c["w1"]] or k1, o1 + k1)
    s2 = max(WIDTH_SIZE[c["w2"]] or k2, o2 + k2)
    al1 = _alphabet(s1, "int")
    al2 = al1 if (c["alph2"] == "same" and s1 == s2) else _alphabet(s2, "chr")
    assert s1 * s2 <= 70000 * 8, "matrix too large"
    if s1 > k1 or s2 > k2:      # entries outside the used block must not matter: fill them with a varied pattern
        rr = np.arange(s1, dtype=np.int64)[:, None]
        cc = np.arange(s2, dtype=np.int64)[None, :]
        big = ((rr * 7 + cc * 13 + 3) % 11 - 5)
    else:
        big = np.zeros((s1, s2), dtype=np.int64)
    big[o1:o1 + k1, o2:o2 + k2] = np.array(c["M"], dtype=np.int64)
    if max(abs(x) for r in c["M"] for x in r) < 2**31:
        big = big.astype(np.int32)
    matrix = align.SubstitutionMatrix(al1, al2, big)
    seqs = []
    for codes, al, w, off in ((c["a"], al1, c["w1"], o1), (c["b"], al2, c["w2"], o2)):
        s = seq.GeneralSequence(al)
        codes = [x + off for x in codes]
        s.code = np.array(codes, dtype=np.int64)
        if w == "u64":           # alphabets > 2**32 symbols cannot be built: force the uint64 specialisation
            s._seq_code = np.array(codes, dtype=np.uint64)
        expect = {"u8": np.uint8, "u16": np.uint16, "u32": np.uint32, "u64": np.uint64}[w]
        assert s.code.dtype == expect, (s.code.dtype, w)
        seqs.append(s)
    return seqs[0], seqs[1], matrix


def _pygap(gap):
    return int(gap[0]) if len(gap) == 1 else (int(gap[0]), int(gap[1]))


def _align(c):
    import biotite.sequence.align as align
    s1, s2, matrix = _build(c)
    res = align.align_optimal(s1, s2, matrix, gap_penalty=_pygap(c["gap"]),
                              terminal_penalty=(c["mode"] != "s"), local=(c["mode"] == "l"),
                              max_number=c["max"])
    return s1, s2, matrix, res


def run_impl(case):
    import numpy as np
    import biotite.sequence.align as align
    c = case
    out = []
    try:
        s1, s2, matrix, res = _align(c)
    except Exception as e:  # noqa: BLE001
        err = "ERR:" + type(e).__name__
        out = [err, err]
        res = None
        try:
            s1, s2, matrix = _build(c)
        except Exception:  # noqa: BLE001
            s1 = s2 = matrix = None
    if res is not None:
        scores = sorted({int(r.score) for r in res})
        sc = scores[0] if len(scores) == 1 else None
        out.append("ok " + (",".join(map(str, scores)) if scores else "none"))
        traces = [r.trace.tolist() for r in res]
        tr_s = "/".join(_trace_s(t) for t in traces) if traces else "-"
        # the chk op carries the actual output: rewrite it (the runner reads case["ops"] after run_impl)
        case["ops"][1] = f"chk {c['mode']} {_head(c)} {c['max']} {sc if sc is not None else 0} {tr_s}"
        n = len(res)
        out.append(f"ok n={n} valid={n} scored={n} sound={n} distinct=1 count=1 model=1")
    for r in c.get("rs", []):
        try:
            aln = align.Alignment([s1, s2], np.array(r["trace"], dtype=np.int64).reshape(-1, 2))
            v = align.score(aln, matrix, _pygap(c["gap"]), terminal_penalty=bool(r["tp"]))
            out.append(f"ok {int(v)}")
        except Exception as e:  # noqa: BLE001
            out.append("ERR:" + type(e).__name__)
    return out


# ---------------------------------------------------------------- property oracle (independent of the Lean model)
def doc_score(rows, Mx, a, b, go, ge, tp):
    """The documented scoring model, written from the docs of align.score / align_optimal:
    substitution scores of aligned pairs + gap-open for the first gap of a run in a sequence + gap-ext for each
    further one; with tp=False gap columns before both sequences have started / after one has ended are free."""
    s = sum(Mx[a[i]][b[j]] for i, j in rows if i >= 0 and j >= 0)
    lo, hi = 0, len(rows)
    if not tp:
        pa = [k for k, (i, _) in enumerate(rows) if i >= 0]
        pb = [k for k, (_, j) in enumerate(rows) if j >= 0]
        if not pa or not pb:
            return s            # one sequence has no symbol: every gap is terminal
        lo, hi = max(pa[0], pb[0]), min(pa[-1], pb[-1]) + 1
    for side in (0, 1):
        run = False
        for k in range(lo, hi):
            if rows[k][side] < 0:
                s += ge if run else go
                run = True
            else:
                run = False
    return s


@functools.lru_cache(maxsize=64)
def _paths(n, m, no_abut):
    """all alignments (as tuples of trace rows, relative indices) of sequences of lengths n and m"""
    out = []

    def rec(i, j, acc, last):
        if i == n and j == m:
            out.append(tuple(acc))
            return
        if i < n and j < m:
            acc.append((i, j)); rec(i + 1, j + 1, acc, 0); acc.pop()
        if j < m and not (no_abut and last == 2):
            acc.append((-1, j)); rec(i, j + 1, acc, 1); acc.pop()
        if i < n and not (no_abut and last == 1):
            acc.append((i, -1)); rec(i + 1, j, acc, 2); acc.pop()
    rec(0, 0, [], 0)
    return out


def _delannoy(n, m):
    d = [[1] * (m + 1) for _ in range(n + 1)]
    for i in range(1, n + 1):
        for j in range(1, m + 1):
            d[i][j] = d[i - 1][j] + d[i][j - 1] + d[i - 1][j - 1]
    return d[n][m]


def brute_opt(mode, a, b, Mx, gap):
    """maximum over ALL alignments by enumeration (the property statement); None if too large."""
    affine = len(gap) == 2
    go, ge = (gap[0], gap[-1])
    n, m = len(a), len(b)
    if mode in "gs":
        if _delannoy(n, m) > 2500:
            return None
        return max(doc_score(p, Mx, a, b, go, ge, mode == "g") for p in _paths(n, m, affine))
    if max(n, m) > 4 or n * m > 16:
        return None
    best = 0    # the empty alignment
    for i0 in range(n + 1):
        for i1 in range(i0, n + 1):
            for j0 in range(m + 1):
                for j1 in range(j0, m + 1):
                    if i1 == i0 and j1 == j0:
                        continue
                    sa, sb = a[i0:i1], b[j0:j1]
                    for p in _paths(i1 - i0, j1 - j0, affine):
                        v = doc_score(p, Mx, sa, sb, go, ge, True)
                        if v > best:
                            best = v
    return best


def rec_opt(mode, a, b, Mx, gap):
    """independent memoised recursion over suffixes (used when enumeration is too large)"""
    affine = len(gap) == 2
    go, ge = gap[0], gap[-1]
    n, m = len(a), len(b)
    import sys
    sys.setrecursionlimit(10000)

    @functools.lru_cache(maxsize=None)
    def best(i, j, last):
        # best score of an alignment of a[i:], b[j:] given the previous column kind (0 both/none, 1 gapA, 2 gapB)
        if mode == "l":
            cands = [0]
        elif i == n and j == m:
            return 0
        else:
            cands = []
        if i < n and j < m:
            cands.append(Mx[a[i]][b[j]] + best(i + 1, j + 1, 0))
        if j < m and not (affine and last == 2):
            free = mode == "s" and (i == 0 or i == n)
            cands.append((0 if free else (ge if last == 1 else go)) + best(i, j + 1, 1))
        if i < n and not (affine and last == 1):
            free = mode == "s" and (j == 0 or j == m)
            cands.append((0 if free else (ge if last == 2 else go)) + best(i + 1, j, 2))
        return max(cands) if cands else -10**15      # dead end (abutting gaps forbidden)
    if mode == "l":
        return max(best(i, j, 0) for i in range(n + 1) for j in range(m + 1))
    return best(0, 0, 0)


def check_trace(mode, rows, n, m):
    """contiguous, order preserving, end-to-end unless local; returns an error string or None"""
    ia = [i for i, _ in rows if i != -1]
    jb = [j for _, j in rows if j != -1]
    for i, j in rows:
        if i == -1 and j == -1:
            return "column of two gaps"
        if i < -1 or j < -1 or i >= n or j >= m:
            return "index out of range"
    for xs, ln, nm in ((ia, n, "first"), (jb, m, "second")):
        if any(y != x + 1 for x, y in zip(xs, xs[1:])):
            return f"{nm} sequence not contiguous / ordered"
        if mode != "l" and xs != list(range(ln)):
            return f"{nm} sequence not end-to-end"
    return None


def oracle(case):
    c = case
    if c.get("kind") not in ("opt", "grid", "overflow"):
        return []
    a, b, Mx, gap, mode = c["a"], c["b"], c["M"], c["gap"], c["mode"]
    gk = "linear" if len(gap) == 1 else "affine"
    tag = f"C08/{ {'g': 'global', 's': 'semiglobal', 'l': 'local'}[mode] }/{gk}"
    v = []
    overflow = c.get("kind") == "overflow"
    try:
        s1, s2, matrix, res = _align(c)
    except Exception as e:  # noqa: BLE001
        if (not a or not b) and gk == "affine" and mode != "l" and isinstance(e, IndexError):
            return [("C08/affine/empty-sequence/IndexError", f"align_optimal raises IndexError for a={a} b={b} gap={gap}")]
        return [(tag + "/raises-" + type(e).__name__, f"align_optimal raised {type(e).__name__}: {e} on {a} {b} {gap}")]
    if not res:
        return [(tag + "/no-alignment", f"empty result list for a={a} b={b}")]
    scores = {int(r.score) for r in res}
    if len(scores) != 1:
        v.append((tag + "/scores-differ", f"returned alignments carry different scores {sorted(scores)}"))
    sc = int(res[0].score)
    key_ovf = "C08/overflow/int32-table-wraps"
    go, ge = gap[0], gap[-1]
    traces = [[(int(i), int(j)) for i, j in r.trace.tolist()] for r in res]
    import biotite.sequence.align as align
    for t in traces:
        why = check_trace(mode, t, len(a), len(b))
        if why:
            v.append((key_ovf if overflow else tag + "/invalid-trace", f"trace {t} of a={a} b={b}: {why}"))
            continue
        mine = doc_score(t, Mx, a, b, go, ge, mode != "s")
        if mine != sc:
            v.append((key_ovf if overflow else tag + "/rescore-mismatch",
                      f"reported {sc} but the documented scoring model gives {mine} for {t} (a={a} b={b} M={Mx} gap={gap})"))
        if overflow:
            continue
        try:
            pub = int(align.score(align.Alignment([s1, s2], res[traces.index(t)].trace), matrix, _pygap(gap),
                                  terminal_penalty=(mode != "s")))
            if pub != sc:
                v.append((tag + "/public-score-mismatch", f"align.score gives {pub}, reported {sc} for {t}"))
        except Exception as e:  # noqa: BLE001
            if not a or not b:
                v.append(("C08/score/empty-sequence/" + type(e).__name__,
                          f"align.score raises {type(e).__name__} on the returned alignment of a={a} b={b}"))
            else:
                v.append((tag + "/public-score-raises", f"align.score raised {type(e).__name__}: {e} for {t}"))
    ne = [tuple(t) for t in traces if t]
    if len(set(ne)) != len(ne):
        v.append((tag + "/duplicate-traces", f"non-empty traces not pairwise distinct: a={a} b={b} M={Mx} gap={gap} max={c['max']}"))
    if len(res) > c["max"]:
        v.append((tag + "/more-than-max_number", f"{len(res)} alignments for max_number={c['max']}"))
    best = brute_opt(mode, a, b, Mx, gap)
    if best is None:
        best = rec_opt(mode, a, b, Mx, gap)
    if best != sc:
        v.append((key_ovf if overflow else tag + "/not-optimal",
                  f"reported score {sc}, true optimum {best} (a={a} b={b} M={Mx} gap={gap} mode={mode})"))
    if c.get("off1") or c.get("off2"):
        ctx = f" [real codes = model codes + {c.get('off1', 0)} / + {c.get('off2', 0)}, widths {c['w1']}/{c['w2']}]"
        v = [(k, msg + ctx) for k, msg in v]
    # de-duplicate keys; in the int32-bound stream every symptom is the one overflow finding
    seen, out = set(), []
    for k, msg in v:
        if overflow:
            k = key_ovf
        if k not in seen:
            seen.add(k)
            out.append((k, msg))
    return out


def nontrivial(case, impl_out):
    if case.get("kind") == "overflow":
        return False
    Mx = case["M"]
    return bool(case["a"]) and bool(case["b"]) and len({x for r in Mx for x in r}) > 1


def signature(case):
    return f"{case['mode']}|{case['gap']}|{case['a']}|{case['b']}|{case['M']}|{case['max']}"


def distribution(cases, impl_outs):
    d = {"mode": {}, "gap": {}, "widths": {}, "code_values": {}, "n_traces": {}, "len": {}, "alph2": {}, "errors": {}}

    def inc(k, x):
        d[k][x] = d[k].get(x, 0) + 1
    for c, o in zip(cases, impl_outs):
        inc("mode", c["mode"])
        inc("gap", "linear" if len(c["gap"]) == 1 else ("affine open<ext" if c["gap"][0] < c["gap"][1] else "affine"))
        inc("widths", c["w1"] + "/" + c["w2"])
        inc("code_values", ">=65536" if max(c.get("off1", 0), c.get("off2", 0)) >= 65530 else
            ">=256" if max(c.get("off1", 0), c.get("off2", 0)) >= 250 else "<256")
        inc("alph2", c["alph2"])
        ln = max(len(c["a"]), len(c["b"]))
        inc("len", "0" if min(len(c["a"]), len(c["b"])) == 0 else "1-3" if ln <= 3 else "4-7" if ln <= 7 else "8+")
        if o and len(o) > 1:
            m = re.match(r"ok n=(\d+)", o[1])
            if m:
                n = int(m.group(1))
                inc("n_traces", "1" if n == 1 else "2-5" if n <= 5 else "6+" if n < c["max"] else "=max_number")
            elif o[1].startswith("ERR"):
                inc("errors", o[1])
    return d


def search(rng, problems, tier):
    """Failing-input search: small shapes first (exhaustive enumeration applies), then the generator again."""
    for _ in range(1500 if tier == "quick" else 6000):
        c = _case(rng, 4, allow_empty=False)
        c["rs"] = []
        yield c
    for _ in range(500):
        yield _case(rng, 7)


def shrink(case, key):
    """drop symbols from either sequence while the same finding key persists"""
    cur = dict(case)
    changed = True
    while changed:
        changed = False
        for which in ("a", "b"):
            xs = cur[which]
            for k in range(len(xs)):
                cand = dict(cur, **{which: xs[:k] + xs[k + 1:]}, rs=[])
                if "ops" in cand:
                    cand["ops"] = _ops(cand)
                try:
                    if any(k2 == key for k2, _ in oracle(cand)):
                        cur = cand
                        changed = True
                        break
                except Exception:  # noqa: BLE001
                    pass
            if changed:
                break
    return cur

"""C10 — k-mer indices find exactly the matching k-mers; selectors obey definitions.

Plugin interface: see harness/README.md.  Three independent parts:
  * run_impl   : the protocol ops executed on the real biotite objects (whole case in a forked child);
  * oracle     : a naive Python reference written from the property statement (tables are lists of
                 (kmer, ref, pos) triples, masks are "any informative position masked", selectors are
                 their textbook definitions) compared with the real outputs;
  * the Lean model/driver (lean/BiotiteModel/{Model,Driver}/C10.lean) compared op by op by the runner.
"""
import os
import re
from fractions import Fraction

PROP = "C10"
PROPS_MODULE = "BiotiteModel.Props.C10"
DRIVER_MODULE = "BiotiteModel.Driver.C10"
EXT_MODULES = ["biotite.sequence.align.kmertable", "biotite.sequence.align.kmeralphabet",
               "biotite.sequence.align.selector", "biotite.sequence.align.permutation",
               "biotite.sequence.align.kmersimilarity"]
GEN_FILES = ["BiotiteModel/Gen/C10.lean"]
RULE = ("seeded op sequences on direct and bucketed k-mer tables (alphabets of 2-5 symbols, k 2-5, random spacings, "
        "references of length k-1..k+6 with repeats, bucket counts 1,2,3,5,7,13,large, masks, all five constructors, "
        "merge, pickle, match/match_table/match_kmer_selection/count/get_kmers/__getitem__) and on the minimizer/"
        "syncmer/cached-syncmer/min-code selectors with identity, LCG, frequency and table permutations (incl. "
        "INT64_MAX keys); plus a malformed stream (wrong-length masks, out-of-range codes, short queries) and "
        "ScoreThresholdRule vs brute force, similarity rules combined with query and reference ignore masks on "
        "both table kinds (match and match_table), and long k-mers (DNA k=16,17,20,31; 20 letters k=7,8,13: "
        "create_kmers vs direct fuse, bucketed match/count/match_table), similar_kmers itself (`simk`), min-code "
        "threshold boundaries (compression dividing / not dividing the range), cached vs plain syncmer selector "
        "(`csynck`) and table __eq__ across content / order / bucket number / kind / spacing; every ndarray argument "
        "is passed in varying memory layouts and dtypes (strided, Fortran, transposed, column slices, read-only, "
        "int32/uint32/uint64); substitution matrices over alphabets larger than the k-mer base alphabet; contiguous "
        "vs spaced k-mer alphabets (equality both ways, mixed from_tables / match_table); queries over smaller / "
        "larger / foreign alphabets with in-range codes; select(sequence, alphabet_check) of all selectors; table "
        "protocol methods (in, iter, reversed, len, properties, str) and alphabet methods (split, decode, encode, "
        "kmer_array_length); from_sequences with default / explicit-but-different alphabet and default bucket "
        "number; scalars as NumPy integers of all widths, arrays as lists / tuples / byte-swapped; objects reused "
        "across calls; refused calls leave arguments untouched. non-trivial = at least one non-empty result or an error branch; "
        "distinct = different op list")
TRUSTED = ["numpy fancy indexing / argsort / where, pickle: modelled by documented semantics",
           "ScoreThresholdRule.similar_kmers: the iterative while-loop is modelled as the depth-first recursion it performs "
           "(bbSearch, proved exact); that refinement step is tied by the `simk` correspondence op and the brute-force oracle"]
ASSUMPTIONS = ["k-mer codes, positions and reference ids are unbounded naturals in the model (int64/uint32 wrap-around "
               "is not modelled; the generator keeps n^k < 2^63 and positions < 2^32)",
               "MincodeSelector threshold is compared exactly (rational) in the model; float64 rounding of the "
               "threshold for |code| > 2^53 is not modelled"]
LEVEL_TEXT = ("proof for all inputs (Lean 4, no size bound, no sorry): the two-pass fill never writes beyond the counted "
              "capacity and yields exactly the per-slot filter of the inserted items (direct and bucketed, any "
              "n_buckets >= 1); from_kmers, from_kmer_selection, from_sequences (rolling / spaced k-mer codes = fuse "
              "of every window, for every alphabet the constructor accepts), from_positions and from_tables yield "
              "the canonical table of their input; match exactness is one theorem with the similarity rule as a "
              "parameter (identical k-mers, or similar under a supplied rule, masked positions excluded); "
              "ScoreThresholdRule.similar_kmers (branch-and-bound as DFS recursion) returns exactly the symbol "
              "strings over the base alphabet with score >= threshold given the max-score pruning bound, which the "
              "row maxima of a matrix over any extending alphabet satisfy; KmerAlphabet.__eq__ decides structural "
              "equality (symmetric); match only answers queries whose alphabet the table's alphabet extends; "
              "match_kmer_selection / match_table (join over equal k-mers) / count / count() complete / get_kmers "
              "complete and strictly ascending / the per-k-mer scan are exact; __eq__ holds iff same kind, alphabet "
              "size, k, slot number and slot-wise content; pickle round trip on the word layout; contiguous mask; "
              "minimizer for every window >= 1 and all keys < INT64_MAX (leftmost window minimum, dedup as in the "
              "code); syncmer selection on top of it; CachedSyncmerSelector = SyncmerSelector on every valid input; "
              "min-code (also with a fractional compression factor) for any permutation as a function (none, LCG mod 2^64 with the regenerated constants, "
              "frequency rank table, custom table) against the exact threshold. PARTIAL / assumptions: "
              "BucketKmerTable.__getitem__ only for k-mer codes < 2^32 (defect witness otherwise); the float64 "
              "rounding of the min-code threshold is an assumption pinned by a boundary correspondence stream; that "
              "the while-loop of similar_kmers performs the modelled DFS, and that FrequencyPermutation's stable "
              "argsort is the rank order, are tied by correspondence + brute-force oracle. Seven .pyx defects (incl. a SIGSEGV when a constructor fails inside its count pass) are "
              "modelled as written (_defect witnesses) and listed as known findings.")
LEVEL_NOTE = ("ScoreThresholdRule.similar_kmers, numpy and pickle are exercised (oracle / correspondence), not proved; "
              "C memory safety beyond the proved capacity invariant is trusted")
TECHNIQUE = ("Lean 4 proof (induction over the insertion sequence with a per-slot invariant) + structure, defaults and "
             "error paths of the anchored .pyx functions regenerated as Lean obligations + correspondence")

LCG_A = 0xD1342543DE82EF95
I64MAX = 2**63 - 1

K_MASK = "C10/mask/spaced-kmers"
K_GETITEM = "C10/bucket-getitem/kmer-code-above-uint32"
K_MINMAX = "C10/minimizer/order-value-int64-max"
K_MINCODE_BOOL = "C10/mincode/returns-boolean-mask"
K_FUSE = "C10/fuse/code-equals-alphabet-length"
K_EQ_SPACING = "C10/eq/spacing-ignored"
K_CTOR_CRASH = "C10/ctor/crash-after-partial-count"
K_NPK = "C10/kmeralphabet/numpy-scalar-k-arithmetic"
K_KHASH = "C10/kmeralphabet/hash-unspaced"
K_NEGKMER = "C10/negative-kmer-code/getitem-unchecked"
K_ZEROBUCKETS = "C10/bucket/n_buckets-zero-crash"
K_BIGCODE = "C10/create_kmers/code-exceeds-int64"
K_BIGSCORE = "C10/similar_kmers/int32-score-overflow"


# ---------------------------------------------------------------- small formatting helpers (shared canonical text)
def _nats(xs):
    xs = list(xs)
    return ",".join(str(int(x)) for x in xs) if xs else "_"


def _lists(ls):
    return ";".join(_nats(l) for l in ls) if ls else "-"


def _bits(m):
    return "".join("1" if b else "0" for b in m) if len(m) else "e"


def _masks(ms):
    if ms is None:
        return "-"
    return ";".join("n" if m is None else _bits(m) for m in ms)


def _tuples(ts):
    ts = sorted(tuple(int(x) for x in t) for t in ts)
    return ",".join(":".join(str(x) for x in t) for t in ts) if ts else "_"


def _parse_nats(s):
    return [] if s in ("_", "") else [int(x) for x in s.split(",")]


def _parse_lists(s):
    return [] if s == "-" else [_parse_nats(x) for x in s.split(";")]


def _parse_bits(s):
    return [] if s == "e" else [c == "1" for c in s]


def _parse_masks(s, n):
    if s == "-":
        return None
    return [None if m == "n" else _parse_bits(m) for m in s.split(";")]


def _parse_dict(s):
    d = []
    if s == "-":
        return d
    for item in s.split(";"):
        k, ps = item.split("=")
        d.append((int(k), [] if ps == "_" else [tuple(int(x) for x in rp.split(":")) for rp in ps.split(",")]))
    return d


# ---------------------------------------------------------------- translator (Gen)
def gen_lean():
    """Constants the model hard-codes, re-read from the source on every run."""
    from common import paths
    d = os.path.join(paths.SRC, "biotite/sequence/align")
    kt = open(os.path.join(d, "kmertable.pyx")).read()
    m = re.search(r"cdef enum EntrySize:(.*?)\n\S", kt, re.S)
    if not m:
        raise ValueError("EntrySize enum not found in kmertable.pyx")
    es = dict(re.findall(r"^\s+([A-Z_]+)\s*=\s*(\d+)\s*$", m.group(1), re.M))
    if set(es) != {"NO_BUCKETS", "BUCKETS"}:
        raise ValueError(f"EntrySize members changed: {es}")
    pm = open(os.path.join(d, "permutation.pyx")).read()
    a = re.search(r"LCG_A\s*=\s*(0x[0-9a-fA-F]+|\d+)", pm)
    c = re.search(r"LCG_C\s*=\s*(0x[0-9a-fA-F]+|\d+)", pm)
    if not a or not c:
        raise ValueError("LCG constants not found in permutation.pyx")
    sl = open(os.path.join(d, "selector.pyx")).read()
    mx = re.search(r"cdef int64 MAX_INT_64\s*=\s*(\d+)", sl)
    if not mx:
        raise ValueError("MAX_INT_64 not found in selector.pyx")
    # the initial length written by _init_c_arrays and the header skipped by every scan loop
    init = re.search(r"\(<int64\*> bucket_ptr\)\[0\]\s*=\s*(\d+)\s*\n\s*ptr_array\[bucket\]", kt)
    if not init:
        raise ValueError("_init_c_arrays initial length not found")
    alloc = re.search(r"malloc\(\s*\((\d+) \+ count \* element_size\) \* sizeof\(uint32\)", kt)
    if not alloc:
        raise ValueError("_init_c_arrays allocation size not found")
    ka = open(os.path.join(d, "kmeralphabet.pyx")).read()
    kmin = re.search(r"if k < (\d+):\s*\n\s*raise \w+\(", ka)
    if not kmin:
        raise ValueError("KmerAlphabet k lower bound not found")
    wmin = re.search(r"if window < (\d+):\s*\n\s*raise \w+\(", sl)
    if not wmin:
        raise ValueError("MinimizerSelector window lower bound not found")
    body = ["/- REGENERATED on every run by harness/props/c10.py from sequence/align/*.pyx. Do not edit. -/",
            "namespace BiotiteModel.Gen.C10",
            f"def entrySizeNoBuckets : Nat := {es['NO_BUCKETS']}",
            f"def entrySizeBuckets : Nat := {es['BUCKETS']}",
            f"def headerWords : Nat := {init.group(1)}",
            f"def allocHeaderWords : Nat := {alloc.group(1)}",
            f"def lcgA : Nat := {int(a.group(1), 0)}",
            f"def lcgC : Nat := {int(c.group(1), 0)}",
            f"def maxInt64 : Int := {mx.group(1)}",
            f"def kMin : Nat := {kmin.group(1)}",
            f"def windowMin : Nat := {wmin.group(1)}",
            _gen_structure(),
            "end BiotiteModel.Gen.C10", ""]
    return {"BiotiteModel/Gen/C10.lean": "\n".join(body)}



# ---------------------------------------------------------------- structural facts regenerated from the .pyx text (tie7)
# (group, lean name, file, qualified function, regex selecting logical lines; None = returns; "." = whole body)
GEN_SPEC = [
    ("Kmeralphabet", "kalInitSpacing", "kmeralphabet", "KmerAlphabet.__init__", r"self\._spacing|_radix_multiplier|base_alph_len"),
    ("Kmeralphabet", "kalFuse", "kmeralphabet", "KmerAlphabet.fuse", r"kmer_code =|return|np\.atleast"),
    ("Kmeralphabet", "kalSplit", "kmeralphabet", "KmerAlphabet._split", r"symbol_code|code -=|val ="),
    ("Kmeralphabet", "kalArrayLength", "kmeralphabet", "KmerAlphabet.kmer_array_length", r"max_offset =|return|if self\._spacing"),
    ("Kmeralphabet", "kalCreate", "kmeralphabet", "KmerAlphabet.create_kmers", "."),
    ("Kmeralphabet", "kalContinuous", "kmeralphabet", "KmerAlphabet._create_continuous_kmers",
     r"end_radix_multiplier|alphabet_length =|kmer \+=|kmer = |kmers\[|prev_kmer =|code = seq_code|for i in|np\.empty"),
    ("Kmeralphabet", "kalSpaced", "kmeralphabet", "KmerAlphabet._create_spaced_kmers",
     r"max_offset =|kmer \+=|kmer = |kmers\[|code = seq_code|offset = |for [ij] in|np\.empty"),
    ("Kmeralphabet", "kalEq", "kmeralphabet", "KmerAlphabet.__eq__", "."),
    ("Kmeralphabet", "kalLen", "kmeralphabet", "KmerAlphabet.__len__", "."),
    ("Kmeralphabet", "kalEncodeDecode", "kmeralphabet", "KmerAlphabet.encode", "."),
    ("Kmeralphabet", "kalDecode", "kmeralphabet", "KmerAlphabet.decode", "."),
    ("Kmeralphabet", "kalToArrayForm", "kmeralphabet", "_to_array_form", "."),
    ("TableBuild", "ktCinit", "kmertable", "KmerTable.__cinit__", r"np\.zeros|self\._k ="),
    ("TableBuild", "bktCinit", "kmertable", "BucketKmerTable.__cinit__", r"np\.zeros|_n_buckets|self\._k ="),
    ("TableBuild", "ktFromSequences", "kmertable", "KmerTable.from_sequences", "."),
    ("TableBuild", "bktFromSequences", "kmertable", "BucketKmerTable.from_sequences", "."),
    ("TableBuild", "ktFromKmers", "kmertable", "KmerTable.from_kmers", "."),
    ("TableBuild", "bktFromKmers", "kmertable", "BucketKmerTable.from_kmers", "."),
    ("TableBuild", "ktFromSelection", "kmertable", "KmerTable.from_kmer_selection", "."),
    ("TableBuild", "bktFromSelection", "kmertable", "BucketKmerTable.from_kmer_selection", "."),
    ("TableBuild", "ktFromTables", "kmertable", "KmerTable.from_tables", r"^(?!cdef)"),
    ("TableBuild", "bktFromTables", "kmertable", "BucketKmerTable.from_tables", r"^(?!cdef)"),
    ("TableBuild", "ktFromPositions", "kmertable", "KmerTable.from_positions",
     r"length = |kmer_ptr\[0\] = |kmer_ptr \+=|ptr_array\[kmer\]|continue|positions = |\)\[0\] = length|for "),
    ("TableBuild", "ktCountKmers", "kmertable", "KmerTable._count_kmers", r"count_array\[|kmer = |for "),
    ("TableBuild", "ktCountMasked", "kmertable", "KmerTable._count_masked_kmers", r"count_array\[|kmer = |for |if mask"),
    ("TableBuild", "bktCountKmers", "kmertable", "BucketKmerTable._count_kmers", r"count_array\[|kmer = |for "),
    ("TableBuild", "bktCountMasked", "kmertable", "BucketKmerTable._count_masked_kmers", r"count_array\[|kmer = |for |if mask"),
    ("TableBuild", "ktAddKmers", "kmertable", "KmerTable._add_kmers", r"current_size|kmer_ptr|kmer = |for |if mask\["),
    ("TableBuild", "bktAddKmers", "kmertable", "BucketKmerTable._add_kmers", r"current_size|bucket_ptr|kmer_val_ptr|kmer = |for |if mask\["),
    ("TableBuild", "ktAddSelection", "kmertable", "KmerTable._add_kmer_selection", r"current_size|kmer_ptr|kmer = |seq_pos = |for "),
    ("TableBuild", "bktAddSelection", "kmertable", "BucketKmerTable._add_kmer_selection", r"current_size|bucket_ptr|kmer_val_ptr|kmer = |seq_pos = |for "),
    ("TableBuild", "countTableEntries", "kmertable", "_count_table_entries", r"^(?!cdef)"),
    ("TableBuild", "initCArrays", "kmertable", "_init_c_arrays", r"^(?!cdef)"),
    ("TableBuild", "appendEntries", "kmertable", "_append_entries", r"^(?!cdef)"),
    ("TableBuild", "equalCArrays", "kmertable", "_equal_c_arrays", r"^(?!cdef)"),
    ("TableBuild", "pickleCArrays", "kmertable", "_pickle_c_arrays", r"^(?!cdef .*[a-z]$)"),
    ("TableBuild", "unpickleCArrays", "kmertable", "_unpickle_c_arrays", r"^(?!cdef .*[a-z]$)"),
    ("TableBuild", "computeRefIds", "kmertable", "_compute_ref_ids", "."),
    ("TableBuild", "computeMasks", "kmertable", "_compute_masks", "."),
    ("TableBuild", "computeAlphabet", "kmertable", "_compute_alphabet", "."),
    ("TableBuild", "checkPositionShape", "kmertable", "_check_position_shape", "."),
    ("TableBuild", "checkSameAlphabet", "kmertable", "_check_same_kmer_alphabet", "."),
    ("TableBuild", "checkSameBuckets", "kmertable", "_check_same_buckets", "."),
    ("TableQuery", "ktMatch", "kmertable", "KmerTable.match",
     r"if kmer_mask\[i\]|kmer_ptr = |for |matches\[match_i|similar_kmers\(|if similarity_rule|sim_kmer = |kmers = self|_prepare_mask|kmer = kmers|^else|^self\._kmer_alph"),
    ("TableQuery", "bktMatch", "kmertable", "BucketKmerTable.match",
     r"if kmer_mask\[i\]|bucket_ptr = |bucket = |for |while |if self_kmer|matches\[match_i|bucket_ptr \+=|similar_kmers\(|if similarity_rule|sim_kmer = |kmers = self|_prepare_mask|other_kmer = |array_stop = |^else|^self\._kmer_alph"),
    ("TableQuery", "ktMatchTable", "kmertable", "KmerTable.match_table",
     r"kmer_ptr = |for |matches\[match_i|similar_kmers\(|if similarity_rule|sim_kmer = |_check_same|if .*!= NULL|^else|^self\._kmer_alph"),
    ("TableQuery", "bktMatchTable", "kmertable", "BucketKmerTable.match_table",
     r"bucket_ptr = |sim_bucket = |for |if self_kmer|_kmer = |matches\[match_i|similar_kmers\(|if similarity_rule|sim_kmer = |_check_same|if .*!= NULL|^else|^self\._kmer_alph"),
    ("TableQuery", "ktMatchSelection", "kmertable", "KmerTable.match_kmer_selection",
     r"_check_kmer_bounds|astype|kmer_ptr = |for |matches\[match_i|kmer = |seq_pos = "),
    ("TableQuery", "bktMatchSelection", "kmertable", "BucketKmerTable.match_kmer_selection",
     r"_check_kmer_bounds|astype|bucket_ptr = |bucket = |for |while |if self_kmer|matches\[match_i|bucket_ptr \+=|other_kmer = |seq_pos = |array_stop = "),
    ("TableQuery", "ktCount", "kmertable", "KmerTable.count", r"^(?!cdef)"),
    ("TableQuery", "bktCount", "kmertable", "BucketKmerTable.count", r"^(?!cdef)"),
    ("TableQuery", "ktGetKmers", "kmertable", "KmerTable.get_kmers", r"^(?!cdef [a-z0-9]+ [a-z_]+$)"),
    ("TableQuery", "bktGetKmers", "kmertable", "BucketKmerTable.get_kmers", r"^(?!cdef [a-z0-9]+\*? [a-z_]+$)"),
    ("TableQuery", "ktGetItem", "kmertable", "KmerTable.__getitem__", r"^(?!cdef)"),
    ("TableQuery", "bktGetItem", "kmertable", "BucketKmerTable.__getitem__", r"^(?!cdef)"),
    ("TableQuery", "ktContains", "kmertable", "KmerTable.__contains__", "."),
    ("TableQuery", "ktIter", "kmertable", "KmerTable.__iter__", "."),
    ("TableQuery", "ktReversed", "kmertable", "KmerTable.__reversed__", "."),
    ("TableQuery", "ktLen", "kmertable", "KmerTable.__len__", "."),
    ("TableQuery", "ktEq", "kmertable", "KmerTable.__eq__", r"^(?!cdef)"),
    ("TableQuery", "bktEq", "kmertable", "BucketKmerTable.__eq__", r"^(?!cdef)"),
    ("TableQuery", "ktState", "kmertable", "KmerTable.__getnewargs_ex__", "."),
    ("TableQuery", "bktState", "kmertable", "BucketKmerTable.__getnewargs_ex__", "."),
    ("TableQuery", "toString", "kmertable", "_to_string", "."),
    ("TableQuery", "checkKmerBounds", "kmertable", "_check_kmer_bounds", "."),
    ("TableQuery", "checkMultipleKmerBounds", "kmertable", "_check_multiple_kmer_bounds", "."),
    ("Masks", "prepareMask", "kmertable", "_prepare_mask", "."),
    ("Masks", "toKmerMask", "kmertable", "_to_kmer_mask", r"^(?!cdef [a-z0-9]+(\[:\])? [a-z_, ]+$)"),
    ("Selector", "minimize", "selector", "_minimize", r"^(?!cdef [a-z0-9]+(\[:\])? [a-z_, ]+$)"),
    ("Selector", "forwardArgcummin", "selector", "chunk_wise_forward_argcummin", r"^(?!cdef [a-z0-9]+ [a-z_, ]+$)"),
    ("Selector", "reverseArgcummin", "selector", "chunk_wise_reverse_argcummin", r"^(?!cdef [a-z0-9]+ [a-z_, ]+$)"),
    ("Selector", "minimizerInit", "selector", "MinimizerSelector.__init__", "."),
    ("Selector", "minimizerSelect", "selector", "MinimizerSelector.select", "."),
    ("Selector", "minimizerFromKmers", "selector", "MinimizerSelector.select_from_kmers", "."),
    ("Selector", "syncmerInit", "selector", "SyncmerSelector.__init__", "."),
    ("Selector", "syncmerSelect", "selector", "SyncmerSelector.select", "."),
    ("Selector", "syncmerFromKmers", "selector", "SyncmerSelector.select_from_kmers", r"^(?!cdef)"),
    ("Selector", "syncmerFilter", "selector", "SyncmerSelector._filter_syncmer_pos", "."),
    ("Selector", "cachedInit", "selector", "CachedSyncmerSelector.__init__", "."),
    ("Selector", "cachedSelect", "selector", "CachedSyncmerSelector.select", "."),
    ("Selector", "cachedFromKmers", "selector", "CachedSyncmerSelector.select_from_kmers", "."),
    ("Selector", "mincodeInit", "selector", "MincodeSelector.__init__", "."),
    ("Selector", "mincodeSelect", "selector", "MincodeSelector.select", "."),
    ("Selector", "mincodeFromKmers", "selector", "MincodeSelector.select_from_kmers", "."),
    ("Permutation", "randomMin", "permutation", "RandomPermutation.min", "."),
    ("Permutation", "randomMax", "permutation", "RandomPermutation.max", "."),
    ("Permutation", "randomPermute", "permutation", "RandomPermutation.permute", "."),
    ("Permutation", "frequencyInit", "permutation", "FrequencyPermutation.__init__", "."),
    ("Permutation", "frequencyMin", "permutation", "FrequencyPermutation.min", "."),
    ("Permutation", "frequencyMax", "permutation", "FrequencyPermutation.max", "."),
    ("Permutation", "frequencyFromTable", "permutation", "FrequencyPermutation.from_table", "."),
    ("Permutation", "frequencyPermute", "permutation", "FrequencyPermutation.permute", "."),
    ("Permutation", "invertMapping", "permutation", "_invert_mapping", r"^(?!cdef [a-z0-9]+ [a-z_]+$)"),
    ("Similarity", "ruleInit", "kmersimilarity", "ScoreThresholdRule.__init__", "."),
    ("Similarity", "similarKmers", "kmersimilarity", "ScoreThresholdRule.similar_kmers",
     r"^(?!cdef (int|int32|int64)(\[:\]|\[:,:\])? [a-z_]+$)"),
]
GEN_GROUPS = ["Kmeralphabet", "TableBuild", "TableQuery", "Masks", "Selector", "Permutation", "Similarity"]


def _gen_structure():
    """-> (lean text of the regenerated structural facts, {group: [lean names]})"""
    from common import paths
    from props import c10_extract as X
    d = os.path.join(paths.SRC, "biotite/sequence/align")
    srcs = {n: X.Source(os.path.join(d, n + ".pyx")) for n in
            ("kmeralphabet", "kmertable", "selector", "permutation", "kmersimilarity")}
    out = []
    for group, name, fname, q, rx in GEN_SPEC:
        lines = srcs[fname].lines(q, rx)
        if not lines:
            raise ValueError(f"{fname}.pyx {q}: no line matches {rx!r} (source changed shape)")
        out.append(f"/-- `{fname}.pyx` `{q}` -/\ndef {name} : List String := {X.lean_list(lines)}")
    # signature defaults and parameter order of every function that has parameters besides self, exception classes and
    # the guard of every raise, in source order
    defaults, params, errors = [], [], []
    for fname in ("kmeralphabet", "kmertable", "selector", "permutation", "kmersimilarity"):
        S = srcs[fname]
        for q in S.functions:
            ps = [p_ for p_ in S.params(q) if p_ not in ("self",)]
            if q.split(".")[-1].startswith("__") and q.split(".")[-1] not in ("__init__", "__cinit__", "__getitem__", "__contains__", "__eq__"):
                continue
            if ps:
                params.append((fname + ":" + q, ps))
            dv = S.defaults(q)
            if dv:
                defaults.append((fname + ":" + q, dv))
            rs = S.raises(q)
            if rs:
                errors.append((fname + ":" + q, list(zip(rs, S.guards(q)))))
    out.append("/-- default values of the optional parameters (every function of the anchored files that has any) -/\n"
               "def defaults : List (String × List (String × String)) := [" +
               ",\n  ".join(f"({X.lean_str(q)}, {X.lean_pairs(dv)})" for q, dv in defaults) + "]")
    out.append("/-- parameters in positional order -/\ndef params : List (String × List String) := [" +
               ",\n  ".join(f"({X.lean_str(q)}, {X.lean_list(ps)})" for q, ps in params) + "]")
    out.append("/-- exception class and guard of every `raise`, per function, in source order (which refusal wins) -/\n"
               "def errorPaths : List (String × List (String × String)) := [" +
               ",\n  ".join(f"({X.lean_str(q)}, {X.lean_pairs(er)})" for q, er in errors) + "]")
    return "\n".join(out)

# ---------------------------------------------------------------- naive reference (used by the oracle only)
def ref_offsets(k, sp):
    return list(range(k)) if sp is None else sorted(sp)


def ref_kmers(n, k, sp, seq):
    offs = ref_offsets(k, sp)
    span = offs[-1] + 1
    if len(seq) < span:
        raise ValueError("short")
    if any(c >= n for c in seq):
        raise KeyError("symbol")       # some rejection is expected (which one is not the property's business)
    return [sum(seq[i + o] * n ** (k - 1 - j) for j, o in enumerate(offs)) for i in range(len(seq) - span + 1)]


def ref_kmer_keep(k, sp, mask, length):
    """True = k-mer retained: no informative position of the k-mer is masked."""
    offs = ref_offsets(k, sp)
    span = offs[-1] + 1
    if mask is None:
        return [True] * max(0, length - span + 1)
    if len(mask) != length:
        raise IndexError("mask length")
    return [not any(mask[i + o] for o in offs) for i in range(length - span + 1)]


def ref_perm(perm, kmers):
    if perm == "-":
        return list(kmers)
    if perm == "rand":
        out = []
        for q in kmers:
            u = (LCG_A * q + 1) % 2**64
            out.append(u if u < 2**63 else u - 2**64)
        return out
    kind, vals = perm.split(":")
    if kind == "freq":
        counts = _parse_nats(vals)
        order = sorted(range(len(counts)), key=lambda i: (counts[i], i))
        rank = {q: r for r, q in enumerate(order)}
        return [rank[q] for q in kmers]
    vals = [int(x) for x in vals.split(",")] if vals != "_" else []
    return [vals[q] for q in kmers]


def ref_perm_range(perm, size):
    if perm == "-":
        return 0, size
    if perm == "rand":
        return -2**63, 2**64
    kind, vals = perm.split(":")
    return 0, len(vals.split(","))


def ref_minimizer(order, kmers, w):
    if w < 2 or len(kmers) < w:
        raise ValueError
    out = []
    for i in range(len(order) - w + 1):
        win = order[i:i + w]
        p = i + win.index(min(win))
        if not out or out[-1] != p:
            out.append(p)
    return [(p, kmers[p]) for p in out]


def _errline(e):
    """the exception class the documented contract prescribes for the refusal the reference raised"""
    if isinstance(e, KeyError):
        return "ERR:AlphabetError"
    return "ERR:" + type(e).__name__


def _refusal_problem(exp, got):
    """exp is 'ERR' (any refusal) or 'ERR:<Class>' (exactly this refusal); returns a key suffix or None"""
    if got.startswith("ok"):
        return "accepted-invalid"
    if exp != "ERR" and got != exp and got.startswith("ERR"):
        return "wrong-refusal"
    return None


def _mat_dim(mat):
    return int(round(len(mat.split(",")) ** 0.5))


def _rule_ctor(mat, thr):
    """ScoreThresholdRule(matrix, threshold): int32 threshold, symmetric matrix"""
    if not -2**31 <= thr < 2**31:
        raise OverflowError
    m = [int(x) for x in mat.split(",")]
    d = _mat_dim(mat)
    if any(m[i * d + j] != m[j * d + i] for i in range(d) for j in range(d)):
        raise ValueError


def _ref_similar(n, k, mat, thr):
    """ScoreThresholdRule from the property statement: total substitution score of the two k-mers >= threshold."""
    m = [int(x) for x in mat.split(",")]
    dim = int(round(len(m) ** 0.5))      # the matrix alphabet may be larger than the base alphabet (n symbols)

    def digits(q):
        return [(q // n ** (k - 1 - j)) % n for j in range(k)]

    def sim(q1, q2):
        return sum(m[a * dim + b] for a, b in zip(digits(q1), digits(q2))) >= thr
    return sim


def ref_sync_offsets(window, offs):
    norm = [window + o if o < 0 else o for o in offs]
    if any(o >= window or o < 0 for o in norm) or len(set(norm)) != len(norm):
        raise IndexError
    return norm


# ---------------------------------------------------------------- implementation adapter
class _Seq:
    """Duck-typed sequence for symbol codes the real Sequence setter may refuse."""

    def __init__(self, alphabet, code):
        self.alphabet, self.code = alphabet, code

    def __len__(self):
        return len(self.code)


def _entry_count(t, bucketed):
    lengths = t.__getstate__()[1]
    e = 4 if bucketed else 2
    return int(sum((int(l) - 2) // e for l in lengths if l))


def _run_ops(ops):
    import pickle

    import numpy as np

    import biotite.sequence as bseq
    import biotite.sequence.align as align
    from biotite.sequence.align.permutation import Permutation

    class TablePermutation(Permutation):
        def __init__(self, vals):
            self._t = np.array(vals, dtype=np.int64)
        min = property(lambda s: 0)
        max = property(lambda s: len(s._t) - 1)

        def permute(self, kmers):
            return self._t[kmers]

    st = {"ka": None, "base": None, "n": 0, "k": 0, "sp": None, "tables": []}

    class Guard:
        """Mutable arguments handed to the real code: they must come back bit-identical, and the finished
        object must not alias them - so they are scrambled afterwards and later ops must not notice."""

        def __init__(self):
            self.items = []

        def add(self, a):
            if isinstance(a, np.ndarray):
                self.items.append((a, a.copy(), a.dtype, a.shape))
            return a

        def changed(self):
            return any(a.dtype != d or a.shape != sh or not np.array_equal(a, c) for a, c, d, sh in self.items)

        def scramble(self):
            for a, _c, _d, _sh in self.items:
                if not a.flags.writeable:
                    continue
                if a.dtype == bool:
                    a[...] = ~a
                elif a.size:
                    a[...] = a[::-1].copy()

    def spacing_array(sp):
        return L(np.array(sp, dtype=np.int64))

    def scramble_spacing(a):
        """another valid-looking model with the same largest offset where possible (a stale alias must show)."""
        if not a.flags.writeable:
            return
        if len(a) >= 3:
            order = np.argsort(a, kind="stable")
            i0, i1 = order[0], order[1]
            lo = a[i0]
            a[i0] = a[i1]
            a[i1] = lo
            if np.array_equal(np.sort(a), a):      # was unsorted before: nothing else to do
                pass
            mid = order[1]
            if a[order[2]] - a[mid] >= 2:
                a[mid] += 1
            elif a[mid] - 1 > min(a[i0], a[i1]) - 1 and (a[mid] - 1) not in a:
                a[mid] -= 1
        elif len(a) == 2:
            lo, hi = (0, 1) if a[0] <= a[1] else (1, 0)
            if a[hi] - a[lo] >= 2:
                a[lo] += 1
            elif a[lo] >= 1:
                a[lo] -= 1
            else:
                a[lo], a[hi] = a[hi], a[lo]

    import zlib
    LAY = {"on": True, "op": "", "i": 0}

    def L(a, rejectable=True):
        """The same values in another memory layout / dtype (chosen deterministically per op and argument):
        the property does not depend on how an argument array is laid out in memory.
        rejectable=False: only layouts the typed memoryviews accept (strides), no read-only / other dtype -
        used for the 2nd, 3rd, ... k-mer array of from_kmers / from_kmer_selection, where a rejection after the
        first array has been counted crashes the interpreter (known finding C10/ctor/crash-after-partial-count)."""
        if not LAY["on"] or a.size == 0:
            return a
        LAY["i"] += 1
        h = zlib.crc32(f"{LAY['op']}#{LAY['i']}".encode())
        if not rejectable and a.ndim == 1 and h % 7 in (3, 5):
            h += 1
        if rejectable and a.ndim == 1 and (h // 49) % 5 == 0:
            w3 = (h // 245) % 3            # the same values as list / tuple / byte-swapped array
            if w3 == 0:
                return a.tolist()
            if w3 == 1:
                return tuple(a.tolist())
            if a.dtype != bool and a.dtype.itemsize > 1:
                return a.astype(a.dtype.newbyteorder(">"))
        if a.ndim == 1:
            v = h % 7
            if v == 1:                                   # every second element of a longer buffer
                base = np.zeros(2 * len(a), dtype=a.dtype)
                base[::2] = a
                return base[::2]
            if v == 2:                                   # negative stride
                return a[::-1].copy()[::-1]
            if v == 3:                                   # read-only
                b = a.copy()
                b.setflags(write=False)
                return b
            if v == 4:                                   # column of a wider 2-D array
                wide = np.zeros((len(a), 3), dtype=a.dtype)
                wide[:, 1] = a
                return wide[:, 1]
            if v == 5:                                   # another castable dtype
                if a.dtype == np.int64 and a.min() >= 0 and a.max() < 2**31:
                    return a.astype([np.int32, np.uint32, np.uint64][(h // 7) % 3])
                if a.dtype == np.uint8:
                    return a.astype([np.uint16, np.uint32, np.uint64][(h // 7) % 3])
            return a
        if a.ndim == 2:
            if a.min() >= 0 and a.max() < 2**31:
                a = a.astype([np.int64, np.uint32, np.uint32, np.int32][(h // 7) % 4])
            v = h % 7
            if v == 1:
                return np.asfortranarray(a)
            if v == 2:                                   # column slice of a wider array
                wide = np.zeros((a.shape[0], a.shape[1] + 1), dtype=a.dtype)
                wide[:, :a.shape[1]] = a
                return wide[:, :a.shape[1]]
            if v == 3:                                   # transposed view of a (2, n) array
                return a.T.copy().T
            if v == 4:                                   # every second row
                base = np.zeros((2 * a.shape[0], a.shape[1]), dtype=a.dtype)
                base[::2] = a
                return base[::2]
            if v == 5:
                b = a.copy()
                b.setflags(write=False)
                return b
            if v == 6:                                   # second column block of a wider array
                wide = np.zeros((a.shape[0], a.shape[1] + 2), dtype=a.dtype)
                wide[:, 2:] = a
                return wide[:, 2:]
            return a
        return a

    def S(x, limit=None, signed_only=False):
        """the same integer as Python int or as a NumPy scalar of some width (chosen per op and argument).
        limit: a value that must also fit the chosen type (n**k for k: narrower types overflow in len(), known finding)"""
        if not LAY["on"]:
            return x
        LAY["i"] += 1
        h = zlib.crc32(f"{LAY['op']}#S{LAY['i']}".encode())
        types = [None, np.int64, np.int32, np.uint32, np.uint64, np.int16, np.uint16, np.int8, np.uint8, None]
        ty = types[h % len(types)]
        if ty is None or (signed_only and np.iinfo(ty).min == 0):
            return x
        info = np.iinfo(ty)
        if info.min <= x <= info.max and (limit is None or limit <= info.max):
            return ty(x)
        return x

    def i64(xs, rejectable=True):
        return L(np.array(xs, dtype=np.int64), rejectable)

    def boolarr(xs, rejectable=True):
        return L(np.array(xs, dtype=bool), rejectable)

    def mkseq(codes):
        code = L(np.array(codes, dtype=st.get("cdtype", np.uint8)))
        if all(c < st["n"] for c in codes):
            s = bseq.GeneralSequence(st["base"])
            s.code = code
            return s
        return _Seq(st["base"], code)

    def mkperm(p, kalph):
        if p == "-":
            return None
        if p == "rand":
            return align.RandomPermutation()
        if p.startswith("ft"):
            return align.FrequencyPermutation.from_table(st["tables"][int(p[2:])][0])
        kind, vals = p.split(":")
        if kind == "freq":
            return align.FrequencyPermutation(kalph, i64(_parse_nats(vals)))
        return TablePermutation([int(x) for x in vals.split(",")] if vals != "_" else [])

    def mkrule(mat, thr):
        vals = [int(x) for x in mat.split(",")]
        dim = int(round(len(vals) ** 0.5))
        m = np.array(vals, dtype=np.int32).reshape(dim, dim)
        # the matrix alphabet may be larger than the base alphabet of the k-mers (it must extend it)
        malph = st["base"] if dim == st["n"] else bseq.LetterAlphabet("ABCDEFGHIJKLMNOPQRSTUVWXYZ"[:dim])
        # the score array in several spellings: int32 / int64, own array or a view of a larger buffer (block, transposed
        # block); the rule must hold its own copy: the caller's buffer is overwritten right after the rule was built
        LAY["i"] += 1
        h = zlib.crc32(f"{LAY['op']}#M{LAY['i']}".encode()) if LAY["on"] else 0
        dt = [np.int32, np.int32, np.int64, np.int32][h % 4]
        buf = np.zeros((dim + 2, dim + 3), dtype=dt)
        kind = (h // 4) % 4
        if kind == 0:
            arr = m.astype(dt)
            base_arr = arr
        elif kind == 1:
            arr = buf[1:dim + 1, 2:dim + 2]
            arr[...] = m
            base_arr = buf
        elif kind == 2:
            arr = buf[:dim, :dim].T
            arr[...] = m
            base_arr = buf
        else:
            base_arr = np.zeros((2 * dim, dim), dtype=dt)
            arr = base_arr[::2]
            arr[...] = m
        before = arr.copy()
        rule = align.ScoreThresholdRule(align.SubstitutionMatrix(malph, malph, arr), S(int(thr)))
        if not np.array_equal(arr, before):
            raise RuntimeError("matrix-argument-modified")
        base_arr[...] = 9 - 2 * base_arr + np.arange(base_arr.shape[1], dtype=dt)      # asymmetric garbage
        return rule

    def mkqseq(codes, qa):
        """query sequence over a prefix alphabet of another size or over foreign symbols"""
        alph = bseq.LetterAlphabet("ZYXWVUTSRQPONMLK"[:8]) if qa == "f" else \
            bseq.LetterAlphabet("ABCDEFGHIJKLMNOPQRSTUVWXYZ"[:int(qa[1:])])
        code = L(np.array(codes, dtype=np.uint8))
        if all(c < len(alph) for c in codes):
            s = bseq.GeneralSequence(alph)
            s.code = code
            return s
        return _Seq(alph, code)

    def add(t, bucketed):
        st["tables"].append((t, bucketed))
        return f"ok {_entry_count(t, bucketed)}"

    def tab(i):
        i = int(i)
        return st["tables"][i] if i < len(st["tables"]) else None

    def pairs(pos, kmers):
        pos = np.asarray(pos)
        if pos.dtype == bool:
            pos = np.where(pos)[0]
        return "ok " + _tuples(zip(pos.tolist(), np.asarray(kmers).tolist()))

    def unsafe(w):
        """ops of the memory-unsafe known-finding classes must never run inside a multi-op case (they have their own
        single-purpose forked children: kinds probe / npk / ctor-reject): refuse to execute them here"""
        c_ = w[0]
        code_args = {"get": [2], "has": [2], "count": [2], "matchsel": [2, 3], "kms": [3], "sel": [3, 4],
                     "split": [1], "decode": [1], "simk": [1]}.get(c_, [])
        for i_ in code_args:
            if i_ < len(w) and any(tok.startswith("-") and tok[1:].isdigit() for tok in w[i_].replace(";", ",").split(",")):
                return True                 # negative k-mer codes / positions
        if c_ in ("seqs", "seqsx", "match", "matchq", "matchsim", "mask") and st.get("sp"):
            need = (st["k"] - 1) + max(st["sp"]) + 1
            if c_ == "mask":
                return len(w[1]) < need
            span_ = max(st["sp"]) + 1
            if c_ in ("seqs", "seqsx") and w[4] != "-":
                if any(len(_parse_nats(x)) < span_ for x in w[3].split(";")):
                    return False            # a sequence shorter than the span is refused before any mask is read
                return any(m != "n" and len(m) < need for m in w[4].split(";"))
            if c_ in ("match", "matchq", "matchsim") and w[3] != "-":
                if len(_parse_nats(w[2])) < span_:
                    return False
                return len(w[3]) < need
        return False

    def one(op):
        w = op.split()
        c = w[0]
        if unsafe(w):
            return "UNSAFE-OP-NOT-RUN"
        if c == "alpheq":
            def mk(n, k, sp):
                base = bseq.LetterAlphabet("ABCDEFGHIJKLMNOPQRSTUVWXYZ"[:int(n)])
                return align.KmerAlphabet(base, int(k), None if sp == "-" else _parse_nats(sp))
            a1, a2 = mk(*w[1:4]), mk(*w[4:7])
            return "ok " + ("true" if a1 == a2 else "false") + " " + ("true" if a2 == a1 else "false")
        if c == "alph":
            n, k = int(w[1]), int(w[2])
            sp = None if w[3] == "-" else _parse_nats(w[3])
            st.update(ka=None, n=n, k=k, sp=sp)
            st["base"] = (bseq.LetterAlphabet("ABCDEFGHIJKLMNOPQRSTUVWXYZ"[:n]) if n <= 26
                          else bseq.Alphabet(list(range(n))))       # more than 256 symbols: 16-bit symbol codes
            st["cdtype"] = np.uint8 if n <= 255 else np.uint16
            arg = sp
            if sp is not None and sp and sp == sorted(set(sp)) and sp[0] == 0 and sum(sp) % 2 == 0:
                arg = "".join("1" if i in sp else "0" for i in range(sp[-1] + 1))   # string form of the same model
            elif sp is not None:
                arg = spacing_array(sp)                                           # int64 ndarray, as given (maybe unsorted)
            st["ka"] = align.KmerAlphabet(st["base"], S(k, n ** k, True), arg)
            line = f"ok {len(st['ka'])}"
            if isinstance(arg, np.ndarray):
                if arg.tolist() != list(sp):
                    line += " |argument-modified"
                scramble_spacing(arg)
            return line
        ka = st["ka"]
        if ka is None:
            return "no-alph"
        if c == "kmers":
            return "ok " + _nats(ka.create_kmers(L(np.array(_parse_nats(w[1]), dtype=st.get("cdtype", np.uint8)))))
        if c == "fuse":
            return f"ok {int(ka.fuse(i64(_parse_nats(w[1]))))}"
        if c == "simk":
            rule = mkrule(w[2], w[3])
            try:
                rule.similar_kmers(ka, (int(w[1]) + 1) % max(1, len(ka)))      # the rule object is reused: no state may stick
            except Exception:  # noqa: BLE001
                pass
            return "ok " + _nats(sorted(int(x) for x in rule.similar_kmers(ka, S(int(w[1])))))
        if c == "mask":
            m = boolarr(_parse_bits(w[1]))
            from biotite.sequence.align import kmertable as KT
            return "ok " + _bits(KT._prepare_mask(ka, m, len(m)))
        if c in ("seqs", "kms", "sel"):
            nb = None if w[1] == "d" else int(w[1])
            cls = align.KmerTable if nb is None else align.BucketKmerTable
            kw = {} if nb is None else {"n_buckets": S(nb)}
            g = Guard()
            LAY["guard"] = g
            sp_arr = None
            if c == "seqs":
                seqs = [mkseq(x) for x in _parse_lists(w[3])]
                for sq in seqs:
                    g.add(sq.code)
                rid = None if w[2] == "-" else g.add(i64(_parse_nats(w[2])))
                ms = _parse_masks(w[4], len(seqs))
                ms = None if ms is None else [None if m is None else g.add(boolarr(m)) for m in ms]
                sp_arr = None if st["sp"] is None else spacing_array(st["sp"])
                t = cls.from_sequences(S(st["k"], st["n"] ** st["k"], True), seqs, rid, ms, alphabet=st["base"], spacing=sp_arr, **kw)
            elif c == "kms":
                kms = [g.add(i64(x, rejectable=(j == 0))) for j, x in enumerate(_parse_lists(w[3]))]
                rid = None if w[2] == "-" else g.add(i64(_parse_nats(w[2])))
                ms = _parse_masks(w[4], len(kms))
                # a read-only mask is rejected inside the count pass as well (same crash class for j > 0)
                ms = None if ms is None else [None if m is None else g.add(boolarr(m, rejectable=(j == 0)))
                                              for j, m in enumerate(ms)]
                t = cls.from_kmers(ka, kms, rid, ms, **kw)
            else:
                poss = [g.add(i64(x)) for x in _parse_lists(w[3])]
                kms = [g.add(i64(x, rejectable=(j == 0))) for j, x in enumerate(_parse_lists(w[4]))]
                rid = None if w[2] == "-" else g.add(i64(_parse_nats(w[2])))
                t = cls.from_kmer_selection(ka, poss, kms, rid, **kw)
            modified = g.changed() or (sp_arr is not None and sp_arr.tolist() != list(st["sp"]))
            g.scramble()
            if sp_arr is not None:
                scramble_spacing(sp_arr)
            return add(t, nb is not None) + (" |argument-modified" if modified else "")
        if c == "seqsx":
            auto = w[1] == "a"
            nb = None if w[1] in ("d", "a") else int(w[1])
            cls = align.KmerTable if w[1] == "d" else align.BucketKmerTable
            kw = {} if nb is None else {"n_buckets": S(nb)}
            msz = w[5].split(",")
            seqs = []
            for codes, m_ in zip(_parse_lists(w[3]), msz):
                letters = "ZYXWVUTSRQPONMLK"[:int(m_[1:])] if m_.startswith("f") else "ABCDEFGHIJKLMNOPQRSTUVWXYZ"[:int(m_)]
                sq = bseq.GeneralSequence(bseq.LetterAlphabet(letters))
                sq.code = L(np.array(codes, dtype=np.uint8))
                seqs.append(sq)
            rid = None if w[2] == "-" else i64(_parse_nats(w[2]))
            ms = _parse_masks(w[4], len(seqs))
            ms = None if ms is None else [None if m is None else boolarr(m) for m in ms]
            sp_arr = None if st["sp"] is None else spacing_array(st["sp"])
            explicit = st["base"] if w[6] == "e" else None
            t = cls.from_sequences(S(st["k"], st["n"] ** st["k"], True), seqs, rid, ms, alphabet=explicit, spacing=sp_arr, **kw)
            line = add(t, w[1] != "d")
            if auto:
                # default bucket number: a prime, at least n_kmers / 0.8 (the documented load factor)
                n_km = sum(max(0, len(sq) - (max(st["sp"]) + 1 if st["sp"] else st["k"]) + 1) for sq in seqs)
                nbk = int(t.n_buckets)
                want = int(n_km / 0.8)
                clipped = len(t)
                if not (nbk == clipped or (nbk >= want and all(nbk % d for d in range(2, int(nbk ** 0.5) + 1)) and nbk >= 2)):
                    line += " |bad-default-buckets"
            return line
        if c == "posbad":
            arr = np.zeros((2, 3), dtype=np.int64) if w[1] == "3col" else np.zeros(4, dtype=np.int64)
            align.KmerTable.from_positions(ka, {0: arr})
            return "ok"
        if c == "pos":
            g = Guard()
            d = {k: g.add(L(np.array(ps, dtype=np.int64).reshape(-1, 2))) for k, ps in _parse_dict(w[1])}
            t = align.KmerTable.from_positions(ka, d)
            modified = g.changed()
            g.scramble()
            return add(t, False) + (" |argument-modified" if modified else "")
        if c == "merge":
            ts = [tab(i) for i in _parse_nats(w[1])]
            if any(t is None for t in ts):
                return "no-table"
            cls = align.BucketKmerTable if ts[0][1] else align.KmerTable
            return add(cls.from_tables([t for t, _ in ts]), ts[0][1])
        if c in ("pickle", "dump", "match", "matchq", "matchsim", "matchsel", "count", "getkmers", "get"):
            tb = tab(w[1])
            if tb is None:
                return "no-table"
            t, bucketed = tb
            if c == "pickle":
                t2 = pickle.loads(pickle.dumps(t))
                st["tables"].append((t2, bucketed))
                return "ok " + ("true" if t2 == t else "false")
            if c == "dump":
                kms = t.get_kmers()
                m = t.match_kmer_selection(np.arange(len(kms)), kms)
                return "ok " + _tuples((kms[i], r, p) for i, r, p in m.tolist())
            if c == "match":
                try:
                    t.match(mkseq(list(reversed(_parse_nats(w[2]))) + [0]))
                except Exception:  # noqa: BLE001
                    pass
                mask = None if w[3] == "-" else boolarr(_parse_bits(w[3]))
                return "ok " + _tuples(t.match(mkseq(_parse_nats(w[2])), ignore_mask=mask).tolist())
            if c == "matchq":
                mask = None if w[3] == "-" else boolarr(_parse_bits(w[3]))
                return "ok " + _tuples(t.match(mkqseq(_parse_nats(w[2]), w[4]), ignore_mask=mask).tolist())
            if c == "matchsim":
                mask = None if w[3] == "-" else boolarr(_parse_bits(w[3]))
                return "ok " + _tuples(t.match(mkseq(_parse_nats(w[2])), similarity_rule=mkrule(w[4], w[5]),
                                               ignore_mask=mask).tolist())
            if c == "matchsel":
                return "ok " + _tuples(t.match_kmer_selection(i64(_parse_nats(w[2])), i64(_parse_nats(w[3]))).tolist())
            if c == "count":
                if w[2] == "all":
                    return "ok " + _nats(t.count())
                return "ok " + _nats(t.count(i64(_parse_nats(w[2]))))
            if c == "getkmers":
                return "ok " + _nats(t.get_kmers())
            if c == "get":
                return "ok " + _tuples(t[S(int(w[2]))].tolist())
        if c in ("matchtab", "matchtabsim", "eq"):
            a, b = tab(w[1]), tab(w[2])
            if a is None or b is None:
                return "no-table"
            if c == "matchtabsim":
                return "ok " + _tuples(a[0].match_table(b[0], similarity_rule=mkrule(w[3], w[4])).tolist())
            if c == "eq":
                return "ok " + ("true" if a[0] == b[0] else "false")
            return "ok " + _tuples(a[0].match_table(b[0]).tolist())
        def decoy(fn, arr):
            """objects are reused: a first call on other input must not influence the second one"""
            try:
                fn(np.asarray(arr)[::-1].copy())
            except Exception:  # noqa: BLE001
                pass

        if c in ("minim", "minimq"):
            sel = align.MinimizerSelector(ka, S(int(w[1])), mkperm(w[2], ka))
            if c == "minimq":
                decoy(lambda x: sel.select(mkqseq(x.tolist(), w[4]), alphabet_check=False), np.array(_parse_nats(w[3]) + [0]))
                return pairs(*sel.select(mkqseq(_parse_nats(w[3]), w[4]), alphabet_check=(w[5] == "1")))
            decoy(sel.select_from_kmers, np.array(_parse_nats(w[3]) + [0], dtype=np.int64))
            return pairs(*sel.select_from_kmers(i64(_parse_nats(w[3]))))
        if c in ("sync", "synck", "csynck", "syncq"):
            s = int(w[1])
            offs = tuple(S(int(x)) for x in w[3].split(","))
            smer_alph = align.KmerAlphabet(st["base"], s)
            perm = mkperm(w[2], smer_alph)
            if c == "syncq":
                cls_ = align.CachedSyncmerSelector if w[7] == "1" else align.SyncmerSelector
                sel = cls_(st["base"], S(st["k"], st["n"] ** st["k"], True), S(s), perm, offs)
                decoy(lambda x: sel.select(mkqseq(x.tolist(), w[5]), alphabet_check=False), np.array(_parse_nats(w[4]) + [0]))
                return pairs(*sel.select(mkqseq(_parse_nats(w[4]), w[5]), alphabet_check=(w[6] == "1")))
            sel = align.SyncmerSelector(st["base"], st["k"], S(s), perm, offs)
            if c == "sync":
                return pairs(*sel.select(mkseq(_parse_nats(w[4]))))
            kms = i64(_parse_nats(w[4]))
            if c == "csynck":
                csel = align.CachedSyncmerSelector(st["base"], st["k"], s, perm, offs)
                decoy(csel.select_from_kmers, np.array(_parse_nats(w[4]) + [0], dtype=np.int64))
                return pairs(*csel.select_from_kmers(kms))
            decoy(sel.select_from_kmers, np.array(_parse_nats(w[4]) + [0], dtype=np.int64))
            plain = pairs(*sel.select_from_kmers(kms))
            if len(ka) <= 700:
                cached = pairs(*align.CachedSyncmerSelector(st["base"], st["k"], s, perm, offs).select_from_kmers(kms))
                if cached != plain:
                    return plain + " |cached " + cached
            return plain
        if c in ("minc", "mincq"):
            comp = S(int(w[1])) if "/" not in w[1] else int(w[1].split("/")[0]) / int(w[1].split("/")[1])
            sel = align.MincodeSelector(ka, comp, mkperm(w[2], ka))
            if c == "mincq":
                return pairs(*sel.select(mkqseq(_parse_nats(w[3]), w[4]), alphabet_check=(w[5] == "1")))
            decoy(sel.select_from_kmers, np.array(_parse_nats(w[3]) + [0], dtype=np.int64))
            return pairs(*sel.select_from_kmers(i64(_parse_nats(w[3]))))
        if c in ("has", "iter", "rev", "props", "str"):
            tb = tab(w[1])
            if tb is None:
                return "no-table"
            t, bucketed = tb
            if c == "has":
                return "ok " + ("true" if S(int(w[2])) in t else "false")
            if c == "iter":
                return "ok " + _nats(list(t))
            if c == "rev":
                return "ok " + _nats(list(reversed(t)))
            if c == "props":
                sp_ = t.kmer_alphabet.spacing
                return (f"ok len={len(t)} k={t.k} n={len(t.alphabet)} nb={t.n_buckets if bucketed else '-'} "
                        f"sp={'-' if sp_ is None else _nats(sp_)}")
            txt = str(t).replace(" ", "").replace("\n", "|")
            return "ok " + (txt if txt else "_")
        if c == "split":
            return "ok " + _nats(ka.split(S(int(w[1]))))
        if c == "decode":
            return "ok " + "".join(ka.decode(S(int(w[1]))))
        if c == "encode":
            letters = "".join("ABCDEFGHIJKLMNOPQRSTUVWXYZ"[x] for x in _parse_nats(w[1]))
            return f"ok {int(ka.encode(letters))}"
        if c == "arrlen":
            return f"ok {int(ka.kmer_array_length(S(int(w[1]))))}"
        return "bad-op"

    out = []

    def refused(e):
        """a refused call must leave its (array) arguments untouched"""
        g = LAY.get("guard")
        LAY["guard"] = None
        return "ERR:" + type(e).__name__ + (" |argument-modified" if g is not None and g.changed() else "")

    for op in ops:
        LAY.update(on=True, op=op, i=0, guard=None)
        try:
            out.append(one(op))
            continue
        except Exception as e:  # noqa: BLE001
            g = LAY.get("guard")
            if g is not None and g.changed():
                out.append(refused(e))
                continue
            # possibly a layout / dtype / spelling (tuple index!) / read-only buffer the real code rejects:
            # redo with plain arguments - a genuine error shows up again
        LAY.update(on=False, i=0, guard=None)
        try:
            out.append(one(op))
        except Exception as e:  # noqa: BLE001
            out.append(refused(e))
    return out


_CACHE = {}


def _preload():
    """Import the real modules in the parent so that forked children do not pay for the import."""
    import numpy  # noqa: F401

    import biotite.sequence  # noqa: F401
    import biotite.sequence.align  # noqa: F401
    from biotite.sequence.align import kmertable, permutation  # noqa: F401


def run_impl(case):
    from common import sandbox
    _preload()
    key = "\n".join(case["ops"])
    r = sandbox.run_forked(_run_ops, case["ops"], timeout=120)
    if r[0] == "ok":
        out = r[1]
    elif r[0] == "err":
        out = [f"UNCAUGHT:{r[1]}"] * len(case["ops"])
    else:
        out = ["CRASH"] * len(case["ops"])
    if len(_CACHE) > 20000:
        _CACHE.clear()
    _CACHE[key] = out
    return out


def _impl(case):
    key = "\n".join(case["ops"])
    return _CACHE[key] if key in _CACHE else run_impl(case)


# ---------------------------------------------------------------- property oracle (independent of the Lean model)
def oracle(case):
    if case.get("kind") == "similarity":
        return _oracle_similarity(case)
    if case.get("kind") == "mincode-dtype":
        return _oracle_mincode_dtype(case)
    if case.get("kind") == "ctor-reject":
        return _oracle_ctor_reject(case)
    if case.get("kind") in ("npk", "khash"):
        return _oracle_alphabet_misc(case)
    if case.get("kind") == "probe":
        return _oracle_probe(case)
    if not case.get("ops"):
        return []
    out = _impl(case)
    v = []
    A = {"n": 0, "k": 0, "sp": None, "ok": False}
    tables = []          # reference tables: dict(items=[(kmer, ref, pos)], bucketed=bool, nb=int|None, tainted=bool)
    strict = case.get("kind") != "malformed"

    def bad(op, key, exp, got, tainted=False):
        v.append((K_MASK if tainted else key, f"op `{op}`: real code gave `{got[:160]}`, the property requires `{exp[:160]}`"))

    for op, got in zip(case["ops"], out):
        w = op.split()
        c = w[0]
        if got == "CRASH" or got.startswith("UNCAUGHT"):
            # the whole case ran in one child: find the first op whose prefix kills it
            from common import sandbox
            culprit = op
            for n_ops in range(1, len(case["ops"]) + 1):
                if sandbox.run_forked(_run_ops, case["ops"][:n_ops], timeout=120)[0] != "ok":
                    culprit = case["ops"][n_ops - 1]
                    break
            v.append((f"C10/{culprit.split()[0]}/crash", f"op `{culprit}` crashed the interpreter ({got}); ops before it: "
                      f"{case['ops'][:case['ops'].index(culprit)]}"))
            break
        if got.endswith(" |bad-default-buckets"):
            v.append(("C10/from_sequences/default-bucket-number",
                      f"op `{op}`: the default n_buckets is not a prime >= n_kmers / 0.8 (nor the alphabet size)"))
            got = got[:-len(" |bad-default-buckets")]
        if got.endswith(" |argument-modified"):
            v.append((f"C10/{c}/argument-modified",
                      f"op `{op}`: an array passed as argument (spacing / k-mers / mask / positions / ref ids / sequence "
                      f"code) was modified by the call"))
            got = got[:-len(" |argument-modified")]
        try:
            if c == "alpheq":
                def valid_a(k_, sp_):
                    sp_ = None if sp_ == "-" else _parse_nats(sp_)
                    return int(k_) >= 2 and (sp_ is None or (len(sp_) == int(k_) and len(set(sp_)) == int(k_)))
                if valid_a(w[2], w[3]) and valid_a(w[5], w[6]):
                    def norm(n_, k_, sp_):
                        return (int(n_), int(k_), None if sp_ == "-" else tuple(sorted(_parse_nats(sp_))))
                    e = "true" if norm(*w[1:4]) == norm(*w[4:7]) else "false"
                    if got != f"ok {e} {e}":
                        bad(op, "C10/alphabet-eq/mismatch", f"ok {e} {e}", got)
                continue
            if c == "alph":
                n, k = int(w[1]), int(w[2])
                sp = None if w[3] == "-" else _parse_nats(w[3])
                valid = k >= 2 and (sp is None or (len(sp) == k and len(set(sp)) == k))
                A.update(n=n, k=k, sp=sp, ok=valid and got.startswith("ok"))
                if valid and got != f"ok {n ** k}":
                    bad(op, "C10/alph/size", f"ok {n ** k}", got)
                if not valid and got.startswith("ok"):
                    bad(op, "C10/alph/accepted-invalid", "ERR", got)
                continue
            if not A["ok"]:
                continue
            n, k, sp = A["n"], A["k"], A["sp"]
            size = n ** k
            def xperm(tok):
                if tok.startswith("ft"):
                    ti = int(tok[2:])
                    if ti >= len(tables) or tables[ti]["nb"] is not None:
                        raise KeyError
                    tsz = tables[ti]["alph"][0] ** tables[ti]["alph"][1]
                    return "freq:" + _nats(sum(1 for x in tables[ti]["items"] if x[0] == q) for q in range(tsz))
                return tok
            if c in ("split", "decode"):
                q = int(w[1])
                if q >= size:
                    if got.startswith("ok"):
                        bad(op, f"C10/{c}/accepted-invalid", "ERR", got)
                else:
                    digs = [(q // n ** (k - 1 - j)) % n for j in range(k)]
                    exp = "ok " + (_nats(digs) if c == "split" else "".join("ABCDEFGHIJKLMNOPQRSTUVWXYZ"[d] for d in digs))
                    if got != exp:
                        bad(op, f"C10/{c}/mismatch", exp, got)
                continue
            if c == "encode":
                codes = _parse_nats(w[1])
                if len(codes) == k and all(x < n for x in codes):
                    exp = "ok " + str(sum(x * n ** (k - 1 - j) for j, x in enumerate(codes)))
                    if got != exp:
                        bad(op, "C10/encode/mismatch", exp, got)
                elif got.startswith("ok"):
                    bad(op, "C10/encode/accepted-invalid", "ERR", got)
                continue
            if c == "arrlen":
                span = (max(sp) + 1) if sp is not None else k
                exp = f"ok {int(w[1]) - span + 1}"
                if got != exp:
                    bad(op, "C10/kmer_array_length/mismatch", exp, got)
                continue
            if c in ("minimq", "mincq", "syncq"):
                qa, chk = (w[4], w[5]) if c != "syncq" else (w[5], w[6])
                codes = _parse_nats(w[3] if c != "syncq" else w[4])
                ctor_bad = (c == "minimq" and int(w[1]) < 2) or (c == "mincq" and int(w[1]) < 1)
                if not ctor_bad and chk == "1" and (qa == "f" or int(qa[1:]) > n):
                    if got.startswith("ok"):
                        bad(op, f"C10/{c}/accepted-invalid", "ERR (alphabet check)", got)
                    continue
                if c == "syncq":
                    c, w = "sync", ["sync", w[1], w[2], w[3], w[4]]
                else:
                    try:
                        kms_ = ref_kmers(n, k, sp, codes)
                    except (ValueError, KeyError):
                        if got.startswith("ok"):
                            bad(op, f"C10/{c}/accepted-invalid", "ERR", got)
                        continue
                    c = "minim" if c == "minimq" else "minc"
                    w = [c, w[1], w[2], _nats(kms_)]
            if c in ("minim", "minc"):
                try:
                    w = [w[0], w[1], xperm(w[2]), w[3]]
                except KeyError:
                    continue
            if c == "fuse":
                codes = _parse_nats(w[1])
                if len(codes) == k and all(x < n for x in codes):
                    exp = "ok " + str(sum(x * n ** (k - 1 - j) for j, x in enumerate(codes)))
                    if got != exp:
                        bad(op, "C10/fuse/value", exp, got)
                elif got.startswith("ok"):
                    key = K_FUSE if (len(codes) == k and max(codes) == n) else "C10/fuse/accepted-invalid"
                    bad(op, key, "ERR:AlphabetError", got)
                continue
            if c == "posbad":
                exp = "ERR:IndexError" if w[1] == "3col" else "ERR:ValueError"
                pr = _refusal_problem(exp, got)
                if pr:
                    bad(op, f"C10/from_positions/{pr}", exp, got)
                continue
            if c == "simk":
                q = int(w[1])
                exp = None
                try:
                    _rule_ctor(w[2], int(w[3]))
                    if _mat_dim(w[2]) < n:
                        raise ValueError
                    if q >= size:
                        raise KeyError
                except (ValueError, OverflowError, KeyError) as e_:
                    exp = _errline(e_)
                if exp:
                    pr = _refusal_problem(exp, got)
                    if pr:
                        bad(op, f"C10/similar_kmers/{pr}", exp, got)
                else:
                    sim = _ref_similar(n, k, w[2], int(w[3]))
                    exp = "ok " + _nats(x for x in range(size) if sim(q, x))
                    if got != exp:
                        bad(op, "C10/similar_kmers/mismatch", exp, got)
                continue
            if c == "kmers":
                seq = _parse_nats(w[1])
                try:
                    exp = "ok " + _nats(ref_kmers(n, k, sp, seq))
                except ValueError:
                    exp = "ERR"
                except KeyError:
                    # invalid symbols: only those actually read must be rejected; accept any rejection
                    exp = None
                if exp == "ERR":
                    if not got.startswith("ERR"):
                        bad(op, "C10/kmers/short-accepted", "ERR:ValueError", got)
                elif exp is not None and got != exp:
                    bad(op, "C10/kmers/value", exp, got)
                continue
            if c == "mask":
                continue
            if c in ("seqs", "seqsx", "kms", "sel", "pos", "merge", "pickle"):
                exp_items, tainted, err = None, False, False
                err_exp = "ERR"
                rid = []
                nb = None
                talph = (n, k, tuple(sorted(sp)) if sp is not None else None)
                if c in ("seqs", "kms", "sel"):
                    nb = None if w[1] == "d" else int(w[1])
                n_tab = n
                if c == "seqsx":
                    nb = None if w[1] == "d" else ("auto" if w[1] == "a" else int(w[1]))
                    toks = w[5].split(",")
                    msz = [int(t_.lstrip("f")) for t_ in toks]
                    foreign = [t_.startswith("f") for t_ in toks]
                    # no alphabet extends sequences of both symbol families; the explicit base alphabet extends none
                    # of the foreign ones: from_sequences must refuse (whatever the order of the references)
                    if (w[6] == "e" and any(foreign)) or (w[6] == "d" and any(foreign) and not all(foreign)):
                        pr = _refusal_problem("ERR:ValueError", got)
                        if pr:
                            bad(op, f"C10/from_sequences/incompatible-alphabets-{pr}", "ERR:ValueError", got)
                        if got.startswith("ok"):
                            tables.append({"items": [], "nb": nb, "tainted": True, "alph": talph})
                        continue
                    n_tab = n if w[6] == "e" else (max(msz) if msz else n)
                    talph = (n_tab, k, talph[2])
                    c = "seqs"
                if c == "seqs":
                    n = n_tab
                    seqs = _parse_lists(w[3])
                    rid = list(range(len(seqs))) if w[2] == "-" else _parse_nats(w[2])
                    ms = _parse_masks(w[4], len(seqs)) or [None] * len(seqs)
                    try:
                        if len(rid) != len(seqs) or len(ms) != len(seqs):
                            raise IndexError
                        exp_items = []
                        for r, s, m in zip(rid, seqs, ms):
                            km = ref_kmers(n, k, sp, s)
                            keep = ref_kmer_keep(k, sp, m, len(s))
                            exp_items += [(q, r, j) for j, (q, kp) in enumerate(zip(km, keep)) if kp]
                        tainted = sp is not None and any(m is not None and any(m) for m in ms)
                    except (ValueError, IndexError, KeyError) as e_:
                        err = True
                        err_exp = _errline(e_)
                elif c == "kms":
                    kms = _parse_lists(w[3])
                    rid = list(range(len(kms))) if w[2] == "-" else _parse_nats(w[2])
                    ms = _parse_masks(w[4], len(kms)) or [None] * len(kms)
                    if any(q >= size for a in kms for q in a):
                        err, err_exp = True, "ERR:AlphabetError"
                    elif (len(rid) != len(kms) or len(ms) != len(kms)
                            or any(m is not None and len(m) != len(a) for a, m in zip(kms, ms))):
                        err, err_exp = True, "ERR:IndexError"
                    else:
                        # from_kmers masks: True = keep this k-mer
                        exp_items = [(q, r, j) for r, a, m in zip(rid, kms, ms) for j, q in enumerate(a)
                                     if m is None or m[j]]
                elif c == "sel":
                    poss, kms = _parse_lists(w[3]), _parse_lists(w[4])
                    rid = list(range(len(kms))) if w[2] == "-" else _parse_nats(w[2])
                    if any(q >= size for a in kms for q in a):
                        err, err_exp = True, "ERR:AlphabetError"
                    elif (len(rid) != len(kms) or len(poss) != len(kms)
                            or any(len(p) != len(a) for p, a in zip(poss, kms))):
                        err, err_exp = True, "ERR:IndexError"
                    else:
                        exp_items = [(q, r, p) for r, ps, a in zip(rid, poss, kms) for p, q in zip(ps, a)]
                elif c == "pos":
                    d = _parse_dict(w[1])
                    if any(q >= size for q, _ in d):
                        err, err_exp = True, "ERR:AlphabetError"
                    else:
                        exp_items = [(q, r, p) for q, ps in d for r, p in ps]
                elif c == "merge":
                    ids = _parse_nats(w[1])
                    if any(i >= len(tables) for i in ids):
                        continue
                    if not ids:                      # from_tables([]) has nothing to take the alphabet from
                        pr = _refusal_problem("ERR:IndexError", got)
                        if pr:
                            bad(op, f"C10/merge/{pr}", "ERR:IndexError", got)
                        continue
                    ts = [tables[i] for i in ids]
                    exp_items = [x for t in ts for x in t["items"]]
                    tainted = any(t["tainted"] for t in ts)
                    nb = ts[0]["nb"]
                    talph = ts[0]["alph"]
                    if any(t["nb"] != nb or t["alph"] != talph for t in ts):
                        err = True
                elif c == "pickle":
                    i = int(w[1])
                    if i >= len(tables):
                        continue
                    exp_items, tainted, nb = list(tables[i]["items"]), tables[i]["tainted"], tables[i]["nb"]
                    talph = tables[i]["alph"]
                if not err and c in ("seqs", "kms", "sel") and any(not 0 <= r_ < 2**32 for r_ in rid):
                    err, err_exp = True, "ERR:OverflowError"       # reference ids are stored as uint32
                if err:
                    pr = _refusal_problem(err_exp, got)
                    if pr:
                        bad(op, f"C10/{c}/{pr}", err_exp, got)
                    if got.startswith("ok"):
                        tables.append({"items": [], "nb": nb, "tainted": True, "alph": talph})
                    continue
                if c == "pickle":
                    if got != "ok true":
                        bad(op, "C10/pickle/not-equal", "ok true", got, tainted=False)
                    if got.startswith("ok"):
                        tables.append({"items": exp_items, "nb": nb, "tainted": tainted, "alph": talph})
                    continue
                if not got.startswith("ok"):
                    if strict or not got.startswith("ERR"):
                        bad(op, f"C10/{c}/rejected-valid", f"ok {len(exp_items)}", got)
                    continue
                tables.append({"items": exp_items, "nb": nb, "tainted": tainted, "alph": talph})
                if got != f"ok {len(exp_items)}":
                    bad(op, f"C10/{c}/entry-count", f"ok {len(exp_items)}", got, tainted)
                continue
            if c in ("dump", "match", "matchq", "matchsim", "matchsel", "count", "getkmers", "get", "matchtab", "matchtabsim", "eq",
                     "has", "iter", "rev", "props", "str"):
                i = int(w[1])
                if i >= len(tables):
                    continue
                T = tables[i]
                items, tainted = T["items"], T["tainted"]
                n, k = T["alph"][0], T["alph"][1]
                sp = None if T["alph"][2] is None else list(T["alph"][2])
                size = n ** k
                if c == "dump":
                    exp = "ok " + _tuples(items)
                elif c in ("match", "matchq"):
                    seq = _parse_nats(w[2])
                    mask = None if w[3] == "-" else _parse_bits(w[3])
                    try:
                        if len(seq) < k:
                            raise ValueError
                        if c == "matchq" and (w[4] == "f" or int(w[4][1:]) > n):
                            raise ValueError      # the table's alphabet does not extend the query's alphabet
                        qk = ref_kmers(n, k, sp, seq)
                        keep = ref_kmer_keep(k, sp, mask, len(seq))
                        exp = "ok " + _tuples((qi, r, p) for qi, (q, kp) in enumerate(zip(qk, keep)) if kp
                                              for (x, r, p) in items if x == q)
                        tainted = tainted or (sp is not None and mask is not None and any(mask))
                    except (ValueError, IndexError, KeyError) as e_:
                        exp = _errline(e_)
                elif c == "matchsim":
                    seq = _parse_nats(w[2])
                    mask = None if w[3] == "-" else _parse_bits(w[3])
                    sim = _ref_similar(n, k, w[4], int(w[5]))
                    try:
                        _rule_ctor(w[4], int(w[5]))
                        if len(seq) < k:
                            raise ValueError
                        qk = ref_kmers(n, k, sp, seq)
                        keep = ref_kmer_keep(k, sp, mask, len(seq))
                        if _mat_dim(w[4]) < n and any(keep):
                            raise ValueError          # matrix alphabet does not extend the base alphabet
                        exp = "ok " + _tuples((qi, r, p) for qi, (q, kp) in enumerate(zip(qk, keep)) if kp
                                              for (x, r, p) in items if sim(q, x))
                        tainted = tainted or (sp is not None and mask is not None and any(mask))
                    except (ValueError, IndexError, KeyError, OverflowError) as e_:
                        exp = _errline(e_)
                elif c == "matchtabsim":
                    j = int(w[2])
                    if j >= len(tables):
                        continue
                    O = tables[j]
                    tainted = tainted or O["tainted"]
                    sim = _ref_similar(n, k, w[3], int(w[4]))
                    rule_err = None
                    try:
                        _rule_ctor(w[3], int(w[4]))
                    except (ValueError, OverflowError) as e_:
                        rule_err = _errline(e_)
                    if rule_err:
                        exp = rule_err
                    elif (T["nb"] is None) != (O["nb"] is None) or (T["nb"] is not None and min(T["nb"], size) != min(O["nb"], size)):
                        exp = "ERR"
                    elif _mat_dim(w[3]) < n and O["items"] and T["alph"] == O["alph"]:
                        exp = "ERR:ValueError"
                    else:
                        exp = "ok " + _tuples((r2, p2, r1, p1) for (x2, r2, p2) in O["items"] for (x1, r1, p1) in items
                                              if sim(x2, x1))
                elif c == "matchsel":
                    ps, ks = _parse_nats(w[2]), _parse_nats(w[3])
                    if any(q >= size for q in ks):
                        exp = "ERR:AlphabetError"
                    elif len(ps) != len(ks):
                        exp = "ERR:IndexError"
                    else:
                        exp = "ok " + _tuples((p, r, j) for p, q in zip(ps, ks) for (x, r, j) in items if x == q)
                elif c == "count":
                    if w[2] == "all":
                        if T["nb"] is not None:
                            exp = "ERR"
                        else:
                            exp = "ok " + _nats(sum(1 for x in items if x[0] == q) for q in range(size))
                    else:
                        ks = _parse_nats(w[2])
                        exp = "ERR:AlphabetError" if any(q >= size for q in ks) else "ok " + _nats(sum(1 for x in items if x[0] == q) for q in ks)
                elif c == "getkmers":
                    exp = "ok " + _nats(sorted({x[0] for x in items}))
                elif c in ("iter", "rev"):
                    ks_ = sorted({x[0] for x in items})
                    exp = "ERR" if T["nb"] is not None else "ok " + _nats(ks_ if c == "iter" else ks_[::-1])
                elif c == "has":
                    q = int(w[2])
                    exp = ("ERR" if T["nb"] is not None else "ERR:IndexError" if q >= size
                           else "ok " + ("true" if any(x[0] == q for x in items) else "false"))
                elif c == "props":
                    if T["nb"] == "auto":
                        continue
                    nbs = "-" if T["nb"] is None else str(min(T["nb"], size))
                    exp = f"ok len={size} k={k} n={n} nb={nbs} sp={'-' if sp is None else _nats(sp)}"
                elif c == "str":
                    lines = []
                    for q in sorted({x[0] for x in items}):
                        digs = [(q // n ** (k - 1 - j)) % n for j in range(k)]
                        lines.append("".join("ABCDEFGHIJKLMNOPQRSTUVWXYZ"[d] for d in digs) + ":" +
                                     ",".join(f"({r},{p})" for (x, r, p) in items if x == q))
                    exp = "ok " + ("|".join(lines) if lines else "_")
                elif c == "get":
                    q = int(w[2])
                    exp = "ERR:AlphabetError" if q >= size else "ok " + _tuples((r, p) for (x, r, p) in items if x == q)
                    if exp != got and T["nb"] is not None and (q >= 2**32 or any(x[0] >= 2**32 for x in items)):
                        bad(op, K_GETITEM, exp, got)
                        continue
                elif c == "matchtab":
                    j = int(w[2])
                    if j >= len(tables):
                        continue
                    O = tables[j]
                    tainted = tainted or O["tainted"]
                    if ((T["nb"] is None) != (O["nb"] is None) or T["alph"] != O["alph"]
                            or (T["nb"] is not None and min(T["nb"], size) != min(O["nb"], size))):
                        exp = "ERR"
                    else:
                        exp = "ok " + _tuples((r2, p2, r1, p1) for (x2, r2, p2) in O["items"] for (x1, r1, p1) in items if x1 == x2)
                else:
                    # __eq__: same kind, same k-mer alphabet (incl. spacing), same bucket number, same content per
                    # slot in insertion order
                    j = int(w[2])
                    if j >= len(tables):
                        continue
                    O = tables[j]
                    tainted = tainted or O["tainted"]
                    if T["nb"] == "auto" or O["nb"] == "auto":
                        continue

                    def layout(tb):
                        sz = tb["alph"][0] ** tb["alph"][1]
                        d = {}
                        for (x, r, p) in tb["items"]:
                            h = x if tb["nb"] is None else x % min(tb["nb"], sz)
                            d.setdefault(h, []).append((x, r, p))
                        return (tb["nb"] is None, None if tb["nb"] is None else min(tb["nb"], sz), d)
                    same_content = layout(T) == layout(O) and T["alph"][:2] == O["alph"][:2]
                    exp = "ok " + ("true" if same_content and T["alph"] == O["alph"] else "false")
                    if got == "ok true" and same_content and T["alph"] != O["alph"]:
                        bad(op, K_EQ_SPACING, exp, got)
                        continue
                if exp.startswith("ERR"):
                    pr = _refusal_problem(exp, got)
                    if pr:
                        bad(op, f"C10/{c}/{pr}", exp, got)
                elif got != exp:
                    bad(op, f"C10/{c}/mismatch", exp, got, tainted)
                continue
            if c == "minim":
                wdw, perm, ks = int(w[1]), w[2], _parse_nats(w[3])
                try:
                    order = ref_perm(perm, ks)
                    exp = "ok " + _tuples(ref_minimizer(order, ks, wdw))
                except (ValueError, IndexError, KeyError):
                    exp = "ERR"
                    order = []
                if exp.startswith("ERR"):
                    pr = _refusal_problem(exp, got)
                    if pr:
                        bad(op, f"C10/minimizer/{pr}", exp, got)
                elif got != exp:
                    bad(op, K_MINMAX if I64MAX in order else "C10/minimizer/mismatch", exp, got)
                continue
            if c in ("sync", "synck", "csynck"):
                s, perm = int(w[1]), w[2]
                offs = [int(x) for x in w[3].split(",")]
                order = []
                try:
                    if not (2 <= s < k):
                        raise ValueError
                    window = k - s + 1
                    norm = ref_sync_offsets(window, offs)
                    if c == "sync":
                        seq = _parse_nats(w[4])
                        kms = ref_kmers(n, k, None, seq)
                        sm = ref_kmers(n, s, None, seq)
                        order = ref_perm(perm, sm)
                        sel = []
                        for i2, q in enumerate(kms):
                            win = order[i2:i2 + window]
                            if win.index(min(win)) in norm:
                                sel.append((i2, q))
                    else:
                        kms = _parse_nats(w[4])
                        if any(q >= size for q in kms):
                            raise ValueError
                        sel = []
                        for i2, q in enumerate(kms):
                            digits = [(q // n ** (k - 1 - j)) % n for j in range(k)]
                            o2 = ref_perm(perm, ref_kmers(n, s, None, digits))
                            order += o2
                            if o2.index(min(o2)) in norm:
                                sel.append((i2, q))
                    exp = "ok " + _tuples(sel)
                except (ValueError, IndexError, KeyError):
                    exp = "ERR"
                if exp.startswith("ERR"):
                    pr = _refusal_problem(exp, got)
                    if pr:
                        bad(op, f"C10/syncmer/{pr}", exp, got)
                elif got != exp:
                    bad(op, K_MINMAX if (c == "sync" and I64MAX in order) else "C10/syncmer/mismatch", exp, got)
                continue
            if c == "minc":
                comp, perm, ks = Fraction(w[1]), w[2], _parse_nats(w[3])
                try:
                    if perm.startswith("freq:") and len(_parse_nats(perm[5:])) != size:
                        raise IndexError
                    if comp < 1:
                        raise ValueError
                    order = ref_perm(perm, ks)
                    lo, rng_ = ref_perm_range(perm, size)
                    thr = Fraction(lo) + Fraction(rng_) / comp
                    exp = "ok " + _tuples((i2, q) for i2, (q, o) in enumerate(zip(ks, order)) if Fraction(o) < thr)
                except (ValueError, IndexError) as e_:
                    exp = _errline(e_)
                except KeyError:
                    exp = "ERR"
                if exp.startswith("ERR"):
                    pr = _refusal_problem(exp, got)
                    if pr:
                        bad(op, f"C10/mincode/{pr}", exp, got)
                elif got != exp:
                    bad(op, "C10/mincode/mismatch", exp, got)
                continue
        except Exception as e:  # noqa: BLE001  (a malformed op line: nothing to assert)
            if strict:
                raise
            del e
    return v


def _oracle_mincode_dtype(case):
    """The documented return value is an index array ("the sequence indices where the Mincode k-mers start")."""
    from common import sandbox
    _preload()

    def f():
        import numpy as np

        import biotite.sequence as bseq
        import biotite.sequence.align as align
        ka = align.KmerAlphabet(bseq.LetterAlphabet("AB"), 2)
        pos, _ = align.MincodeSelector(ka, 2).select_from_kmers(np.array(case["kmers"], dtype=np.int64))
        return str(pos.dtype)
    r = sandbox.run_forked(f)
    if r[0] == "ok" and r[1] == "bool":
        return [(K_MINCODE_BOOL, f"MincodeSelector.select_from_kmers({case['kmers']}) returned a boolean mask, documented: index array")]
    if r[0] != "ok":
        return [("C10/mincode/crash", str(r))]
    return []


def _oracle_alphabet_misc(case):
    """npk: k given as an 8-bit NumPy integer is the same k (len(alphabet) = n**k, same k-mers, tables work);
    khash: equal k-mer alphabets hash equally, i.e. hashing works at all."""
    from common import sandbox
    _preload()

    def f():
        import numpy as np

        import biotite.sequence as bseq
        import biotite.sequence.align as align
        import warnings
        warnings.simplefilter("ignore")
        base = bseq.LetterAlphabet("ABCDEFGH"[:case["n"]])
        if case["kind"] == "khash":
            a, b = align.KmerAlphabet(base, case["k"]), align.KmerAlphabet(base, case["k"])
            return hash(a) == hash(b)
        kk = getattr(np, case["type"])(case["k"])
        ka = align.KmerAlphabet(base, kk)
        short = int(ka.kmer_array_length(case["k"] - 2))
        if len(ka) != case["n"] ** case["k"]:
            return len(ka), short, -1, -1
        s = bseq.GeneralSequence(base)
        s.code = np.array(case["seq"], dtype=np.uint8)
        t = align.KmerTable.from_sequences(kk, [s])
        return len(ka), short, int(t.count().sum()), len(t.match(s))
    r = sandbox.run_forked(f)
    if case["kind"] == "khash":
        if r != ("ok", True):
            return [(K_KHASH, f"hash(KmerAlphabet(base, {case['k']})) failed: {r}")]
        return []
    n_km = len(case["seq"]) - case["k"] + 1
    if r[0] != "ok" or r[1][0] != case["n"] ** case["k"] or r[1][1] != -1 or r[1][2] != n_km or r[1][3] < n_km:
        narrow = case["n"] ** case["k"] > {"int8": 127, "uint8": 255}.get(case["type"], 10**30)
        key = K_NPK if (narrow or case["type"].startswith("u")) else "C10/kmeralphabet/numpy-k"
        return [(key, f"{case}: expected len {case['n'] ** case['k']}, kmer_array_length(k-2) = -1, {n_km} entries; got {r}")]
    return []


def _oracle_probe(case):
    """Regions where the Lean model abstains (negative k-mer codes, n_buckets = 0, alphabets beyond int64, int32 score
    overflow, spaced masks shorter than the mask read): the real code is run in a forked child and held to the
    property: refuse with an exception, or give the exact answer; never crash, never answer silently wrong."""
    from common import sandbox
    _preload()
    what = case["what"]

    def f():
        import warnings

        import numpy as np

        import biotite.sequence as bseq
        import biotite.sequence.align as align
        warnings.simplefilter("ignore")
        base = bseq.LetterAlphabet("ABCDEFGHIJKLMNOPQRSTUVWXYZ"[:case["n"]])
        k = case["k"]

        def mk(codes):
            s_ = bseq.GeneralSequence(base)
            s_.code = np.array(codes, dtype=np.uint8)
            return s_
        if what == "negative-kmer":
            cls = align.KmerTable if case["nb"] is None else align.BucketKmerTable
            kw = {} if case["nb"] is None else {"n_buckets": case["nb"]}
            t = cls.from_sequences(k, [mk(case["seq"])], **kw)
            q = case["q"]
            res = {}
            for name, fn in (("count", lambda: t.count(np.array([q]))),
                             ("matchsel", lambda: t.match_kmer_selection(np.array([0]), np.array([q]))),
                             ("from_kmers", lambda: cls.from_kmers(t.kmer_alphabet, [np.array([q])], **kw)),
                             ("split", lambda: t.kmer_alphabet.split(q)),
                             ("getitem", lambda: t[q])):
                try:
                    fn()
                    res[name] = "accepted"
                except Exception as e:  # noqa: BLE001
                    res[name] = type(e).__name__
            return res
        if what == "zero-buckets":
            ka = align.KmerAlphabet(base, k)
            t = align.BucketKmerTable.from_kmers(ka, [np.array(case["kmers"], dtype=np.int64)], n_buckets=case["nbv"])
            return t.count(np.array(case["kmers"][:1], dtype=np.int64)).tolist()
        if what == "big-code":
            ka = align.KmerAlphabet(base, k)
            codes = ka.create_kmers(np.array(case["seq"], dtype=np.uint8)).tolist()
            try:
                align.BucketKmerTable.from_sequences(k, [mk(case["seq"])], n_buckets=7)
                tbl = "accepted"
            except Exception as e:  # noqa: BLE001
                tbl = type(e).__name__
            return codes, tbl
        if what == "big-score":
            m = np.array(case["matrix"], dtype=np.int32).reshape(case["n"], case["n"])
            rule = align.ScoreThresholdRule(align.SubstitutionMatrix(base, base, m), case["thr"])
            return sorted(int(x) for x in rule.similar_kmers(align.KmerAlphabet(base, k), case["q"]))
        if what == "short-spaced-mask":
            mask = np.array(case["mask"], dtype=bool)
            t = align.KmerTable.from_sequences(k, [mk(case["seq"])], ignore_masks=[mask], spacing=case["sp"])
            kms = t.get_kmers()
            return sorted(int(p) for q_ in kms for (_r, p) in t[q_].tolist())
        return None
    r = sandbox.run_forked(f)
    n, k = case["n"], case["k"]
    if what == "negative-kmer":
        if r[0] != "ok":
            return [(K_NEGKMER, f"{case}: the interpreter died ({r}) on a negative k-mer code")]
        bad_ = {name: v for name, v in r[1].items() if v != "AlphabetError"}
        if bad_:
            return [(K_NEGKMER, f"{case}: a negative k-mer code must be refused with AlphabetError; got {bad_}")]
        return []
    if what == "zero-buckets":
        if r[0] == "crash":
            return [(K_ZEROBUCKETS, f"{case}: n_buckets={case['nbv']} kills the interpreter (signal {r[1]}) instead of ValueError")]
        if r[0] == "ok":
            return [("C10/bucket/n_buckets-not-positive-accepted", f"{case}: accepted, returned {r[1]}")]
        return [] if r[1] in ("ValueError", "TypeError") else [("C10/bucket/n_buckets-wrong-refusal", str(r))]
    if what == "big-code":
        seq = case["seq"]
        exact = [sum(seq[i + j] * n ** (k - 1 - j) for j in range(k)) for i in range(len(seq) - k + 1)]
        if r[0] == "err":
            return []            # refused: fine
        if r[0] != "ok":
            return [("C10/create_kmers/crash", str(r))]
        codes, tbl = r[1]
        v = []
        if codes != exact:
            v.append((K_BIGCODE, f"{case}: create_kmers returned {codes[:3]}, exact codes {exact[:3]} do not fit int64: silent wrap"))
        if tbl == "accepted" and n ** k > 2**63:
            v.append(("C10/table/accepts-alphabet-beyond-int64", f"{case}: a table over {n}**{k} k-mers was built"))
        return v
    if what == "big-score":
        m = case["matrix"]
        digs = lambda q: [(q // n ** (k - 1 - j)) % n for j in range(k)]      # noqa: E731
        exact = [x for x in range(n ** k) if sum(m[a * n + b] for a, b in zip(digs(case["q"]), digs(x))) >= case["thr"]]
        if r[0] == "err":
            return []
        if r[0] != "ok" or r[1] != exact:
            return [(K_BIGSCORE, f"{case}: similar_kmers gave {str(r)[:80]}, exact set has {len(exact)} k-mers (int32 overflow)")]
        return []
    if what == "short-spaced-mask":
        sp, mask, seq = case["sp"], case["mask"], case["seq"]
        span = max(sp) + 1
        exact = sorted(i for i in range(len(seq) - span + 1) if not any(mask[i + o] for o in sp))
        if r[0] == "crash":
            return [("C10/mask/spaced-crash", str(r))]
        if r[0] == "ok" and r[1] != exact:
            return [(K_MASK, f"{case}: retained positions {r[1]}, required {exact}")]
        return []
    return []


def _oracle_ctor_reject(case):
    """A k-mer array the constructor cannot accept (wrong dtype, read-only buffer) must be rejected with an
    exception wherever it stands in the list - never crash the interpreter."""
    from common import sandbox
    _preload()

    def f():
        import numpy as np

        import biotite.sequence as bseq
        import biotite.sequence.align as align
        ka = align.KmerAlphabet(bseq.LetterAlphabet("ABCD"), 3)
        arrs = [np.array(a, dtype=np.int64) for a in case["kmers"]]
        bad_i = case["bad"]
        if case["how"] == "readonly":
            arrs[bad_i].setflags(write=False)
        else:
            arrs[bad_i] = arrs[bad_i].astype(np.int32)
        kw = {} if case["nb"] is None else {"n_buckets": case["nb"]}
        cls = align.KmerTable if case["nb"] is None else align.BucketKmerTable
        try:
            if case["ctor"] == "from_kmers":
                cls.from_kmers(ka, arrs, **kw)
            else:
                cls.from_kmer_selection(ka, [np.arange(len(a)) for a in arrs], arrs, **kw)
        except (ValueError, TypeError) as e:
            import gc
            gc.collect()
            return "rejected:" + type(e).__name__
        return "accepted"
    r = sandbox.run_forked(f)
    if r[0] == "crash":
        key = K_CTOR_CRASH if case["bad"] > 0 else "C10/ctor/crash"
        return [(key, f"{case}: the interpreter died with signal {r[1]} instead of raising")]
    return []


def _oracle_similarity(case):
    """match with a ScoreThresholdRule = all (i, ref, j) whose k-mers score >= threshold (brute force)."""
    from common import sandbox
    _preload()
    n, k, nb = case["n"], case["k"], case["nb"]
    mat, thr = case["matrix"], case["threshold"]
    refs, query = case["refs"], case["query"]

    def f():
        import numpy as np

        import biotite.sequence as bseq
        import biotite.sequence.align as align
        base = bseq.LetterAlphabet("ABCDEFGHIJKLMNOPQRSTUVWXYZ"[:n])

        def mk(codes):
            s = bseq.GeneralSequence(base)
            s.code = np.array(codes, dtype=np.uint8)
            return s
        matrix = align.SubstitutionMatrix(base, base, np.array(mat, dtype=np.int32))
        rule = align.ScoreThresholdRule(matrix, thr)
        if nb is None:
            t = align.KmerTable.from_sequences(k, [mk(r) for r in refs])
            t2 = align.KmerTable.from_sequences(k, [mk(query)])
        else:
            t = align.BucketKmerTable.from_sequences(k, [mk(r) for r in refs], n_buckets=nb)
            t2 = align.BucketKmerTable.from_sequences(k, [mk(query)], n_buckets=nb)
        m = sorted(tuple(x) for x in t.match(mk(query), similarity_rule=rule).tolist())
        mt = sorted(tuple(x) for x in t.match_table(t2, similarity_rule=rule).tolist())
        return m, mt
    r = sandbox.run_forked(f)
    if r[0] != "ok":
        return [("C10/similarity/" + ("crash" if r[0] == "crash" else "rejected-valid"), str(r)[:200])]
    got, got_t = r[1]

    def score(a, b):
        return sum(mat[x][y] for x, y in zip(a, b))
    exp = sorted((i, ri, j) for i in range(len(query) - k + 1) for ri, ref in enumerate(refs)
                 for j in range(len(ref) - k + 1) if score(query[i:i + k], ref[j:j + k]) >= thr)
    v = []
    if got != exp:
        v.append(("C10/similarity/match-mismatch", f"{case}: got {got[:20]} expected {exp[:20]}"))
    exp_t = sorted((0, i, ri, j) for (i, ri, j) in exp)
    if got_t != exp_t:
        v.append(("C10/similarity/match_table-mismatch", f"{case}: got {got_t[:20]} expected {exp_t[:20]}"))
    return v


# ---------------------------------------------------------------- generator
def _seq(rng, n, length, low_entropy):
    if low_entropy:
        unit = [rng.randrange(n) for _ in range(rng.randint(1, 3))]
        s = (unit * (length // len(unit) + 1))[:length]
        for _ in range(rng.randint(0, 2)):
            if s:
                s[rng.randrange(len(s))] = rng.randrange(n)
        return s
    return [rng.randrange(n) for _ in range(length)]


def _spacing(rng, k):
    offs = [0]
    while len(offs) < k:
        offs.append(offs[-1] + rng.choice([1, 1, 2, 3]))
    if rng.random() < 0.15:
        offs = [o + 1 for o in offs]          # model that does not start at 0
    if rng.random() < 0.3:
        rng.shuffle(offs)                      # iterable form: the constructor sorts
    return offs


def _mask(rng, length):
    r = rng.random()
    if r < 0.25:
        return [False] * length
    m = [False] * length
    for _ in range(rng.randint(1, 2)):
        if length:
            m[rng.randrange(length)] = True
    if r > 0.9:
        m = [rng.random() < 0.5 for _ in range(length)]
    return m


def _nb(rng):
    return rng.choice(["d", "d", "d", 1, 2, 3, 5, 7, 13, 1000003])


def _table_case(rng):
    n = rng.choice([2, 2, 3, 4, 4, 5])
    k = rng.choice([2, 3, 3, 4, 5]) if n <= 4 else rng.choice([2, 3, 4])
    sp = _spacing(rng, k) if rng.random() < 0.3 else None
    span = (max(sp) + 1) if sp else k
    size = n ** k
    ops = [f"alph {n} {k} {_nats(sp) if sp else '-'}"]
    nb = _nb(rng)
    # spaced k-mers + masks: keep every `mask[j + offset]` read of the real code inside the array
    min_len_masked = (k - 1 + max(sp) + 1) if sp else 0
    use_masks = rng.random() < (0.15 if sp else 0.4)

    def refs(n_refs):
        ls = []
        for _ in range(n_refs):
            length = span + rng.choice([0, 0, 1, 1, 2, 3, 4, 6])
            if use_masks:
                length = max(length, min_len_masked)
            ls.append(_seq(rng, n, length, rng.random() < 0.6))
        return ls

    def build(nb_, which=None):
        which = which or rng.choice(["seqs", "seqs", "seqs", "kms", "sel", "pos"])
        if which == "pos" and nb_ != "d":
            which = "sel"
        n_refs = rng.choice([1, 1, 2, 3, 4])
        rid = "-" if rng.random() < 0.5 else _nats(rng.sample(range(0, 40), n_refs))
        if which == "seqs":
            ss = refs(n_refs)
            if rng.random() < 0.04:
                ss[rng.randrange(n_refs)] = _seq(rng, n, span - 1, False)       # shorter than k: whole build fails
            ms = None
            if use_masks:
                ms = [None if rng.random() < 0.3 else _mask(rng, len(s)) for s in ss]
            return f"seqs {nb_} {rid} {_lists(ss)} {_masks(ms)}"
        if which == "kms":
            ks = [[rng.randrange(min(size, 12)) if rng.random() < 0.5 else rng.randrange(size)
                   for _ in range(rng.choice([0, 1, 2, 4, 7]))] for _ in range(n_refs)]
            ms = None
            if rng.random() < 0.4:
                ms = [None if rng.random() < 0.3 else [rng.random() < 0.7 for _ in a] for a in ks]
            return f"kms {nb_} {rid} {_lists(ks)} {_masks(ms)}"
        if which == "sel":
            ks = [[rng.randrange(min(size, 12)) if rng.random() < 0.5 else rng.randrange(size)
                   for _ in range(rng.choice([0, 1, 2, 4, 7]))] for _ in range(n_refs)]
            ps = [[rng.randrange(50) for _ in a] for a in ks]
            return f"sel {nb_} {rid} {_lists(ps)} {_lists(ks)}"
        keys = rng.sample(range(size), min(size, rng.randint(0, 4)))
        items = []
        for q in keys:
            prs = [(rng.randrange(5), rng.randrange(30)) for _ in range(rng.choice([0, 1, 2, 3]))]
            items.append(f"{q}=" + (",".join(f"{r}:{p}" for r, p in prs) if prs else "_"))
        return "pos " + (";".join(items) if items else "-")

    ops.append(build(nb))
    t = 0
    n_tables = 1

    def queries(ti):
        qs = []
        qs.append(f"dump {ti}")
        for _ in range(rng.randint(1, 2)):
            length = span + rng.choice([0, 1, 2, 4, 6]) if rng.random() < 0.93 else rng.choice([max(0, k - 1), max(0, span - 1)])
            mask = None
            if rng.random() < (0.1 if sp else 0.35):
                length = max(length, min_len_masked)
                mask = _mask(rng, length)
            q = _seq(rng, n, length, rng.random() < 0.6)
            qs.append(f"match {ti} {_nats(q)} {_bits(mask) if mask is not None else '-'}")
        r = rng.random()
        some_kmers = [rng.randrange(min(size, 12)) if rng.random() < 0.6 else rng.randrange(size) for _ in range(rng.randint(0, 4))]
        if r < 0.5:
            qs.append(f"count {ti} {_nats(some_kmers)}")
        if r > 0.3 and nb == "d" and size <= 130:
            qs.append(f"count {ti} all")
        if rng.random() < 0.5:
            qs.append(f"getkmers {ti}")
        if rng.random() < 0.6:
            qs.append(f"get {ti} {rng.randrange(min(size, 12))}")
        if rng.random() < 0.4:
            qs.append(f"matchsel {ti} {_nats(rng.randrange(60) for _ in some_kmers)} {_nats(some_kmers)}")
        return qs

    ops += queries(t)
    r = rng.random()
    if r < 0.35:
        ops.append(f"pickle {t}")
        ops += [f"eq {t} {n_tables}", f"dump {n_tables}", f"matchtab {t} {n_tables}"]
        n_tables += 1
    if r > 0.25 and r < 0.75:
        extra = rng.choice([1, 1, 2])
        for _ in range(extra):
            ops.append(build(nb))
            n_tables += 1
        ids = list(range(n_tables)) if rng.random() < 0.7 else [0, n_tables - 1, 0]
        ops.append(f"merge {_nats(ids)}")
        m = n_tables
        n_tables += 1
        ops += queries(m)
        ops.append(f"matchtab {m} {rng.randrange(n_tables)}")
        ops.append(f"eq {rng.randrange(n_tables)} {rng.randrange(n_tables)}")
        if rng.random() < 0.3:
            ops.append(f"pickle {m}")
            ops.append(f"dump {n_tables}")
    return {"kind": "table", "ops": ops}


def _perm(rng, size, allow_max=True):
    r = rng.random()
    if r < 0.3:
        return "-"
    if r < 0.5:
        return "rand"
    if r < 0.7 and size <= 700:
        return "freq:" + _nats(rng.choice([0, 0, 1, 2, 5]) for _ in range(size))
    if size <= 700:
        pool = [0, 1, 2, 3, -5, 7]
        if allow_max and rng.random() < 0.25:
            pool += [I64MAX, I64MAX]
        if rng.random() < 0.3:
            pool += [-2**63, I64MAX - 1]
        return "tab:" + ",".join(str(rng.choice(pool)) for _ in range(size))
    return "-"


def _selector_case(rng):
    kind = rng.choice(["minim", "minim", "minim", "sync", "sync", "synck", "minc"])
    n = rng.choice([2, 3, 4])
    if kind in ("sync", "synck"):
        k = rng.choice([3, 4, 5])
        s = rng.randint(2, k - 1) if rng.random() < 0.95 else rng.choice([1, k])
        ops = [f"alph {n} {k} -"]
        window = k - max(min(s, k - 1), 1) + 1
        offs = rng.sample(range(-window, window), rng.randint(1, min(3, window)))
        if rng.random() < 0.05:
            offs.append(window)
        perm = _perm(rng, n ** s) if 2 <= s < k else rng.choice(["-", "rand"])
        if kind == "sync":
            length = k + rng.choice([-1, 0, 0, 1, 2, 5, 9, 14])
            ops.append(f"sync {s} {perm} {','.join(map(str, offs))} {_nats(_seq(rng, n, length, rng.random() < 0.5))}")
        else:
            ks = [rng.randrange(n ** k) for _ in range(rng.randint(0, 8))]
            ops.append(f"synck {s} {perm} {','.join(map(str, offs))} {_nats(ks)}")
            if n ** k <= 130:
                ops.append(f"csynck {s} {perm} {','.join(map(str, offs))} {_nats(ks)}")
        return {"kind": "selector", "ops": ops}
    k = rng.choice([2, 3])
    size = n ** k
    ops = [f"alph {n} {k} -"]
    perm = _perm(rng, size)
    if kind == "minim":
        w = rng.choice([2, 2, 3, 3, 4, 5, 7]) if rng.random() < 0.95 else rng.choice([0, 1])
        length = max(0, w + rng.choice([-1, 0, 0, 1, 2, 3, 5, 8, 13, 20]))
        few = rng.random() < 0.5
        ks = [rng.randrange(min(size, 3)) if few else rng.randrange(size) for _ in range(length)]
        ops.append(f"minim {w} {perm} {_nats(ks)}")
    else:
        comp = rng.choice([1, 2, 2, 3, 4, 8]) if rng.random() < 0.95 else 0
        ks = [rng.randrange(size) for _ in range(rng.randint(0, 10))]
        ops.append(f"minc {comp} {perm} {_nats(ks)}")
    return {"kind": "selector", "ops": ops}


def _malformed_case(rng):
    """Inputs outside the theorem hypotheses: the property only asks for a rejection (never a crash or silent junk)."""
    n = rng.choice([2, 3, 4])
    k = rng.choice([2, 3])
    size = n ** k
    nb = _nb(rng)
    ops = [f"alph {n} {k} -"]
    r = rng.random()
    good = _seq(rng, n, k + 3, False)
    if r < 0.2:          # wrong-length ignore mask (from_sequences / match)
        ops.append(f"seqs {nb} - {_nats(good)} {_bits([False] * (len(good) + rng.choice([-2, -1, 1, 3])))}")
        ops.append(f"seqs {nb} - {_nats(good)} -")
        ops.append(f"match 0 {_nats(good)} {_bits([False] * (len(good) + rng.choice([-1, 1])))}")
    elif r < 0.4:        # wrong-length k-mer mask (from_kmers): unchecked read in the count pass, then IndexError
        ks = [rng.randrange(size) for _ in range(4)]
        ops.append(f"kms {nb} - {_nats(ks)} {_bits([True] * rng.choice([0, 2, 3, 5, 9]))}")
    elif r < 0.55:       # k-mer codes out of range
        ks = [rng.randrange(size) for _ in range(3)] + [size + rng.choice([0, 1, 100])]
        rng.shuffle(ks)
        ops.append(f"kms {nb} - {_nats(ks)} -")
        ops.append(f"sel {nb} - {_nats(range(4))} {_nats(ks)}")
        ops.append(f"kms {nb} - {_nats(k2 % size for k2 in ks)} -")
        ops.append(f"count 0 {_nats(ks)}")
        ops.append(f"matchsel 0 {_nats(range(4))} {_nats(ks)}")
        ops.append(f"get 0 {size + rng.choice([0, 5])}")
        if nb == "d":
            ops.append(f"pos {size}=0:0")
    elif r < 0.7:        # symbol codes outside the alphabet
        bad_seq = list(good)
        bad_seq[rng.randrange(len(bad_seq))] = n + rng.choice([0, 1, 7])
        ops.append(f"kmers {_nats(bad_seq)}")
        ops.append(f"seqs {nb} - {_nats(bad_seq)} -")
        ops.append(f"seqs {nb} - {_nats(good)} -")
        ops.append(f"match 0 {_nats(bad_seq)} -")
    elif r < 0.85:       # short queries / short references / positions-kmers length mismatch
        ops.append(f"seqs {nb} - {_nats(good)} -")
        ops.append(f"match 0 {_nats(good[:k - 1])} -")
        ops.append(f"match 0 _ -")
        ops.append(f"matchsel 0 {_nats(range(3))} {_nats([0, 1])}")
        ops.append(f"sel {nb} - {_nats(range(3))} {_nats([0, 1])}")
        ops.append(f"seqs {nb} 1,2 {_nats(good)} -")
    else:                # fuse with invalid symbol codes, invalid alphabets
        codes = [rng.randrange(n) for _ in range(k)]
        codes[rng.randrange(k)] = n + rng.choice([1, 2, 9])
        ops.append(f"fuse {_nats(codes)}")
        ops.append(f"fuse {_nats(codes[:-1])}")
        ops.append(f"alph {n} 1 -")
        ops.append(f"alph {n} 3 0,1")
        ops.append(f"alph {n} 2 1,1")
    built = [i for i, o in enumerate(ops) if o.split()[0] in ("seqs", "kms", "sel", "pos")]
    if built and not any(o.startswith("alph") for o in ops[1:]):
        ops.append("dump 0")          # a refused call changes nothing: the (first successfully built) table is unchanged
        ops.append(f"match 0 {_nats(good)} -")
    return {"kind": "malformed", "ops": ops}


def _matrix(rng, n):
    m = [[0] * n for _ in range(n)]
    for i in range(n):
        for j in range(i, n):
            m[i][j] = m[j][i] = rng.randint(-4, 4) if i != j else rng.randint(0, 6)
    return ",".join(str(m[i][j]) for i in range(n) for j in range(n))


def _matrix_ext(rng, n, extra):
    """matrix over an alphabet of n + extra symbols extending the base alphabet; the extra symbols score high, so a
    search that does not trim the matrix to the base alphabet produces k-mers outside the k-mer alphabet."""
    dim = n + extra
    m = [[0] * dim for _ in range(dim)]
    for i in range(dim):
        for j in range(i, dim):
            if i >= n or j >= n:
                v = rng.randint(2, 7)
            else:
                v = rng.randint(-4, 4) if i != j else rng.randint(0, 6)
            m[i][j] = m[j][i] = v
    return ",".join(str(m[i][j]) for i in range(dim) for j in range(dim))


def _simmask_case(rng):
    """Similarity rule combined with ignore masks (query masks and reference masks), both table kinds."""
    n = rng.choice([2, 3, 4])
    k = rng.choice([2, 3])
    nb = _nb(rng)
    ops = [f"alph {n} {k} -"]
    n_refs = rng.choice([1, 2, 3])
    refs = [_seq(rng, n, k + rng.choice([0, 1, 2, 4, 6]), rng.random() < 0.5) for _ in range(n_refs)]
    ms = None
    if rng.random() < 0.6:
        ms = [None if rng.random() < 0.3 else _mask(rng, len(s)) for s in refs]
    ops.append(f"seqs {nb} - {_lists(refs)} {_masks(ms)}")
    ops.append("dump 0")
    mat = _matrix(rng, n) if rng.random() < 0.6 else _matrix_ext(rng, n, rng.choice([1, 1, 2, 3]))
    for _ in range(rng.randint(1, 3)):
        thr = rng.choice([-20, -2, 0, 1, 2, 3, 4, 6, 9, 3 * k, 6 * k, 6 * k + 1])
        q = _seq(rng, n, k + rng.choice([0, 1, 2, 3, 5]), rng.random() < 0.5)
        mask = _mask(rng, len(q)) if rng.random() < 0.75 else None
        mb = _bits(mask) if mask is not None else "-"
        ops.append(f"matchsim 0 {_nats(q)} {mb} {mat} {thr}")
        if rng.random() < 0.6:
            ops.append(f"simk {rng.randrange(n ** k)} {mat} {thr}")
        if rng.random() < 0.3:
            ops.append(f"match 0 {_nats(q)} {mb}")
        if rng.random() < 0.5:
            # the query as a (masked) table: match_table with the same rule
            ops.append(f"seqs {nb} 9 {_nats(q)} {mb if mask is not None else '-'}")
            ti = sum(1 for o in ops if o.startswith("seqs")) - 1
            ops.append(f"matchtabsim 0 {ti} {mat} {thr}")
    return {"kind": "simmask", "ops": ops}


LONGK = [(4, 17), (4, 20), (4, 31), (20, 8), (20, 13), (4, 16), (20, 7), (5, 14)]


def _longk_case(rng):
    """Long k-mers (n^(k-1) beyond 32 bit): create_kmers vs direct fuse, bucketed tables match/count."""
    n, k = rng.choice(LONGK)
    ops = [f"alph {n} {k} -"]
    hi = rng.random() < 0.6          # high symbol codes make the leading term large

    def sq(length):
        s = _seq(rng, n, length, rng.random() < 0.4)
        if hi:
            s = [c if rng.random() < 0.4 else n - 1 - rng.randrange(min(n, 2)) for c in s]
        return s
    ref = sq(k + rng.choice([1, 2, 3, 5, 9]))
    ops.append(f"kmers {_nats(ref)}")
    nb = rng.choice([1, 2, 7, 13, 101])
    # a second reference repeating a window of the first one in another context
    start = rng.randrange(len(ref) - k + 1)
    ref2 = sq(rng.randint(1, 4)) + ref[start:start + k] + sq(rng.randint(0, 3))
    ops.append(f"seqs {nb} - {_lists([ref, ref2])} -")
    ops.append("dump 0")
    q = sq(rng.randint(1, 3)) + ref[start:start + k] + sq(rng.randint(0, 2))
    ops.append(f"match 0 {_nats(q)} -")
    ops.append(f"kms {nb} - {_nats(ref_kmers(n, k, None, ref2))} -")
    ops.append(f"matchtab 0 1")
    ops.append(f"count 0 {_nats(ref_kmers(n, k, None, q))}")
    ops.append(f"matchsel 0 {_nats(range(len(q) - k + 1))} {_nats(ref_kmers(n, k, None, q))}")
    return {"kind": "longk", "ops": ops}


def _mincode_boundary_case(rng):
    """Min-code threshold boundary: compression values that do and do not divide the range, codes on both sides
    of range/compression (pins the float64 threshold against the exact one)."""
    n, k = rng.choice([(2, 2), (3, 2), (2, 3), (3, 3), (5, 2)])
    size = n ** k
    ops = [f"alph {n} {k} -"]
    for _ in range(3):
        c = rng.choice([1, 2, 3, 4, 5, 6, 7, 8, 9, size - 1, size, size + 1, 2 * size])
        c = max(c, 1)
        kind = rng.choice(["-", "-", "freq", "tab", "rand"])
        if kind == "-":
            perm = "-"
        elif kind == "rand":
            perm = "rand"
        elif kind == "freq":
            perm = "freq:" + _nats(rng.choice([0, 1, 1, 3]) for _ in range(size))
        else:
            lo = size // c
            pool = [lo - 1, lo, lo + 1, 0, size - 1, -1, (size + c - 1) // c]
            perm = "tab:" + ",".join(str(rng.choice(pool)) for _ in range(size))
        ops.append(f"minc {c} {perm} {_nats(range(size))}")
    return {"kind": "mincode-boundary", "ops": ops}


def _eq_case(rng):
    """__eq__ between tables: same / different content, order, bucket number, kind, k, spacing."""
    n = rng.choice([2, 3])
    k = rng.choice([2, 3])
    size = n ** k
    nb = _nb(rng)
    ks = [rng.randrange(size) for _ in range(rng.randint(0, 5))]
    ops = [f"alph {n} {k} -", f"kms {nb} - {_nats(ks)} -"]
    r = rng.random()
    if r < 0.25:
        ops.append(f"kms {nb} - {_nats(ks)} -")                      # identical
    elif r < 0.45:
        ops.append(f"kms {nb} - {_nats(reversed(ks))} -")            # same codes at other positions
    elif r < 0.6:
        ops.append(f"kms {rng.choice([x for x in ['d', 1, 2, 5] if x != nb])} - {_nats(ks)} -")   # other kind / bucket number
    elif r < 0.75:
        half = len(ks) // 2
        ops.append(f"sel {nb} 0,0 {_nats(range(half))};{_nats(range(half, len(ks)))} {_nats(ks[:half])};{_nats(ks[half:])}")
    else:
        sp = sorted(rng.sample(range(k + 2), k))
        if sp == list(range(k)):
            sp[-1] += 1
        ops.append(f"alph {n} {k} {_nats(sp)}")                     # same codes over another spacing model
        ops.append(f"kms {nb} - {_nats(ks)} -")
        # tables over different k-mer alphabets (contiguous vs spaced, either order) must not be merged or joined
        ops += ["merge 1,0", "merge 0,1", "matchtab 0 1", "matchtab 1 0",
                f"alpheq {n} {k} - {n} {k} {_nats(sp)}", f"alpheq {n} {k} {_nats(sp)} {n} {k} -"]
    ops += ["eq 0 1", "eq 1 0", "eq 0 0"]
    if rng.random() < 0.5:
        a1 = (rng.choice([2, 3]), rng.choice([2, 3]), rng.choice(["-", "-", "0,2", "0,1,3", "1,2", "0,3"]))
        a2 = (rng.choice([2, 3]), rng.choice([2, 3]), rng.choice(["-", "-", "0,2", "2,0", "0,1,3", "1,2"]))
        ops.append("alpheq " + " ".join(map(str, a1 + a2)))
    return {"kind": "eq", "ops": ops}


def _qalph_case(rng):
    """Queries over another alphabet than the table's: smaller prefix alphabet (accepted), larger prefix alphabet or
    foreign symbols (refused although every symbol code is in range), both table kinds, with and without mask."""
    n = rng.choice([2, 3, 4])
    k = rng.choice([2, 3])
    nb = _nb(rng)
    ref = _seq(rng, n, k + rng.choice([1, 2, 4, 6]), rng.random() < 0.5)
    ops = [f"alph {n} {k} -", f"seqs {nb} - {_nats(ref)} -"]
    for _ in range(rng.randint(2, 4)):
        qa = rng.choice(["f", "f", f"p{n}", f"p{n + 1}", f"p{n + 3}", f"p{max(1, n - 1)}"])
        hi = n if qa == "f" else min(n, int(qa[1:]))
        start = rng.randrange(len(ref) - k + 1)
        q = [c if c < hi else rng.randrange(hi) for c in ref[start:start + k + rng.choice([0, 1, 2])]]
        if len(q) < k:
            q = (q + ref)[:k]
            q = [c if c < hi else 0 for c in q]
        mask = _mask(rng, len(q)) if rng.random() < 0.3 else None
        ops.append(f"matchq 0 {_nats(q)} {_bits(mask) if mask is not None else '-'} {qa}")
    return {"kind": "qalph", "ops": ops}


def _api_case(rng):
    """The less-used entry points: `in`, iter, reversed, len, properties, str of tables; split / decode / encode /
    kmer_array_length of the k-mer alphabet; FrequencyPermutation.from_table; empty inputs; duplicate ref ids."""
    n = rng.choice([2, 3, 4])
    k = rng.choice([2, 3])
    size = n ** k
    sp = _spacing(rng, k) if rng.random() < 0.25 else None
    span = (max(sp) + 1) if sp else k
    nb = _nb(rng)
    ops = [f"alph {n} {k} {_nats(sp) if sp else '-'}"]
    r = rng.random()
    if r < 0.15:
        ops.append(f"kms {nb} - - -")                                        # no reference at all
    elif r < 0.3:
        ops.append(f"seqs {nb} 4,4,4 {_lists([_seq(rng, n, span + rng.randint(0, 3), True) for _ in range(3)])} -")   # same ref id thrice
    else:
        ops.append(f"seqs {nb} - {_lists([_seq(rng, n, span + rng.randint(0, 6), rng.random() < 0.5) for _ in range(rng.randint(1, 3))])} -")
    some = [rng.randrange(size) for _ in range(3)]
    ops += [f"dump 0", f"props 0", f"str 0", f"getkmers 0"]
    if nb == "d":            # `in`, iter() and reversed() are defined for the direct table only
        ops += ["iter 0", "rev 0"] + [f"has 0 {q}" for q in some[:2]] + [f"has 0 {size + rng.randint(0, 3)}"]
    ops += [f"split {some[0]}", f"decode {some[1]}", f"split {size + rng.randint(0, 2)}",
            f"encode {_nats((some[2] // n ** (k - 1 - j)) % n for j in range(k))}",
            f"encode {_nats([rng.randrange(n + 2) for _ in range(k + rng.choice([-1, 0, 0, 1]))])}",
            f"arrlen {rng.choice([0, 1, span - 1, span, span + 1, span + 7])}"]
    if nb == "d" and sp is None:
        ks = [rng.randrange(size) for _ in range(rng.randint(3, 12))]
        ops.append(f"minim {rng.choice([2, 3])} ft0 {_nats(ks)}")
        ops.append(f"minc {rng.choice([1, 2, 3])} ft0 {_nats(ks)}")
    return {"kind": "api", "ops": ops}


def _selseq_case(rng):
    """select(sequence, alphabet_check) of all four selectors: fitting, too large and foreign query alphabets,
    check on / off, cached and plain syncmers."""
    n = rng.choice([2, 3, 4])
    kind = rng.choice(["minimq", "mincq", "syncq", "syncq"])
    k = rng.choice([3, 4]) if kind == "syncq" else rng.choice([2, 3])
    if kind == "syncq" and n ** k > 130:
        n = 2
    size = n ** k
    ops = [f"alph {n} {k} -"]
    for _ in range(rng.randint(1, 3)):
        qa = rng.choice(["f", f"p{n}", f"p{n}", f"p{n + 2}", f"p{max(1, n - 1)}"])
        hi = n if qa == "f" else min(n, int(qa[1:]))
        chk = rng.choice(["1", "1", "0"])
        codes = [rng.randrange(hi) for _ in range(k + rng.choice([-1, 0, 1, 3, 6, 10]))]
        if kind == "minimq":
            ops.append(f"minimq {rng.choice([2, 2, 3, 4, 1])} {_perm(rng, size)} {_nats(codes)} {qa} {chk}")
        elif kind == "mincq":
            ops.append(f"mincq {rng.choice([1, 2, 3, 4, 0])} {_perm(rng, size)} {_nats(codes)} {qa} {chk}")
        else:
            s_ = rng.randint(2, k - 1)
            window = k - s_ + 1
            offs = rng.sample(range(-window, window), rng.randint(1, min(2, window)))
            ops.append(f"syncq {s_} {_perm(rng, n ** s_)} {','.join(map(str, offs))} {_nats(codes)} {qa} {chk} {rng.choice([0, 1])}")
    return {"kind": "selseq", "ops": ops}


def _seqsx_case(rng):
    """from_sequences with the alphabet / n_buckets defaults and with an explicit alphabet that differs from (extends)
    the sequences' own alphabets; mixed sequence alphabets."""
    n = rng.choice([3, 4, 5])
    k = rng.choice([2, 3])
    ops = [f"alph {n} {k} -"]
    n_refs = rng.choice([1, 2, 3])
    msz = [rng.randint(2, n) for _ in range(n_refs)]
    if rng.random() < 0.5:
        msz = [msz[0]] * n_refs
    refs = [_seq(rng, m_, k + rng.choice([0, 1, 3, 6]), rng.random() < 0.5) for m_ in msz]
    mode = rng.choice(["e", "d"])
    nb = rng.choice(["d", "a", "a", 3, 7])
    ms = None
    if rng.random() < 0.3:
        ms = [None if rng.random() < 0.4 else _mask(rng, len(s_)) for s_ in refs]
    toks = [str(m_) for m_ in msz]
    if rng.random() < 0.35:
        # sequences over incompatible alphabets (other symbols; same, smaller or larger size), in every order
        n_for = rng.randint(1, n_refs)
        for i_ in rng.sample(range(n_refs), n_for):
            toks[i_] = "f" + str(msz[i_] + rng.choice([0, 0, 1, -1]) if msz[i_] > 2 else msz[i_])
            refs[i_] = [min(c_, int(toks[i_][1:]) - 1) for c_ in refs[i_]]
        ops.append(f"seqsx {nb} - {_lists(refs)} {_masks(ms)} {','.join(toks)} {mode}")
        ops.append(f"kms {nb if nb != 'a' else 7} - 0,1 -")
        ops.append("dump 0")
        return {"kind": "seqsx", "ops": ops}
    ops.append(f"seqsx {nb} - {_lists(refs)} {_masks(ms)} {_nats(msz)} {mode}")
    ops.append("dump 0")
    if nb != "a":
        ops.append("props 0")
    n_tab = n if mode == "e" else max(msz)
    for _ in range(2):
        m_q = rng.choice([min(msz), n_tab, n_tab + 1])
        hi = min(m_q, n_tab)
        q = [c if c < hi else rng.randrange(hi) for c in refs[0][:k + rng.choice([0, 1, 2])]]
        ops.append(f"matchq 0 {_nats(q)} - p{m_q}")
    return {"kind": "seqsx", "ops": ops}


def _audit_case(rng):
    """Regions the hypotheses / generator filters used to exclude: reference ids at and beyond the uint32 range,
    fractional compression factors, asymmetric / too small substitution matrices and thresholds beyond int32,
    frequency tables of the wrong length, position arrays that are not (n, 2), merging nothing, alphabets with more
    than 256 symbols."""
    r = rng.random()
    if r < 0.2:
        n, k = rng.choice([(2, 2), (3, 2), (4, 3)])
        nb = _nb(rng)
        seqs = [_seq(rng, n, k + rng.randint(0, 4), False) for _ in range(rng.randint(1, 3))]
        rid = [rng.choice([0, 7, 2**32 - 1, 2**32 - 1, 2**32, -1, -5, 2**40]) for _ in seqs]
        ops = [f"alph {n} {k} -", f"seqs {nb} {','.join(map(str, rid))} {_lists(seqs)} -"]
        ks = [rng.randrange(n ** k) for _ in range(3)]
        ops.append(f"kms {nb} {rng.choice([0, 2**32 - 1, 2**32, -1])} {_nats(ks)} -")
        ops += ["dump 0", f"match 0 {_nats(seqs[0])} -"]
    elif r < 0.4:
        n, k = rng.choice([(2, 2), (3, 2), (2, 3), (3, 3)])
        size = n ** k
        ops = [f"alph {n} {k} -"]
        for _ in range(3):
            comp = rng.choice(["3/2", "5/2", "5/4", "7/4", "9/8", "1/2", "3/4", "4/4", "8/2", "7/2"])
            perm = rng.choice(["-", "-", "rand", "freq:" + _nats(rng.choice([0, 1, 3]) for _ in range(size)),
                               "freq:" + _nats(rng.choice([0, 1]) for _ in range(size + rng.choice([-1, 1, 5])))])
            ops.append(f"minc {comp} {perm} {_nats(range(size))}")
        ops.append(f"minim 2 freq:{_nats(0 for _ in range(size - 1))} {_nats(range(size))}")
    elif r < 0.7:
        n = rng.choice([2, 3, 4])
        k = rng.choice([2, 3])
        nb = _nb(rng)
        ref = _seq(rng, n, k + 4, False)
        ops = [f"alph {n} {k} -", f"seqs {nb} - {_nats(ref)} -"]
        dim = rng.choice([n, n, n - 1, n - 1, n + 1])
        m = [[rng.randint(-2, 4) for _ in range(dim)] for _ in range(dim)]
        if rng.random() < 0.5:
            for i in range(dim):
                for j in range(i):
                    m[i][j] = m[j][i]
        mat = ",".join(str(m[i][j]) for i in range(dim) for j in range(dim))
        thr = rng.choice([0, 1, 2, 2**31 - 1, 2**31, -2**31 - 1, -3])   # -2**31 itself: known finding int32-score-overflow
        q = ref[1:k + 2]
        mask = rng.choice(["-", "-", _bits([True] * len(q)), _bits(_mask(rng, len(q)))])
        ops += [f"simk {rng.randrange(n ** k)} {mat} {thr}", f"matchsim 0 {_nats(q)} {mask} {mat} {thr}",
                f"kms {nb} - {_nats([] if rng.random() < 0.3 else [0, 1])} -", f"matchtabsim 0 1 {mat} {thr}"]
    elif r < 0.85:
        n, k = rng.choice([(300, 2), (257, 2), (256, 2), (300, 3), (1000, 2)])
        nb = rng.choice([7, 101])          # direct tables over n**k >= 65536 slots are slow in the Lean driver
        seqs = [[rng.choice([0, 1, min(255, n - 1), min(256, n - 1), n - 1, n - 2, rng.randrange(n)]) for _ in range(k + rng.randint(0, 5))]
                for _ in range(2)]
        ops = [f"alph {n} {k} -", f"kmers {_nats(seqs[0])}", f"seqs {nb} - {_lists(seqs)} -", "dump 0",
               f"match 0 {_nats(seqs[1])} -", f"count 0 {_nats(ref_kmers(n, k, None, seqs[0]))}",
               f"split {rng.randrange(n ** k)}", f"kmers {_nats(seqs[0][:-1] + [n])}"]
    else:
        n, k = 3, 2
        ops = [f"alph {n} {k} -", "posbad 3col", "posbad 1d", "merge _", f"kms d - 0,1 -", "merge 0", "dump 1"]
    return {"kind": "audit", "ops": ops}


def _similarity_case(rng):
    n = rng.choice([2, 3, 4])
    k = rng.choice([2, 3])
    m = [[0] * n for _ in range(n)]
    for i in range(n):
        for j in range(i, n):
            m[i][j] = m[j][i] = rng.randint(-4, 5) if i != j else rng.randint(0, 6)
    return {"kind": "similarity", "n": n, "k": k, "nb": rng.choice([None, None, 1, 2, 7]), "matrix": m,
            "threshold": rng.randint(-3, 6 * k),
            "refs": [_seq(rng, n, k + rng.randint(0, 5), rng.random() < 0.4) for _ in range(rng.randint(1, 3))],
            "query": _seq(rng, n, k + rng.randint(0, 4), False)}


def cases(rng, tier):
    nt, ns, nm, nsim = (800, 600, 120, 60) if tier == "quick" else (5000, 4000, 600, 400)
    for _ in range(nt):
        yield _table_case(rng)
    for _ in range(ns):
        yield _selector_case(rng)
    for _ in range(nm):
        yield _malformed_case(rng)
    for _ in range(nsim):
        yield _similarity_case(rng)
    for _ in range(150 if tier == "quick" else 1500):
        yield _simmask_case(rng)
    for _ in range(60 if tier == "quick" else 500):
        yield _longk_case(rng)
    for _ in range(60 if tier == "quick" else 500):
        yield _mincode_boundary_case(rng)
    for _ in range(60 if tier == "quick" else 500):
        yield _eq_case(rng)
    for _ in range(60 if tier == "quick" else 500):
        yield _qalph_case(rng)
    for _ in range(70 if tier == "quick" else 600):
        yield _api_case(rng)
    for _ in range(90 if tier == "quick" else 700):
        yield _audit_case(rng)
    for _ in range(70 if tier == "quick" else 600):
        yield _selseq_case(rng)
    for _ in range(60 if tier == "quick" else 500):
        yield _seqsx_case(rng)
    for _ in range(6 if tier == "quick" else 30):
        n_, k_ = rng.choice([(4, 4), (4, 5), (2, 8), (3, 5), (5, 4)])
        yield {"kind": "npk", "n": n_, "k": k_, "type": rng.choice(["int8", "uint8", "uint16", "uint32", "uint64", "int16", "int32", "int64"]),
               "seq": [rng.randrange(n_) for _ in range(k_ + 3)]}
    yield {"kind": "khash", "n": 4, "k": 3}
    for _ in range(30 if tier == "quick" else 200):
        what = rng.choice(["negative-kmer", "negative-kmer", "zero-buckets", "big-code", "big-score", "short-spaced-mask"])
        if what == "negative-kmer":
            n_, k_ = rng.choice([(2, 2), (4, 3)])
            yield {"kind": "probe", "what": what, "n": n_, "k": k_, "nb": rng.choice([None, 1, 5]),
                   "seq": [rng.randrange(n_) for _ in range(k_ + 4)], "q": rng.choice([-1, -2, -n_ ** k_, -n_ ** k_ - 1, -10**6])}
        elif what == "zero-buckets":
            yield {"kind": "probe", "what": what, "n": 2, "k": 2, "nbv": rng.choice([0, 0, -1, -7]),
                   "kmers": [rng.randrange(4) for _ in range(rng.randint(0, 3))] or [1]}
        elif what == "big-code":
            n_, k_ = rng.choice([(4, 32), (4, 32), (20, 15), (2, 64), (4, 31), (20, 14)])
            yield {"kind": "probe", "what": what, "n": n_, "k": k_,
                   "seq": [rng.choice([n_ - 1, n_ - 1, rng.randrange(n_)]) for _ in range(k_ + rng.randint(0, 3))]}
        elif what == "big-score":
            n_, k_ = rng.choice([(2, 2), (2, 3), (3, 3), (4, 4)])
            big_ = rng.choice([2**30, 2**29, 2**31 - 1, 10**9])
            thr_ = rng.choice([1, -2**31, -2**31 + 5, 2**31 - 1, 0])
            m_ = [rng.choice([big_, big_, 0, 1]) for _ in range(n_ * n_)]
            for i in range(n_):
                for j in range(i):
                    m_[i * n_ + j] = m_[j * n_ + i]
            yield {"kind": "probe", "what": what, "n": n_, "k": k_, "matrix": m_, "thr": thr_, "q": rng.randrange(n_ ** k_)}
        else:
            k_ = rng.choice([2, 3])
            sp_ = sorted(rng.sample(range(k_ + 3), k_))
            length = max(sp_) + 1 + rng.choice([0, 0, 1])       # shorter than (k-1) + max(sp) + 1: the code reads beyond the mask
            mask_ = [rng.random() < 0.3 for _ in range(length)]
            yield {"kind": "probe", "what": what, "n": 3, "k": k_, "sp": sp_, "mask": mask_,
                   "seq": [rng.randrange(3) for _ in range(length)]}
    for _ in range(12 if tier == "quick" else 60):
        arrs = [[rng.randrange(64) for _ in range(rng.randint(1, 4))] for _ in range(rng.randint(1, 3))]
        yield {"kind": "ctor-reject", "kmers": arrs, "bad": rng.randrange(len(arrs)), "how": rng.choice(["dtype", "readonly"]),
               "nb": rng.choice([None, 1, 3]), "ctor": rng.choice(["from_kmers", "from_kmer_selection"])}


def corpus():
    return [
        # sequences of length k-1, k, k+1 and a repeated k-mer, direct and one bucket
        {"kind": "table", "ops": ["alph 2 3 -", "seqs d - 0,1,0;0,1,0,1;0,1,0,1,0 -", "dump 0", "match 0 0,1,0 -",
                                  "count 0 all", "get 0 2", "getkmers 0", "pickle 0", "eq 0 1", "matchtab 0 1"]},
        {"kind": "table", "ops": ["alph 2 3 -", "seqs 1 5,9,7 0,1,0;0,1,0,1;0,1,0,1,0 n;0100;n", "dump 0",
                                  "match 0 1,0,1,0 0001", "count 0 2,5", "get 0 2", "getkmers 0",
                                  "seqs 1 - 1,1,1,0 -", "merge 0,1,0", "dump 2", "matchtab 2 0"]},
        {"kind": "table", "ops": ["alph 2 3 -", "seqs d - 0,1 -"]},
        # spaced k-mers without masks
        {"kind": "table", "ops": ["alph 4 3 0,1,3", "seqs 7 - 0,1,2,3,0,1,2,3,0,1 -", "dump 0", "match 0 3,0,1,2,3,0 -"]},
        # n_buckets larger than the alphabet is clipped
        {"kind": "table", "ops": ["alph 2 2 -", "kms 1000003 - 0,1,2,3,3 -", "dump 0", "get 0 3", "count 0 3,0"]},
        # minimizer: ties, window = length, chunk borders
        {"kind": "selector", "ops": ["alph 2 2 -", "minim 3 - 2,2,2,2,2,2,2", "minim 3 - 3,2,1,0,1,2,3,0", "minim 4 - 1,0,0,1"]},
        {"kind": "selector", "ops": ["alph 3 3 -", "sync 2 - 0 0,1,2,0,1,2,2,1,0", "synck 2 rand 0,-1 0,5,13,26"]},
        {"kind": "mincode-dtype", "kmers": [0, 1, 2, 3]},
        # similarity rule + ignore mask: masked query positions must stay excluded (direct and bucketed)
        {"kind": "simmask", "ops": ["alph 2 2 -", "seqs d - 0,1,0,1 -", "matchsim 0 0,1,0 100 1,0,0,1 -5",
                                    "seqs 3 - 0,1,0,1 0010", "matchsim 1 0,1,0 010 1,0,0,1 1",
                                    "seqs d 9 0,1,0 100", "matchtabsim 0 2 1,0,0,1 -5"]},
        # spacing passed as int64 ndarray (sorted / unsorted): not modified, not aliased (scrambled by the adapter afterwards)
        {"kind": "table", "ops": ["alph 4 3 0,2,3", "kmers 0,1,2,3,0,1,2", "seqs d - 0,1,2,3,0,1,2,3 -", "dump 0",
                                  "match 0 1,2,3,0,1,2 -", "seqs 5 - 0,1,2,3,0,1,2,3 -", "match 1 1,2,3,0,1,2 -"]},
        {"kind": "table", "ops": ["alph 4 3 3,0,1", "kmers 0,1,2,3,0,1,2", "seqs d - 0,1,2,3,0,1,2,3 -", "dump 0",
                                  "match 0 1,2,3,0,1,2 -"]},
        {"kind": "table", "ops": ["alph 3 2 0,2", "kmers 0,1,2,2,1", "seqs 2 - 0,1,2,2,1,0 -", "match 0 2,2,1,0 -"]},
        # references over incompatible alphabets, both orders, default alphabet (common_alphabet) and explicit alphabet
        {"kind": "seqsx", "ops": ["alph 4 2 -", "seqsx d - 0,1,2,3;0,1,2,3 - 4,f4 d", "seqsx d - 0,1,2,3;0,1,2,3 - f4,4 d",
                                  "seqsx 3 - 0,1,2;0,1,2,3 - f3,4 d", "seqsx d - 0,1,2,3;0,1,2 - 4,f3 d",
                                  "seqsx d - 0,1,2,3 - f4 e", "seqsx d - 0,1,2;0,1,2,3 - 3,4 d", "dump 0"]},
        # long k-mers: the leading term of the rolling update exceeds 32 bit
        {"kind": "longk", "ops": ["alph 4 17 -", "kmers 3,3,3,3,3,3,3,3,3,3,3,3,3,3,3,3,3,2,1,3",
                                  "seqs 7 - 3,3,3,3,3,3,3,3,3,3,3,3,3,3,3,3,3,2,1,3;1,3,3,3,3,3,3,3,3,3,3,3,3,3,3,3,3,2,1 -",
                                  "dump 0", "match 0 0,3,3,3,3,3,3,3,3,3,3,3,3,3,3,3,3,2,1 -"]},
        {"kind": "longk", "ops": ["alph 20 8 -", "kmers 19,19,19,19,19,19,19,19,19,0,5",
                                  "seqs 2 - 19,19,19,19,19,19,19,19,19,0,5;7,19,19,19,19,19,19,19,19,0 -",
                                  "dump 0", "count 0 25599999999,25599999980"]},
    ]


def nontrivial(case, impl_out):
    if case.get("kind") in ("similarity", "mincode-dtype", "ctor-reject", "npk", "khash", "probe"):
        return True
    for line in impl_out or []:
        if line.startswith("ERR") or (line.startswith("ok ") and ":" in line):
            return True
    return False


def signature(case):
    return "|".join(case["ops"]) if case.get("ops") else repr(sorted(case.items()))


def distribution(cases_, impl_outs):
    ops, outcomes, alph, tables = {}, {}, {}, {"direct": 0, "bucketed": 0, "spaced": 0, "masked": 0}
    for c, o in zip(cases_, impl_outs):
        for op, line in zip(c.get("ops") or [], o or []):
            w = op.split()
            ops[w[0]] = ops.get(w[0], 0) + 1
            k = line.split(" ")[0]
            outcomes[k] = outcomes.get(k, 0) + 1
            if w[0] == "alph":
                key = f"n{w[1]}k{w[2]}"
                alph[key] = alph.get(key, 0) + 1
                if w[3] != "-":
                    tables["spaced"] += 1
            if w[0] in ("seqs", "kms", "sel"):
                tables["direct" if w[1] == "d" else "bucketed"] += 1
                if w[0] != "sel" and w[4] != "-":
                    tables["masked"] += 1
    return {"ops": ops, "outcomes": outcomes, "alphabets": alph, "tables": tables}


def search(rng, problems, tier):
    """Failing-input search: the same structured streams with a fresh seed and more cases."""
    n = 1500 if tier == "quick" else 6000
    for _ in range(n):
        r = rng.random()
        if r < 0.45:
            yield _table_case(rng)
        elif r < 0.75:
            yield _selector_case(rng)
        elif r < 0.82:
            yield _malformed_case(rng)
        elif r < 0.95:
            yield _simmask_case(rng)
        else:
            yield _longk_case(rng)


def shrink(case, key):
    """Drop ops (never the alphabet line) while the same key is still reported."""
    if not case.get("ops") or len(case["ops"]) <= 2:
        return case
    from common import util

    def fails(ops):
        if not ops or not ops[0].startswith("alph"):
            return False
        c = dict(case, ops=ops)
        try:
            return any(k == key for k, _ in oracle(c))
        except Exception:  # noqa: BLE001
            return False
    ops = util.shrink_list(case["ops"], fails, max_steps=60)
    return dict(case, ops=ops) if fails(ops) else case
